# Canary for rules C13.3 / C13.4 (never imported or executed).


class Picky:
    def __init__(self, next_states):
        self.next_states = next_states

    def pick(self, state_list):
        best = 0
        for action, idx in self.next_states:
            if action == "Down":
                best = 1
            if idx < 3:
                best = 2
        return best
