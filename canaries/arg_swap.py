# Canary for the argument-swap rule (never imported or executed): exactly one exchanged call.


def build(length, width, offset):
    return length * width + offset


def caller_good(length, width, offset):
    return build(length, width, offset)


def caller_bad(length, width, offset):
    return build(width, 7, offset)
