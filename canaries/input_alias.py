# Canary for rule C10.1 (never imported or executed): exactly one in-place operation on an input alias.


class Holder:
    def __init__(self, items):
        self.items = items

    def grow(self):
        self.items.append(1)


class CopyingHolder:
    def __init__(self, items):
        self.things = items
        self.things = list(self.things)

    def grow(self):
        self.things.append(1)
