# Canary for rule C03.1 (never imported or executed): both loops below must be flagged on every run.


class Bag:
    def __init__(self, items):
        self.items = items

    def drop_all_small(self):
        for x in self.items:
            if x < 3:
                self.items.remove(x)

    def drop_through_helper(self):
        for x in self.items:
            if x < 3:
                self.take_out(x)

    def take_out(self, x):
        self.items.remove(x)
        self.items = [y for y in self.items]
