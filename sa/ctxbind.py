"""Call-context binding of optional parameters.

A maintainer adds an optional parameter to a node method (`def prune_paths(self, state_list, can_reach=None)`) and the one
caller hands in something it computed from the same state list (`can_reach = [s.reach_probability != 0 for s in
self.state_list]`).  Judged alone, the method body then mentions an opaque parameter.  This module produces a *view* of
the method in which such a parameter is replaced by what its callers pass, written in the method's own vocabulary
(the caller's `self.state_list` is the callee's `state_list`), or by its default when no caller passes it.

Conditions (otherwise the function is returned unchanged and the rules see the parameter as the unknown it is):
  * every resolved call site passes the same expression (after translation), or none passes the parameter;
  * a passed name has exactly one definition reaching the call, a pure expression (comprehension / display / attribute
    chain / arithmetic / builtin call) over things that the callee also receives and over module constants;
  * no function reachable from the callee stores to an attribute that the expression reads (the value computed before
    the calls is the value a computation at the time of use would give).
"""
import ast
import copy

from .loader import Func, add_parents, walk_no_nested_defs, call_name

_PURE_CALLS = {"len", "set", "frozenset", "list", "tuple", "dict", "sorted", "range", "enumerate", "zip", "min", "max", "sum", "abs", "round", "bool", "int", "float", "str"}


def _reads_only(ctx, m):
    """m and everything it calls store no attribute and call no mutator on an attribute (a query method)"""
    from .pointsto import MUTATORS
    for h in ctx.cg.reachable([m]):
        for x in walk_no_nested_defs(h.node):
            if isinstance(x, ast.Attribute) and isinstance(x.ctx, (ast.Store, ast.Del)):
                return False
            if isinstance(x, ast.Subscript) and isinstance(x.ctx, (ast.Store, ast.Del)) and isinstance(x.value, ast.Attribute):
                return False
            if isinstance(x, ast.Call) and isinstance(x.func, ast.Attribute) and x.func.attr in MUTATORS and isinstance(x.func.value, ast.Attribute):
                return False
    return True


def _pure(e, ctx=None, receiver=None):
    for x in ast.walk(e):
        if isinstance(x, ast.Call):
            if ctx is not None and receiver is not None and isinstance(x.func, ast.Attribute) and isinstance(x.func.value, ast.Name) and x.func.value.id == receiver:
                ms = [c.methods[x.func.attr] for c in ctx.prog.classes.values() if x.func.attr in c.methods]
                if ms and all(_reads_only(ctx, m) for m in ms):
                    continue
                return False
            if call_name(x) not in _PURE_CALLS:
                return False
        if isinstance(x, (ast.Lambda, ast.Await, ast.Yield, ast.YieldFrom, ast.NamedExpr, ast.Starred)):
            return False
    return True


def _bound_names(e):
    out = set()
    for x in ast.walk(e):
        if isinstance(x, ast.comprehension):
            for t in ast.walk(x.target):
                if isinstance(t, ast.Name):
                    out.add(t.id)
    return out


class _Replace(ast.NodeTransformer):
    def __init__(self, table):
        self.table = table        # ast.dump(expr) -> replacement node

    def visit(self, node):
        if isinstance(node, ast.expr):
            k = ast.dump(node)
            if k in self.table:
                return copy.deepcopy(self.table[k])
        return self.generic_visit(node)


def _inline_pure_helper(ctx, g, e, depth=0):
    """`self.helper(a, b)` where helper's body is `return <pure expression>`: that expression with the arguments in place."""
    if depth > 2 or not (isinstance(e, ast.Call) and isinstance(e.func, ast.Attribute) and isinstance(e.func.value, ast.Name) and e.func.value.id == "self" and g.cls is not None):
        return e
    m = ctx.prog.resolve_method(g.cls.name, e.func.attr)
    if m is None:
        return e
    body = [st for st in m.node.body if not (isinstance(st, ast.Expr) and isinstance(st.value, ast.Constant))]
    if len(body) != 1 or not isinstance(body[0], ast.Return) or body[0].value is None:
        return e
    params = [p for p in m.params if p != "self"]
    if any(isinstance(a, ast.Starred) for a in e.args) or len(e.args) > len(params) or any(k.arg is None for k in e.keywords):
        return e
    bind = dict(zip(params, e.args))
    for k in e.keywords:
        bind[k.arg] = k.value
    for p in params:
        if p not in bind:
            if p in m.defaults:
                bind[p] = m.defaults[p]
            else:
                return e
    bound = _bound_names(body[0].value)

    class _S(ast.NodeTransformer):
        def visit_Name(self, node):
            if isinstance(node.ctx, ast.Load) and node.id in bind and node.id not in bound:
                return copy.deepcopy(bind[node.id])
            return node
    out = _S().visit(copy.deepcopy(body[0].value))
    # getattr(x, "name") with a literal name is x.name
    class _G(ast.NodeTransformer):
        def visit_Call(self, node):
            self.generic_visit(node)
            if isinstance(node.func, ast.Name) and node.func.id == "getattr" and len(node.args) == 2 and isinstance(node.args[1], ast.Constant) and isinstance(node.args[1].value, str):
                return ast.Attribute(value=node.args[0], attr=node.args[1].value, ctx=ast.Load())
            return node
    out = _G().visit(out)
    return _inline_pure_helper(ctx, g, out, depth + 1) if isinstance(out, ast.Call) else out


def _enclosing_enumerate(call):
    """(position variable, element variable, iterated expression, loop) of the innermost `for k, s in enumerate(X)` (or `for s in X`) around call"""
    n = getattr(call, "parent", None)
    while n is not None and not isinstance(n, (ast.FunctionDef, ast.AsyncFunctionDef)):
        if isinstance(n, ast.For):
            if isinstance(n.iter, ast.Call) and isinstance(n.iter.func, ast.Name) and n.iter.func.id == "enumerate" and len(n.iter.args) == 1 \
                    and isinstance(n.target, ast.Tuple) and len(n.target.elts) == 2 and all(isinstance(t, ast.Name) for t in n.target.elts):
                return n.target.elts[0].id, n.target.elts[1].id, n.iter.args[0], n
            if isinstance(n.target, ast.Name):
                return None, n.target.id, n.iter, n
        n = getattr(n, "parent", None)
    return None


def _table_entry(ctx, g, tdef, depth=0):
    """What a position table holds: (iterated list expression, element variable, entry expression over the element variable,
    condition or None) for
        [E(s) for s in X]            [E(s) if c(s) else None for s in X]
        {k: E(s) for k, s in enumerate(X) if c(s)}
        T = {} / [None] * len(X); for k, s in enumerate(X): if c(s): T[k] = E(s)      (in a helper `return T`, or in g itself)
    None when the definition is none of these."""
    if depth > 2:
        return None
    if isinstance(tdef, ast.Call) and isinstance(tdef.func, ast.Attribute) and isinstance(tdef.func.value, ast.Name) and tdef.func.value.id == "self" \
            and not tdef.args and not tdef.keywords and g.cls is not None:
        m = ctx.prog.resolve_method(g.cls.name, tdef.func.attr)
        if m is None:
            return None
        body = [st for st in m.node.body if not (isinstance(st, ast.Expr) and isinstance(st.value, ast.Constant))]
        if len(body) == 1 and isinstance(body[0], ast.Return) and body[0].value is not None:
            return _table_entry(ctx, m, body[0].value, depth + 1)
        if len(body) == 3 and isinstance(body[0], ast.Assign) and isinstance(body[1], ast.For) and isinstance(body[2], ast.Return) \
                and isinstance(body[2].value, ast.Name) and len(body[0].targets) == 1 and isinstance(body[0].targets[0], ast.Name) and body[0].targets[0].id == body[2].value.id:
            return _fill_loop(body[0], body[1])
        return None
    if isinstance(tdef, ast.ListComp) and len(tdef.generators) == 1 and not tdef.generators[0].ifs and isinstance(tdef.generators[0].target, ast.Name):
        gen = tdef.generators[0]
        elt, cond = tdef.elt, None
        if isinstance(elt, ast.IfExp) and isinstance(elt.orelse, ast.Constant) and elt.orelse.value is None:
            elt, cond = elt.body, elt.test
        return gen.iter, gen.target.id, elt, cond
    if isinstance(tdef, ast.DictComp) and len(tdef.generators) == 1:
        gen = tdef.generators[0]
        if isinstance(gen.iter, ast.Call) and isinstance(gen.iter.func, ast.Name) and gen.iter.func.id == "enumerate" and len(gen.iter.args) == 1 \
                and isinstance(gen.target, ast.Tuple) and len(gen.target.elts) == 2 and all(isinstance(t, ast.Name) for t in gen.target.elts) \
                and isinstance(tdef.key, ast.Name) and tdef.key.id == gen.target.elts[0].id and len(gen.ifs) <= 1:
            return gen.iter.args[0], gen.target.elts[1].id, tdef.value, (gen.ifs[0] if gen.ifs else None)
    return None


def _fill_loop(init, loop):
    """T = {} ; for k, s in enumerate(X): [if c:] T[k] = E"""
    T = init.targets[0].id
    if not (isinstance(loop.iter, ast.Call) and isinstance(loop.iter.func, ast.Name) and loop.iter.func.id == "enumerate" and len(loop.iter.args) == 1
            and isinstance(loop.target, ast.Tuple) and len(loop.target.elts) == 2 and all(isinstance(t, ast.Name) for t in loop.target.elts)) or loop.orelse:
        return None
    k, sv = loop.target.elts[0].id, loop.target.elts[1].id
    body, cond = loop.body, None
    if len(body) == 1 and isinstance(body[0], ast.If) and not body[0].orelse:
        cond, body = body[0].test, body[0].body
    if len(body) == 1 and isinstance(body[0], ast.Assign) and len(body[0].targets) == 1 and isinstance(body[0].targets[0], ast.Subscript) \
            and isinstance(body[0].targets[0].value, ast.Name) and body[0].targets[0].value.id == T \
            and isinstance(body[0].targets[0].slice, ast.Name) and body[0].targets[0].slice.id == k:
        return loop.iter.args[0], sv, body[0].value, cond
    return None


def _lazy_memo(g, T, k, sv, call):
    """`if k not in T: T[k] = E` in front of the use, T = {} before the loops, no other store into T: T[k] is E"""
    fills = [st for st in walk_no_nested_defs(g.node) if isinstance(st, ast.Assign) and len(st.targets) == 1 and isinstance(st.targets[0], ast.Subscript)
             and isinstance(st.targets[0].value, ast.Name) and st.targets[0].value.id == T]
    if len(fills) != 1:
        return None
    st = fills[0]
    par = getattr(st, "parent", None)
    if not (isinstance(st.targets[0].slice, ast.Name) and st.targets[0].slice.id == k and isinstance(par, ast.If) and not par.orelse and len(par.body) == 1
            and isinstance(par.test, ast.Compare) and len(par.test.ops) == 1 and isinstance(par.test.ops[0], ast.NotIn)
            and isinstance(par.test.left, ast.Name) and par.test.left.id == k and isinstance(par.test.comparators[0], ast.Name) and par.test.comparators[0].id == T):
        return None
    return st.value


def _resolve_table_lookup(ctx, g, call, a):
    """The argument `T[k]` of a call `s.method(..., T[k])` inside `for k, s in enumerate(X)`, with T a table that holds E(X[i]) at
    position i: the argument is E(s).  Returns (expression over the loop's element variable, that variable) or None."""
    if not (isinstance(a, ast.Subscript) and isinstance(a.value, ast.Name) and isinstance(a.slice, ast.Name) and isinstance(call.func, ast.Attribute)
            and isinstance(call.func.value, ast.Name)):
        return None
    enc = _enclosing_enumerate(call)
    if enc is None and all(n in g.params for n in (a.value.id, a.slice.id, call.func.value.id)):
        # the step was moved into a helper `step(position, state, memo)` that the sweep calls for every (position, state) of the
        # list: the loop is one level up, the memo is filled on first use in the helper
        sites = [(G2, c2) for G2, c2 in ctx.cg.callers_of(g) if not getattr(c2, "synthetic", False)]
        if len(sites) != 1:
            return None
        G2, c2 = sites[0]
        ps = [p for p in g.params if p != "self"]
        amap = dict(zip(ps, c2.args))
        amap.update({k_.arg: k_.value for k_ in c2.keywords if k_.arg})
        names = {p: (v.id if isinstance(v, ast.Name) else None) for p, v in amap.items()}
        k2, s2, T2 = names.get(a.slice.id), names.get(call.func.value.id), names.get(a.value.id)
        enc2 = _enclosing_enumerate(c2)
        if None in (k2, s2, T2) or enc2 is None or enc2[0] != k2 or enc2[1] != s2:
            return None
        defs2 = [d for d in ctx.cfg(G2).defs_reaching(c2, T2) if isinstance(d, ast.Assign)]
        if len(defs2) != 1 or not (isinstance(defs2[0].value, ast.Dict) and not defs2[0].value.keys):
            return None
        if any(isinstance(x, ast.Subscript) and isinstance(x.ctx, (ast.Store, ast.Del)) and isinstance(x.value, ast.Name) and x.value.id == T2 for x in walk_no_nested_defs(G2.node)):
            return None
        e = _lazy_memo(g, a.value.id, a.slice.id, call.func.value.id, call)
        if e is None:
            return None
        return copy.deepcopy(e), call.func.value.id
    if enc is None or enc[0] is None or enc[0] != a.slice.id or enc[1] != call.func.value.id:
        return None
    k, sv, X, loop = enc
    T = a.value.id
    defs = [d for d in ctx.cfg(g).defs_reaching(call, T)]
    adefs = [d for d in defs if isinstance(d, ast.Assign) and len(d.targets) == 1 and isinstance(d.targets[0], ast.Name)]
    if len(adefs) != 1:
        return None
    tdef = adefs[0].value
    ent = None
    if isinstance(tdef, ast.Dict) and not tdef.keys:
        e = _lazy_memo(g, T, k, sv, call)
        if e is not None:
            ent = (X, sv, e, None)
        else:
            nxt = [st for st in g.node.body if isinstance(st, ast.For)]
            for lp in nxt:
                r = _fill_loop(adefs[0], lp)
                if r is not None and lp is not loop:
                    ent = r
    else:
        if any(isinstance(st, ast.Assign) and any(isinstance(t, ast.Subscript) and isinstance(t.value, ast.Name) and t.value.id == T for t in st.targets)
               for st in walk_no_nested_defs(g.node)):
            return None          # the table is modified after it was built
        ent = _table_entry(ctx, g, tdef)
    if ent is None:
        return None
    X2, sv2, E, cond = ent
    if ast.dump(X2) != ast.dump(X):
        return None
    # rename the table's element variable to the loop's
    class _R(ast.NodeTransformer):
        def visit_Name(self, node):
            return ast.copy_location(ast.Name(id=sv, ctx=node.ctx), node) if node.id == sv2 else node
    return _R().visit(copy.deepcopy(E)), sv


def _actual(call, callee, p):
    """argument expression for parameter p of callee at `call` (None when not passed)"""
    params = [q for q in callee.params]
    if params and params[0] == "self" and isinstance(call.func, ast.Attribute):
        params = params[1:]
    if p in params:
        i = params.index(p)
        if i < len(call.args) and not any(isinstance(a, ast.Starred) for a in call.args[:i + 1]):
            return call.args[i]
    for k in call.keywords:
        if k.arg == p:
            return k.value
    return None


def specialise(ctx, f, keep=1):
    """View of f with its optional parameters (those after the first `keep` non-self parameters that have a default) bound from
    the call context.  Returns f itself when nothing is bound."""
    cache = ctx.cache.setdefault("ctxbind", {})
    if f.qual in cache:
        return cache[f.qual]
    cache[f.qual] = f
    ps = [p for p in f.params if p != "self"]
    extra = [p for p in ps[keep:] if p in f.defaults]
    if not extra or getattr(f, "inlined_view", False):
        return f
    callers = ctx.cg.callers_of(f)
    bind = {}
    for p in extra:
        exprs = []
        ok = True
        for g, call in callers:
            a = _actual(call, f, p)
            if a is None:
                exprs.append(copy.deepcopy(f.defaults[p]))
                continue
            e = a
            receiver = None
            tl = _resolve_table_lookup(ctx, g, call, a)
            if tl is not None:
                e, receiver = tl
            if isinstance(a, ast.Name):
                defs = ctx.cfg(g).defs_reaching(call, a.id)
                defs = [d for d in defs if isinstance(d, ast.Assign)] if all(isinstance(d, ast.Assign) for d in defs) else []
                if len(defs) != 1 or len(defs[0].targets) != 1 or not isinstance(defs[0].targets[0], ast.Name):
                    ok = False
                    break
                e = defs[0].value
                # the object that was built is what is passed only if the caller does not touch it in between (or during the loop
                # the call sits in): any store into it, mutator call on it or re-binding makes it something else
                from .pointsto import MUTATORS as _MUT
                touched = False
                for x in walk_no_nested_defs(g.node):
                    if isinstance(x, ast.Subscript) and isinstance(x.ctx, (ast.Store, ast.Del)) and isinstance(x.value, ast.Name) and x.value.id == a.id:
                        touched = True
                    if isinstance(x, ast.Call) and isinstance(x.func, ast.Attribute) and isinstance(x.func.value, ast.Name) and x.func.value.id == a.id and x.func.attr in _MUT:
                        touched = True
                    if isinstance(x, ast.AugAssign) and isinstance(x.target, ast.Name) and x.target.id == a.id:
                        touched = True
                if touched:
                    ok = False
                    break
            e = _inline_pure_helper(ctx, g, e)
            if not _pure(e, ctx, receiver):
                ok = False
                break
            # translate into the callee's vocabulary: what the caller passes for q is the callee's q
            table = {}
            for q in ps:
                if q == p:
                    continue
                aq = _actual(call, f, q)
                if aq is not None and not isinstance(aq, ast.Constant):
                    table[ast.dump(aq)] = ast.Name(id=q, ctx=ast.Load())
            e2 = _Replace(table).visit(copy.deepcopy(e))
            if f.cls is not None and g.cls is not None and g.cls.name not in ctx.prog.mro(f.cls.name):
                # attributes of the CALLER's object (the solver's precision, ...) are values fixed outside the callee: opaque names
                known = {}
                if g.cls.name == "Solver":
                    try:
                        from .rules import C04 as _C04
                        known["floor"] = _C04.threshold_chain(ctx)["d"]      # the solver's rounding digits: a constant of the construction site
                    except Exception:
                        pass

                class _CallerSelf(ast.NodeTransformer):
                    def visit_Attribute(self, node):
                        if isinstance(node.value, ast.Name) and node.value.id == "self" and isinstance(node.ctx, ast.Load):
                            if node.attr in known:
                                return ast.copy_location(ast.Constant(value=known[node.attr]), node)
                            return ast.copy_location(ast.Name(id="__caller_%s__" % node.attr, ctx=ast.Load()), node)
                        return self.generic_visit(node)
                e2 = _CallerSelf().visit(e2)
            free = {x.id for x in ast.walk(e2) if isinstance(x, ast.Name) and not x.id.startswith("__caller_")} - _bound_names(e2)
            allowed = set(ps) | set(g.mod.consts) | _PURE_CALLS | {"True", "False", "None"} | ({receiver} if receiver else set())
            if not free <= allowed or "self" in free:
                ok = False
                break
            if receiver is not None:
                # the element the method is called on is the callee's `self`
                class _Recv(ast.NodeTransformer):
                    def visit_Name(self, node, _r=receiver):
                        return ast.copy_location(ast.Name(id="self", ctx=node.ctx), node) if node.id == _r else node
                e2 = _Recv().visit(e2)
            # the attributes it reads are not written below the callee
            read = {x.attr for x in ast.walk(e2) if isinstance(x, ast.Attribute)}
            for h in ctx.cg.reachable([f]):
                for x in walk_no_nested_defs(h.node):
                    if isinstance(x, ast.Attribute) and isinstance(x.ctx, (ast.Store, ast.Del)) and x.attr in read:
                        ok = False
            if not ok:
                break
            exprs.append(e2)
        if not ok or not exprs:
            if not callers and p in f.defaults:
                bind[p] = copy.deepcopy(f.defaults[p])
            continue
        distinct = []
        for e in exprs:
            if ast.dump(e) not in [ast.dump(x) for x in distinct]:
                distinct.append(e)
        if len(distinct) == 1:
            bind[p] = exprs[0]
        elif len(distinct) <= 3:
            # several call contexts: one of them holds, which one is an unknown of the analysis (`__ctx_k__`); a rule that
            # reaches the same normal form in every context does not care
            e = distinct[-1]
            for i, d in enumerate(reversed(distinct[:-1])):
                e = ast.IfExp(test=ast.Name(id="__ctx_%s_%d__" % (p, i), ctx=ast.Load()), body=d, orelse=e)
            bind[p] = e
    if not bind:
        return f

    class _Sub(ast.NodeTransformer):
        def visit_Name(self, node):
            if isinstance(node.ctx, ast.Load) and node.id in bind:
                return ast.copy_location(copy.deepcopy(bind[node.id]), node)
            return node
    node = copy.deepcopy(f.node)
    # the parameter starts out as what the callers pass (a prologue assignment: later re-assignments of the name stay visible)
    doc = [st for st in node.body[:1] if isinstance(st, ast.Expr) and isinstance(st.value, ast.Constant)]
    node.body = doc + [ast.Assign(targets=[ast.Name(id=p_, ctx=ast.Store())], value=copy.deepcopy(e_), lineno=f.node.lineno, col_offset=0)
                       for p_, e_ in bind.items()] + node.body[len(doc):]
    ast.fix_missing_locations(node)
    for x in ast.walk(node):
        if not hasattr(x, "lineno") and isinstance(x, (ast.expr, ast.stmt)):
            x.lineno = f.node.lineno
            x.col_offset = 0
    add_parents(node)
    node.parent = getattr(f.node, "parent", None)
    v = Func(f.mod, f.cls, node)
    v.bound_params = {p: ast.unparse(e) for p, e in bind.items()}
    v.specialised_view = True
    cache[f.qual] = v
    return v


def with_defaults(ctx, f, keep=1, accept=None):
    """View of f in which the optional parameters after the first `keep` whose default is a compile-time constant accepted by
    `accept(value)` start out as that constant (a prologue assignment): the function as it behaves when the option is not
    used.  Returns (view, {param: value}); (f, {}) when there is nothing to bind."""
    ps = [p for p in f.params if p != "self"]
    bind = {}
    for p in ps[keep:]:
        if p not in f.defaults:
            continue
        ok, val = ctx.prog.try_const(f.defaults[p], f.mod)
        if ok and (accept is None or accept(val)) and not any(isinstance(x, ast.Name) and x.id == p and isinstance(x.ctx, ast.Store) for x in walk_no_nested_defs(f.node)):
            bind[p] = val
    if not bind:
        return f, {}
    node = copy.deepcopy(f.node)
    doc = [st for st in node.body[:1] if isinstance(st, ast.Expr) and isinstance(st.value, ast.Constant)]
    pro = []
    for p, val in bind.items():
        try:
            lit = ast.parse(repr(val), mode="eval").body
        except SyntaxError:
            return f, {}
        pro.append(ast.Assign(targets=[ast.Name(id=p, ctx=ast.Store())], value=lit, lineno=f.node.lineno, col_offset=0))
    node.body = doc + pro + node.body[len(doc):]
    ast.fix_missing_locations(node)
    add_parents(node)
    node.parent = getattr(f.node, "parent", None)
    v = Func(f.mod, f.cls, node)
    v.bound_params = {p: repr(val) for p, val in bind.items()}
    v.specialised_view = True
    return v, bind
