"""Call-context binding of optional parameters.

A maintainer adds an optional parameter to a node method (`def prune_paths(self, state_list, can_reach=None)`) and the one
caller hands in something it computed from the same state list (`can_reach = [s.reach_probability != 0 for s in
self.state_list]`).  Judged alone, the method body then mentions an opaque parameter.  This module produces a *view* of
the method in which such a parameter is replaced by what its callers pass, written in the method's own vocabulary
(the caller's `self.state_list` is the callee's `state_list`), or by its default when no caller passes it.

Conditions (otherwise the function is returned unchanged and the rules see the parameter as the unknown it is):
  * every resolved call site passes the same expression (after translation), or none passes the parameter;
  * a passed name has exactly one definition reaching the call, a pure expression (comprehension / display / attribute
    chain / arithmetic / builtin call) over things that the callee also receives and over module constants;
  * no function reachable from the callee stores to an attribute that the expression reads (the value computed before
    the calls is the value a computation at the time of use would give).
"""
import ast
import copy

from .loader import Func, add_parents, walk_no_nested_defs, call_name

_PURE_CALLS = {"len", "set", "frozenset", "list", "tuple", "dict", "sorted", "range", "enumerate", "zip", "min", "max", "sum", "abs", "round", "bool", "int", "float", "str"}


def _pure(e):
    for x in ast.walk(e):
        if isinstance(x, ast.Call):
            if call_name(x) not in _PURE_CALLS:
                return False
        if isinstance(x, (ast.Lambda, ast.Await, ast.Yield, ast.YieldFrom, ast.NamedExpr, ast.Starred)):
            return False
    return True


def _bound_names(e):
    out = set()
    for x in ast.walk(e):
        if isinstance(x, ast.comprehension):
            for t in ast.walk(x.target):
                if isinstance(t, ast.Name):
                    out.add(t.id)
    return out


class _Replace(ast.NodeTransformer):
    def __init__(self, table):
        self.table = table        # ast.dump(expr) -> replacement node

    def visit(self, node):
        if isinstance(node, ast.expr):
            k = ast.dump(node)
            if k in self.table:
                return copy.deepcopy(self.table[k])
        return self.generic_visit(node)


def _inline_pure_helper(ctx, g, e, depth=0):
    """`self.helper(a, b)` where helper's body is `return <pure expression>`: that expression with the arguments in place."""
    if depth > 2 or not (isinstance(e, ast.Call) and isinstance(e.func, ast.Attribute) and isinstance(e.func.value, ast.Name) and e.func.value.id == "self" and g.cls is not None):
        return e
    m = ctx.prog.resolve_method(g.cls.name, e.func.attr)
    if m is None:
        return e
    body = [st for st in m.node.body if not (isinstance(st, ast.Expr) and isinstance(st.value, ast.Constant))]
    if len(body) != 1 or not isinstance(body[0], ast.Return) or body[0].value is None:
        return e
    params = [p for p in m.params if p != "self"]
    if any(isinstance(a, ast.Starred) for a in e.args) or len(e.args) > len(params) or any(k.arg is None for k in e.keywords):
        return e
    bind = dict(zip(params, e.args))
    for k in e.keywords:
        bind[k.arg] = k.value
    for p in params:
        if p not in bind:
            if p in m.defaults:
                bind[p] = m.defaults[p]
            else:
                return e
    bound = _bound_names(body[0].value)

    class _S(ast.NodeTransformer):
        def visit_Name(self, node):
            if isinstance(node.ctx, ast.Load) and node.id in bind and node.id not in bound:
                return copy.deepcopy(bind[node.id])
            return node
    out = _S().visit(copy.deepcopy(body[0].value))
    # getattr(x, "name") with a literal name is x.name
    class _G(ast.NodeTransformer):
        def visit_Call(self, node):
            self.generic_visit(node)
            if isinstance(node.func, ast.Name) and node.func.id == "getattr" and len(node.args) == 2 and isinstance(node.args[1], ast.Constant) and isinstance(node.args[1].value, str):
                return ast.Attribute(value=node.args[0], attr=node.args[1].value, ctx=ast.Load())
            return node
    out = _G().visit(out)
    return _inline_pure_helper(ctx, g, out, depth + 1) if isinstance(out, ast.Call) else out


def _actual(call, callee, p):
    """argument expression for parameter p of callee at `call` (None when not passed)"""
    params = [q for q in callee.params]
    if params and params[0] == "self" and isinstance(call.func, ast.Attribute):
        params = params[1:]
    if p in params:
        i = params.index(p)
        if i < len(call.args) and not any(isinstance(a, ast.Starred) for a in call.args[:i + 1]):
            return call.args[i]
    for k in call.keywords:
        if k.arg == p:
            return k.value
    return None


def specialise(ctx, f, keep=1):
    """View of f with its optional parameters (those after the first `keep` non-self parameters that have a default) bound from
    the call context.  Returns f itself when nothing is bound."""
    cache = ctx.cache.setdefault("ctxbind", {})
    if f.qual in cache:
        return cache[f.qual]
    cache[f.qual] = f
    ps = [p for p in f.params if p != "self"]
    extra = [p for p in ps[keep:] if p in f.defaults]
    if not extra or getattr(f, "inlined_view", False):
        return f
    callers = ctx.cg.callers_of(f)
    bind = {}
    for p in extra:
        exprs = []
        ok = True
        for g, call in callers:
            a = _actual(call, f, p)
            if a is None:
                exprs.append(copy.deepcopy(f.defaults[p]))
                continue
            e = a
            if isinstance(a, ast.Name):
                defs = ctx.cfg(g).defs_reaching(call, a.id)
                defs = [d for d in defs if isinstance(d, ast.Assign)] if all(isinstance(d, ast.Assign) for d in defs) else []
                if len(defs) != 1 or len(defs[0].targets) != 1 or not isinstance(defs[0].targets[0], ast.Name):
                    ok = False
                    break
                e = defs[0].value
            e = _inline_pure_helper(ctx, g, e)
            if not _pure(e):
                ok = False
                break
            # translate into the callee's vocabulary: what the caller passes for q is the callee's q
            table = {}
            for q in ps:
                if q == p:
                    continue
                aq = _actual(call, f, q)
                if aq is not None and not isinstance(aq, ast.Constant):
                    table[ast.dump(aq)] = ast.Name(id=q, ctx=ast.Load())
            e2 = _Replace(table).visit(copy.deepcopy(e))
            free = {x.id for x in ast.walk(e2) if isinstance(x, ast.Name)} - _bound_names(e2)
            allowed = set(ps) | set(g.mod.consts) | _PURE_CALLS | {"True", "False", "None"}
            if not free <= allowed or "self" in free:
                ok = False
                break
            # the attributes it reads are not written below the callee
            read = {x.attr for x in ast.walk(e2) if isinstance(x, ast.Attribute)}
            for h in ctx.cg.reachable([f]):
                for x in walk_no_nested_defs(h.node):
                    if isinstance(x, ast.Attribute) and isinstance(x.ctx, (ast.Store, ast.Del)) and x.attr in read:
                        ok = False
            if not ok:
                break
            exprs.append(e2)
        if not ok or not exprs:
            if not callers and p in f.defaults:
                bind[p] = copy.deepcopy(f.defaults[p])
            continue
        distinct = []
        for e in exprs:
            if ast.dump(e) not in [ast.dump(x) for x in distinct]:
                distinct.append(e)
        if len(distinct) == 1:
            bind[p] = exprs[0]
        elif len(distinct) <= 3:
            # several call contexts: one of them holds, which one is an unknown of the analysis (`__ctx_k__`); a rule that
            # reaches the same normal form in every context does not care
            e = distinct[-1]
            for i, d in enumerate(reversed(distinct[:-1])):
                e = ast.IfExp(test=ast.Name(id="__ctx_%s_%d__" % (p, i), ctx=ast.Load()), body=d, orelse=e)
            bind[p] = e
    if not bind:
        return f

    class _Sub(ast.NodeTransformer):
        def visit_Name(self, node):
            if isinstance(node.ctx, ast.Load) and node.id in bind:
                return ast.copy_location(copy.deepcopy(bind[node.id]), node)
            return node
    node = copy.deepcopy(f.node)
    # the parameter starts out as what the callers pass (a prologue assignment: later re-assignments of the name stay visible)
    doc = [st for st in node.body[:1] if isinstance(st, ast.Expr) and isinstance(st.value, ast.Constant)]
    node.body = doc + [ast.Assign(targets=[ast.Name(id=p_, ctx=ast.Store())], value=copy.deepcopy(e_), lineno=f.node.lineno, col_offset=0)
                       for p_, e_ in bind.items()] + node.body[len(doc):]
    ast.fix_missing_locations(node)
    for x in ast.walk(node):
        if not hasattr(x, "lineno") and isinstance(x, (ast.expr, ast.stmt)):
            x.lineno = f.node.lineno
            x.col_offset = 0
    add_parents(node)
    node.parent = getattr(f.node, "parent", None)
    v = Func(f.mod, f.cls, node)
    v.bound_params = {p: ast.unparse(e) for p, e in bind.items()}
    v.specialised_view = True
    cache[f.qual] = v
    return v
