"""Self-validation (thorough tier): seeded-fault catalogue + refactor twins.  See selftest/catalogue.py."""


def run(pid, ctx, chk, strict=False):
    try:
        from selftest import runner
    except Exception as e:  # catalogue not available: record, do not fail
        chk.note("self-validation unavailable: %s" % e)
        return
    runner.run_for_property(pid, ctx, chk, strict=strict)
