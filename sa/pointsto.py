"""E5 - inclusion-based (Andersen-style) points-to and in-place effect analysis.

Field-based, flow-insensitive, with one flow-sensitive refinement: a store `self.f = e` in a
constructor that is overwritten on every path to the constructor's normal exit is *transient*; its
value is visible only to code that runs between the two stores (checked to be effect-free), so that
`self.f = arg; check(); self.f = list(self.f)` gives the field the private copy only.

Abstract objects are tuples:  ('in', name, depth)  input objects of the chosen entry point,
('alloc', func, line, col, kind) allocation sites, ('deep', ...) deep copies, ('inst', Class).
"""
import ast

from .loader import AnalysisError, attr_path, walk_no_nested_defs, src, call_name
from .cfg import CFG, EXIT

MUTATORS = {"append", "extend", "insert", "remove", "pop", "clear", "sort", "reverse",
            "update", "setdefault", "add", "discard", "popitem", "__setitem__", "__delitem__", "__iadd__"}
# library functions that mutate one of their arguments in place: name -> index of that argument
LIBRARY_MUTATORS = {"random.shuffle": 0, "heapq.heappush": 0, "heapq.heappop": 0, "heapq.heapify": 0, "heapq.heapreplace": 0,
                    "bisect.insort": 0, "bisect.insort_left": 0, "bisect.insort_right": 0, "list.sort": 0, "list.append": 0,
                    "list.remove": 0, "list.reverse": 0, "list.extend": 0, "list.insert": 0, "list.pop": 0, "list.clear": 0,
                    "dict.update": 0, "dict.pop": 0, "dict.setdefault": 0, "dict.clear": 0, "set.add": 0, "set.discard": 0, "set.update": 0,
                    "operator.iconcat": 0, "operator.iadd": 0, "operator.imul": 0, "operator.setitem": 0, "operator.delitem": 0,
                    "operator.ior": 0, "operator.iand": 0, "operator.isub": 0, "operator.__iadd__": 0, "operator.__iconcat__": 0,
                    "operator.__setitem__": 0, "operator.__delitem__": 0}
IN_PLACE_FOLDERS = {k for k in LIBRARY_MUTATORS if k.startswith("operator.")} | {"list.extend", "list.append", "set.update", "set.add", "dict.update"}
PURE_BUILTINS = {"len", "abs", "round", "isinstance", "str", "int", "float", "bool", "range", "print",
                 "sum", "repr", "type", "ValueError", "TypeError", "KeyError", "hash", "id", "any", "all",
                 "set" }
COPYING = {"list", "sorted", "tuple", "set", "frozenset", "reversed", "dict"}
MAX_IN_DEPTH = 4


class Effect:
    def __init__(self, func, node, op, recv_expr):
        self.func = func
        self.node = node
        self.op = op
        self.recv_expr = recv_expr
        self.recv = set()

    def __repr__(self):
        return "<Effect %s %s on %s>" % (self.func.short, self.op, src(self.recv_expr))


class FieldStore:
    def __init__(self, func, node, field, recv_expr, value, transient=False):
        self.func, self.node, self.field, self.recv_expr, self.value = func, node, field, recv_expr, value
        self.transient = transient


class PointsTo:
    def __init__(self, ctx, entry_inputs=None, funcs=None):
        """entry_inputs: {Func: {param: (input name, container depth)}} - parameters bound to input
        objects; `container depth` is the number of nested mutable container levels the documented
        input schema gives that parameter (transition_list: 2 = list of lists; rewards: 1)."""
        self.in_depth = {}
        self.ctx = ctx
        self.prog = ctx.prog
        self.cg = ctx.cg
        self.pts = {}
        self.effects = []
        self.field_stores = []
        self.funcs = list(funcs) if funcs is not None else list(self.prog.funcs.values())
        self.unresolved = []          # [(Func, Call)]: calls through unresolved local values that receive (parts of) an input
        self.transient_readers = {}   # field -> set of Func.qual that may observe the transient value
        self.transient_nodes = set()  # ast.Assign nodes that are transient stores
        self._find_transient_stores()
        self._collect_effects()
        if entry_inputs:
            for f, m in entry_inputs.items():
                for p, (name, depth) in m.items():
                    self.in_depth[name] = depth
                    self._add(("local", f.qual, p), {("in", name, 0)})
        self._solve()

    # ---- object helpers --------------------------------------------------------
    def _add(self, var, objs):
        if not objs:
            return False
        s = self.pts.setdefault(var, set())
        n = len(s)
        s.update(objs)
        return len(s) != n

    def get(self, var):
        return self.pts.get(var, set())

    def elems(self, objs):
        out = set()
        for o in objs:
            if o[0] == "in":
                if o[2] + 1 < self.in_depth.get(o[1], 1):
                    out.add(("in", o[1], o[2] + 1))
            elif o[0] == "deep":
                out.add(o)
            out |= self.get(("elem", o))
        return out

    def slot(self, objs, i):
        """Objects in position i of the tuple-like objects `objs` (falls back to all elements)."""
        out = set()
        for o in objs:
            if ("slots", o) in self.pts:
                out |= self.get(("slot", o, i))
            else:
                out |= self.elems({o})
        return out

    def _set_slot(self, o, i, objs):
        self.pts.setdefault(("slots", o), set()).add(i)
        self._add(("slot", o, i), objs)
        self._add(("elem", o), objs)

    def _alloc(self, f, node, kind):
        return ("alloc", f.qual, getattr(node, "lineno", 0), getattr(node, "col_offset", 0), kind)

    # ---- transient constructor stores ----------------------------------------------
    def _find_transient_stores(self):
        for f in self.funcs:
            if f.name != "__init__" or not f.cls:
                continue
            cfg = self.ctx.cfg(f)
            stores = {}
            for st in cfg.statements():
                if isinstance(st, ast.Assign) and len(st.targets) == 1:
                    p = attr_path(st.targets[0])
                    if p and p.startswith("self.") and p.count(".") == 1:
                        stores.setdefault(p[5:], []).append(st)
            for field, sts in stores.items():
                if len(sts) < 2:
                    continue
                for a in sts:
                    killers = [b for b in sts if b is not a and cfg.postdominates(b, a) and not cfg.dominates(b, a)]
                    if not killers:
                        continue
                    # statements that may run between a and its kill
                    between = [s for s in cfg.statements()
                               if s is not a and s not in killers and cfg.path_exists(a, s, avoiding=killers)]
                    readers = {f.qual}
                    okay = True
                    for s in between:
                        for n in ([s] if not isinstance(s, (ast.If, ast.For, ast.While, ast.Try, ast.With)) else
                                  [s.test] if isinstance(s, (ast.If, ast.While)) else [s.iter] if isinstance(s, ast.For) else []):
                            for c in ast.walk(n):
                                if isinstance(c, ast.Call):
                                    for g in self.cg.resolve(c, f):
                                        for h in self.cg.reachable([g]):
                                            readers.add(h.qual)
                                            if not self._effect_free(h):
                                                okay = False
                                    if not self.cg.resolve(c, f) and not self._pure_call(c):
                                        okay = False
                            if isinstance(s, (ast.Assign, ast.AugAssign)):
                                for t in (s.targets if isinstance(s, ast.Assign) else [s.target]):
                                    if isinstance(t, ast.Subscript):
                                        okay = False
                    if okay:
                        self.transient_nodes.add(a)
                        self.transient_readers.setdefault(field, set()).update(readers)

    def _pure_call(self, c):
        n = call_name(c)
        return n in PURE_BUILTINS or n.startswith("logging.") or n == "super"

    def _effect_free(self, h):
        """No heap stores, no mutator calls, only repository calls or pure builtins, returns nothing."""
        for n in walk_no_nested_defs(h.node):
            if isinstance(n, (ast.Assign, ast.AugAssign, ast.AnnAssign)):
                ts = n.targets if isinstance(n, ast.Assign) else [n.target]
                for t in ts:
                    for x in ast.walk(t):
                        if isinstance(x, (ast.Attribute, ast.Subscript)):
                            return False
            if isinstance(n, ast.Delete):
                return False
            if isinstance(n, ast.Return) and n.value is not None and not isinstance(n.value, ast.Constant):
                return False
            if isinstance(n, ast.Call):
                if isinstance(n.func, ast.Attribute) and n.func.attr in MUTATORS and not self.cg.resolve(n, h):
                    return False
                if not self.cg.resolve(n, h) and not self._pure_call(n) and not (
                        isinstance(n.func, ast.Attribute) and n.func.attr in ("format", "join")):
                    return False
        return True

    # ---- effects -----------------------------------------------------------------
    def _collect_effects(self):
        for f in self.funcs:
            for n in walk_no_nested_defs(f.node):
                if isinstance(n, ast.Call) and isinstance(n.func, ast.Attribute) and n.func.attr in MUTATORS:
                    if not self.cg.resolve(n, f):
                        self.effects.append(Effect(f, n, n.func.attr, n.func.value))
                if isinstance(n, ast.Call) and call_name(n) in ("functools.reduce", "reduce") and len(n.args) >= 2 and \
                        self._folder_name(n.args[0], f) in IN_PLACE_FOLDERS:
                    # reduce(operator.iconcat, xs[, start]) grows its accumulator in place: the start value, or - without one - xs[0]
                    acc = n.args[2] if len(n.args) > 2 else ast.copy_location(ast.Subscript(value=n.args[1], slice=ast.Constant(0), ctx=ast.Load()), n.args[1])
                    ast.fix_missing_locations(acc)
                    self.effects.append(Effect(f, n, "reduce(%s)" % self._folder_name(n.args[0], f), acc))
                if isinstance(n, ast.Call) and call_name(n) in LIBRARY_MUTATORS and len(n.args) > LIBRARY_MUTATORS[call_name(n)]:
                    self.effects.append(Effect(f, n, call_name(n), n.args[LIBRARY_MUTATORS[call_name(n)]]))
                elif isinstance(n, ast.Assign):
                    for t in n.targets:
                        self._target_effects(f, n, t)
                elif isinstance(n, ast.AugAssign):
                    if isinstance(n.target, ast.Subscript):
                        self.effects.append(Effect(f, n, "__setitem__", n.target.value))
                    else:
                        self.effects.append(Effect(f, n, "__iadd__", n.target))
                elif isinstance(n, ast.Delete):
                    for t in n.targets:
                        if isinstance(t, ast.Subscript):
                            self.effects.append(Effect(f, n, "__delitem__", t.value))

    def _folder_name(self, e, f):
        """dotted name of a folding function given as an expression (operator.iconcat, or `from operator import iconcat`)"""
        name = attr_path(e)
        if not name:
            return None
        if "." not in name and name in f.mod.imports and f.mod.imports[name][0] in ("operator", "operator.py") and f.mod.imports[name][1]:
            name = "operator." + f.mod.imports[name][1]
        return name

    def _target_effects(self, f, stmt, t):
        if isinstance(t, ast.Subscript):
            self.effects.append(Effect(f, stmt, "__setitem__", t.value))
        elif isinstance(t, (ast.Tuple, ast.List)):
            for e in t.elts:
                self._target_effects(f, stmt, e)
        elif isinstance(t, ast.Attribute):
            self.field_stores.append(FieldStore(f, stmt, t.attr, t.value, stmt.value, stmt in self.transient_nodes))

    # ---- evaluation ------------------------------------------------------------------
    def _field_read(self, f, field):
        out = set(self.get(("field", field)))
        if f.qual in self.transient_readers.get(field, ()):
            out |= self.get(("field", field + "#transient"))
        return out

    def ev(self, e, f, env=None):
        """Objects an expression may evaluate to. env: comprehension-local name -> objs."""
        g = lambda x: self.ev(x, f, env)
        if e is None or isinstance(e, (ast.Constant, ast.JoinedStr, ast.Compare)):
            return set()
        if isinstance(e, ast.Name):
            if env and e.id in env:
                return env[e.id]
            return self.get(("local", f.qual, e.id))
        if isinstance(e, ast.Attribute):
            base = g(e.value)
            return self._field_read(f, e.attr)
        if isinstance(e, ast.Subscript):
            base = g(e.value)
            if isinstance(e.slice, ast.Slice):
                o = self._alloc(f, e, "slice")
                self._add(("elem", o), self.elems(base))
                return {o}
            if isinstance(e.slice, ast.Constant) and isinstance(e.slice.value, int) and e.slice.value >= 0:
                return self.slot(base, e.slice.value)
            return self.elems(base)
        if isinstance(e, (ast.List, ast.Tuple, ast.Set)):
            o = self._alloc(f, e, "display:set" if isinstance(e, ast.Set) else "display")
            if isinstance(e, ast.Tuple) and not any(isinstance(x, ast.Starred) for x in e.elts):
                for i, x in enumerate(e.elts):
                    self._set_slot(o, i, g(x))
                return {o}
            for x in e.elts:
                self._add(("elem", o), g(x.value if isinstance(x, ast.Starred) else x))
            return {o}
        if isinstance(e, ast.Dict):
            o = self._alloc(f, e, "dict")
            for v in e.values:
                self._add(("elem", o), g(v))
            return {o}
        if isinstance(e, (ast.ListComp, ast.SetComp, ast.GeneratorExp, ast.DictComp)):
            env2 = dict(env or {})
            for gen in e.generators:
                it = self.ev(gen.iter, f, env2)
                self._bind_target(gen.target, self.elems(it), f, env2)
                for c in gen.ifs:
                    self.ev(c, f, env2)
            o = self._alloc(f, e, "comp:set" if isinstance(e, ast.SetComp) else "comp")
            if isinstance(e, ast.DictComp):
                self._add(("elem", o), self.ev(e.value, f, env2))
            else:
                self._add(("elem", o), self.ev(e.elt, f, env2))
            return {o}
        if isinstance(e, ast.IfExp):
            return g(e.body) | g(e.orelse)
        if isinstance(e, ast.BoolOp):
            out = set()
            for v in e.values:
                out |= g(v)
            return out
        if isinstance(e, ast.BinOp):
            l, r = g(e.left), g(e.right)
            if l or r:
                o = self._alloc(f, e, "binop")
                self._add(("elem", o), self.elems(l) | self.elems(r))
                return {o}
            return set()
        if isinstance(e, ast.UnaryOp):
            return set()
        if isinstance(e, ast.NamedExpr):
            v = g(e.value)
            self._bind_target(e.target, v, f, env, unpack=False)
            return v
        if isinstance(e, ast.Starred):
            return g(e.value)
        if isinstance(e, ast.Call):
            return self._call(e, f, env)
        if isinstance(e, ast.Lambda):
            return set()
        return set()

    def _bind_target(self, t, objs, f, env=None, unpack=False):
        """Bind target t to the value set objs (objs is the value itself)."""
        if isinstance(t, ast.Name):
            if env is not None and not isinstance(getattr(t, "parent", None), (ast.Assign, ast.For, ast.AugAssign, ast.With, ast.withitem)):
                env[t.id] = env.get(t.id, set()) | objs
            else:
                return self._add(("local", f.qual, t.id), objs)
        elif isinstance(t, (ast.Tuple, ast.List)):
            ch = False
            starred = any(isinstance(x, ast.Starred) for x in t.elts)
            for i, x in enumerate(t.elts):
                vals = self.elems(objs) if starred else self.slot(objs, i)
                ch |= bool(self._bind_target(x.value if isinstance(x, ast.Starred) else x, vals, f, env))
            return ch
        elif isinstance(t, ast.Attribute):
            self.ev(t.value, f, env)
            return None
        elif isinstance(t, ast.Subscript):
            base = self.ev(t.value, f, env)
            ch = False
            for o in base:
                ch |= self._add(("elem", o), objs)
            return ch
        return False

    def _call(self, c, f, env):
        g = lambda x: self.ev(x, f, env)
        name = call_name(c)
        args = [g(a) for a in c.args]
        kwargs = {k.arg: g(k.value) for k in c.keywords}
        callees = self.cg.resolve(c, f)
        if callees:
            out = set()
            for h in callees:
                params = list(h.params)
                is_method_call = h.cls is not None and params and params[0] == "self"
                ctor = isinstance(c.func, ast.Name) and c.func.id in self.prog.classes or \
                    (isinstance(c.func, ast.Name) and c.func.id in f.mod.imports and f.mod.imports[c.func.id][1] in self.prog.classes)
                # a class held in a local (`cls = table[kind]; cls(...)`): the call graph resolved it to the constructors
                var_ctor = (not ctor) and isinstance(c.func, ast.Name) and h.name == "__init__" and h.cls is not None
                if var_ctor and is_method_call:
                    self._add(("local", h.qual, "self"), {("inst", h.cls.name)})
                    out.add(("inst", h.cls.name))
                if is_method_call:
                    if ctor:
                        inst = ("inst", h.cls.name)
                        self._add(("local", h.qual, "self"), {inst})
                    elif isinstance(c.func, ast.Attribute):
                        self._add(("local", h.qual, "self"), g(c.func.value))
                    params = params[1:]
                for p, a in zip(params, args):
                    self._add(("local", h.qual, p), a)
                for k, v in kwargs.items():
                    if k is None:
                        # **splat: every parameter may receive any value of the dict
                        vals = self.elems(v)
                        for p in params + h.kwonly:
                            self._add(("local", h.qual, p), vals)
                    else:
                        self._add(("local", h.qual, k), v)
                if ctor:
                    cls = c.func.id if c.func.id in self.prog.classes else f.mod.imports[c.func.id][1]
                    out.add(("inst", cls))
                else:
                    out |= self.get(("ret", h.qual))
            return out
        # builtins / library
        if name in COPYING or (isinstance(c.func, ast.Attribute) and c.func.attr == "copy" and name != "copy.copy") \
                or name == "copy.copy":
            o = self._alloc(f, c, "copy:" + (name if name in COPYING else "copy"))
            srcs = args[:1] if name in COPYING or name == "copy.copy" else [g(c.func.value)]
            for s in srcs:
                self._add(("elem", o), self.elems(s))
            return {o}
        if name == "copy.deepcopy":
            return {("deep", f.qual, c.lineno, c.col_offset)}
        if name in ("zip", "enumerate"):
            o = self._alloc(f, c, "iter")
            t = self._alloc(f, c, "itertuple")
            self._add(("elem", o), {t})
            if name == "enumerate":
                self._set_slot(t, 0, set())
                self._set_slot(t, 1, self.elems(args[0]) if args else set())
            else:
                for i, a in enumerate(args):
                    self._set_slot(t, i, self.elems(a))
            return {o}
        if name in ("functools.reduce", "reduce") and len(args) >= 2:
            # the result is the start value or something the folding function made of the accumulator and the elements;
            # never the iterated container itself
            out = set(args[2]) if len(args) > 2 else set()
            out |= self.elems(args[1])
            return out
        if isinstance(c.func, ast.Attribute):
            recv = g(c.func.value)
            m = c.func.attr
            if m in ("items", "values"):
                o = self._alloc(f, c, "view")
                if m == "items":
                    t = self._alloc(f, c, "itertuple")
                    self._add(("elem", o), {t})
                    self._set_slot(t, 0, set())
                    self._set_slot(t, 1, self.elems(recv))
                else:
                    self._add(("elem", o), self.elems(recv))
                return {o}
            if m in ("append", "add", "insert", "extend", "update", "setdefault"):
                for o in recv:
                    for a in args[-1:]:
                        self._add(("elem", o), self.elems(a) if m in ("extend", "update") else a)
                return self.elems(recv) if m == "setdefault" else set()
            if m in ("pop", "get"):
                return self.elems(recv)
            if m in ("keys", "index", "count", "split", "replace", "join", "format", "startswith", "write",
                     "read", "close", "sort", "reverse", "remove", "clear", "discard", "lower", "upper", "strip"):
                return set()
            if name.startswith(("logging.", "math.", "random.", "time.", "os.")):
                return set()
            out = set(recv)
            for a in args:
                out |= a
            return out
        if name in ("min", "max"):
            out = set()
            for a in args:
                out |= a | self.elems(a)
            return out
        if name in PURE_BUILTINS or name in ("open", "eval", "iter", "next"):
            if name in ("iter", "next"):
                return self.elems(args[0]) if name == "next" and args else (args[0] if args else set())
            return set()
        out = set()
        for a in args:
            out |= a
        for v in kwargs.values():
            out |= v
        # a call through a local value (a class or function picked at run time) that the call graph could not resolve: where its
        # arguments end up is unknown - remembered, so that a rule about aliases of the inputs can say so instead of passing
        if isinstance(c.func, ast.Name) and c.func.id not in f.mod.funcs and c.func.id not in self.prog.classes and c.func.id not in f.mod.imports \
                and any(isinstance(x, ast.Name) and x.id == c.func.id and isinstance(x.ctx, ast.Store) for x in walk_no_nested_defs(f.node)):
            if any(self.is_input(o) for o in out):
                if (f.qual, c.lineno, c.col_offset) not in {(u[0].qual, u[1].lineno, u[1].col_offset) for u in self.unresolved}:
                    self.unresolved.append((f, c))
        return out

    # ---- solving -----------------------------------------------------------------
    def _solve(self):
        for _ in range(60):
            before = sum(len(v) for v in self.pts.values())
            for f in self.funcs:
                self._func_pass(f)
            after = sum(len(v) for v in self.pts.values())
            if after == before:
                break
        else:
            raise AnalysisError("points-to analysis did not reach a fixpoint")
        for e in self.effects:
            e.recv = self.ev(e.recv_expr, e.func)

    def _func_pass(self, f):
        for n in walk_no_nested_defs(f.node):
            if isinstance(n, ast.Assign):
                v = self.ev(n.value, f)
                for t in n.targets:
                    if isinstance(t, ast.Attribute):
                        self.ev(t.value, f)
                        fld = t.attr + ("#transient" if n in self.transient_nodes else "")
                        self._add(("field", fld), v)
                    else:
                        self._bind_target(t, v, f)
            elif isinstance(n, ast.AnnAssign) and n.value is not None:
                self._bind_target(n.target, self.ev(n.value, f), f)
            elif isinstance(n, ast.AugAssign):
                v = self.ev(n.value, f)
                tgt = self.ev(n.target, f) if not isinstance(n.target, ast.Name) else self.get(("local", f.qual, n.target.id))
                for o in tgt:
                    self._add(("elem", o), self.elems(v))
            elif isinstance(n, ast.For):
                it = self.ev(n.iter, f)
                self._bind_target(n.target, self.elems(it), f)
            elif isinstance(n, ast.Return):
                self._add(("ret", f.qual), self.ev(n.value, f))
            elif isinstance(n, ast.Expr):
                self.ev(n.value, f)
            elif isinstance(n, (ast.If, ast.While)):
                self.ev(n.test, f)
            elif isinstance(n, ast.With):
                for it in n.items:
                    v = self.ev(it.context_expr, f)
                    if it.optional_vars is not None:
                        self._bind_target(it.optional_vars, v, f)
            elif isinstance(n, ast.Raise):
                self.ev(n.exc, f)

    # ---- queries -----------------------------------------------------------------
    @staticmethod
    def is_input(o):
        return o[0] == "in"

    def underlying_iterables(self, it_expr, f):
        """Objects whose structure is traversed when iterating it_expr (through enumerate/zip/reversed/iter)."""
        if isinstance(it_expr, ast.Call) and call_name(it_expr) in ("enumerate", "zip", "reversed", "iter") :
            out = set()
            for a in it_expr.args:
                out |= self.underlying_iterables(a, f)
            return out
        return self.ev(it_expr, f)
