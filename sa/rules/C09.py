"""C09 - malformed games are rejected with ValueError, never solved."""
import ast
import itertools

from ..loader import AnalysisError, attr_path, src, walk_no_nested_defs, norm_stmt, call_name
from ..symx import SymX, classify, show, C, TRUE, FALSE, simp, is_const
from ..guards import Evaluator, EvalUnsupported
from ..pointsto import PointsTo
from . import kernels as K
from . import C02, shared

EXPLANATION = (
    "For each documented well-formedness rule the validation code is summarised symbolically (raise conditions per "
    "function and per loop element) and the summary is evaluated on one representative of every cell of the exact "
    "partition the guards induce (type class of each component x length class x order relative to 0 and n), with "
    "the broken component at every position of 1-3 element lists and for n in {1,2,4}: an ill-formed witness must "
    "end in `raise ValueError`, a well-formed one must be accepted, and evaluating a guard must not itself crash "
    "(TypeError/IndexError order bugs). That decides accepted set = legal set, quantifier coverage and exception "
    "class for all inputs of the fragment. Placement: validation dominates the first value-iteration call; the "
    "node constructors always run check_next_states; the batch runner's solve() sits in a try whose handler catches "
    "ValueError, records the message and does not re-raise, and nothing outside the try dereferences unvalidated "
    "components of the game.")
ASSUMPTIONS = [
    "rules outside the documented list (e.g. non-numeric rewards, players not a list) are not decided",
    "guard conditions stay within the fragment: type / length / membership tests and order comparisons with constants and the number of states",
]
TECHNIQUE = "symbolic guard summaries + exact cell evaluation (ast); CFG dominance for placement"

P1, P2, PR = "Player 1", "Player 2", "Probabilistic"
SELF = ("v", "self")


def A(name):
    return ("attr", SELF, name)


# ---- witnesses ---------------------------------------------------------------------------------------

def legal_elem(e, player, n):
    if not (isinstance(e, tuple) and len(e) == 2):
        return False
    if player in (P1, P2) and not isinstance(e[0], str):
        return False
    if player == PR and not (isinstance(e[0], (int, float))):
        return False
    return isinstance(e[1], int) and 0 <= e[1] < n


def elem_family(player, n, k=2):
    lab_ok = "a" if player != PR else 1.0 / k          # k equal shares: the witness lists of a probabilistic state are distributions
    labels = ["a", "", 0.5, 1, None, ("a",), "0.5", "1", [0.5]]     # numeric-looking strings: a coercing check (float(x)) would accept them
    succs = [-2, -1, 0, n - 1, n, n + 1, 1.5, "0", None]
    fam = []
    for s in succs:
        fam.append((lab_ok, s))
    for l in labels:
        fam.append((l, 0))
    fam += [(), (lab_ok,), (lab_ok, 0, 0), [lab_ok, 0], None, "ab", 5, {"a": 0}]
    if player == PR:
        # a share of probability 0 is still a transition: its successor must be a state
        fam += [(0, s_) for s_ in succs] + [(0.0, n)]
    return fam


def dont_care(ns, player):
    """Witnesses on which the property does not fix the verdict: element-wise legal transitions of a probabilistic state whose
    probabilities are not a distribution (not in (0, 1], or not adding up to 1) - rejecting them or not is the validator's choice."""
    if player != PR or not isinstance(ns, list):
        return False
    ps = [e[0] for e in ns if isinstance(e, tuple) and len(e) == 2 and isinstance(e[0], (int, float)) and not isinstance(e[0], bool)]
    if len(ps) != len(ns):
        return False
    return any(p_ <= 0 or p_ > 1 for p_ in ps) or abs(sum(ps) - 1) > 1e-9


def game_legal(players, tl, rewards, finals):
    n = len(players)
    if len(tl) != n or len(rewards) != n:
        return False
    if any(r < 0 for r in rewards):
        return False
    if not finals or any(not (0 <= f < n) for f in finals):
        return False
    return all(p in (P1, P2, PR) for p in players)


def r123_check_game(ctx, chk, rule="C09.1"):
    f = ctx.func("tad.py::StochasticGame.check_game")
    sx = SymX(ctx, f, "StochasticGame").run()
    # num_states is len(players) by construction
    init = ctx.func("tad.py::StochasticGame.__init__")
    sxi = SymX(ctx, init, "StochasticGame").run()
    ns = [e for e in sxi.final.effects if e[1] == "store" and e[3] == "num_states"]
    if not (len(ns) == 1 and ns[0][4] == ("call", "len", (("v", "players"),), ())):
        chk.undecided(rule, init.where(), "self.num_states is not len(players)")
        return
    n_eval = n_bad = 0
    samples = []

    def judge(desc, players, tl, rewards, finals):
        nonlocal n_eval, n_bad
        # the attributes check_game reads are whatever the constructor made of its arguments
        penv = {("v", "players"): players, ("v", "transition_list"): tl, ("v", "rewards"): rewards, ("v", "final_states"): finals,
                ("v", shared.solver_names(ctx)["flag_param"]): True}
        for p_, d_ in init.defaults.items():            # further settings of the game (a tolerance, ...) take their defaults
            if ("v", p_) not in penv:
                ok_, v_ = ctx.prog.try_const(d_, init.mod)
                if ok_:
                    penv[("v", p_)] = v_
        evi = Evaluator(sxi, penv)
        out = evi.run()
        if out[0] == "accept":
            env = {}
            for e in sxi.final.effects:
                if e[1] == "store" and e[2] == ("v", "self") and evi.truth(e[0], {}):
                    loc = {("attr", ("v", "self"), k[2]): v for k, v in env.items()}
                    env[A(e[3])] = evi.ev(e[4], loc)
            out = Evaluator(sx, env).run()
        n_eval += 1
        legal = game_legal(players, tl, rewards, finals)
        if len(samples) < 4:
            samples.append({"witness": desc, "legal": legal, "outcome": list(out[:2])})
        if legal and out[0] == "accept":
            return
        if not legal and out[0] == "raise" and out[1] == "ValueError":
            return
        n_bad += 1
        if n_bad > 6:
            return
        if out[0] == "crash":
            chk.violation(rule, f.where(), "check_game crashes with %s (at `%s`) instead of raising ValueError on: %s" % (out[1], out[2], desc),
                          expected="ValueError", found=out[1], construct="check_game crash %s" % desc.split(":")[0])
        elif out[0] == "raise" and out[1] != "ValueError":
            chk.violation("C09.3", f.where(), "check_game raises %s instead of ValueError on: %s" % (out[1], desc), expected="ValueError", found=out[1],
                          construct="check_game raises %s" % out[1])
        elif legal:
            chk.violation(rule, f.where(), "check_game rejects a well-formed game: %s" % desc, expected="accepted", found="raise " + str(out[1]),
                          construct="check_game too strict %s" % desc.split(":")[0])
        else:
            chk.violation(rule, f.where(), "check_game ACCEPTS an ill-formed game: %s" % desc, expected="raise ValueError", found="accepted",
                          construct="check_game accepts %s" % desc.split(":")[0])
    try:
        for n in (1, 2, 4):
            players = [P1, P2, PR, P1][:n]
            tl = [[("a", 0)] for _ in range(n)]
            rewards = [0, 1, 2, 0.5][:n]
            for ln in (0, n - 1, n, n + 1, n + 3):
                if ln < 0:
                    continue
                judge("transition list length: %d entries for %d states" % (ln, n), players, [[("a", 0)]] * ln, rewards, [0])
                judge("reward list length: %d entries for %d states" % (ln, n), players, tl, [1] * ln, [0])
            for pos in range(n):
                for v in (-1, -0.5, -1e-9, 0, 0.5, 3):
                    r2 = list(rewards)
                    r2[pos] = v
                    judge("reward: value %r at position %d of %d" % (v, pos, n), players, tl, r2, [0])
                for v in (P1, P2, PR, "player 1", "Player 3", "", "Player", None, 1, [P1], (P1,), {P1: 1}):
                    p2 = list(players)
                    p2[pos] = v
                    judge("player: name %r at position %d of %d" % (v, pos, n), p2, tl, rewards, [0])
            judge("final states: empty list", players, tl, rewards, [])
            for k in (1, 2, 3):
                for pos in range(k):
                    for v in (-2, -1, 0, n - 1, n, n + 1):
                        fs = [0] * k
                        fs[pos] = v
                        judge("final state: index %d at position %d of %d finals, n=%d" % (v, pos, k, n), players, tl, rewards, fs)
    except EvalUnsupported as e:
        chk.undecided(rule, f.where(), "guard summary outside the decidable fragment: %s" % e)
        return
    chk.extra["check_game_witnesses"] = n_eval
    chk.extra.setdefault("witness_samples", []).extend(samples)
    if not n_bad:
        chk.ok(rule, f.where(), "check_game: %d cell representatives (lengths, every reward / player / final position and boundary -1, 0, n-1, n): "
               "ill-formed => ValueError, well-formed => accepted, no guard crashes" % n_eval)


def r4_check_next_states(ctx, chk, rule="C09.1"):
    """Per node class, through its constructor (so that whatever the constructor sets up before validation is seen)."""
    n_eval = n_bad = 0
    pc = ctx.cg.player_class
    where = ctx.func("tad.py::Node.check_next_states").where()
    try:
        for player in (P1, P2, PR):
            cls = pc.get(player)
            if cls is None:
                chk.undecided(rule, where, "no node class for %s" % player)
                continue
            ctor = ctx.prog.resolve_method(cls, "__init__")
            sx = SymX(ctx, ctor, cls, inline_depth=6).run()
            if not any(e[1] == "raise" for e in sx.final.effects) and not any(e[1] == "raise" for L in sx.loops.values() for e in L.effects):
                chk.violation("C09.4", ctor.where(), "constructing a %s node performs no validation of its transitions" % cls, expected="check_next_states() from the constructor",
                              found="no raise reachable", construct="%s constructor does not validate" % cls)
                continue
            for n in (1, 3):
                good = ("a" if player != PR else 1.0, 0)
                cases = [("container type %s" % type(w).__name__, w) for w in ([], (good,), None, "ab", 5, {0: good}, [good])]
                for k in (1, 2, 3):
                    fam = elem_family(player, n, k)
                    good = ("a" if player != PR else 1.0 / k, 0)
                    for pos in range(k):
                        for e in fam:
                            ns = [good] * k
                            ns[pos] = e
                            cases.append(("element kind %s at position %d of %d" % (_kind(e, n), pos, k), ns))
                if player == PR:
                    # distributions written in decimals whose floating-point sum, taken in the written order, is not exactly 1
                    # (a running `+=` and the compensated builtin sum() of this interpreter differ: both kinds of noise are represented)
                    for ps in ((0.2, 0.4, 0.3, 0.1), (0.4, 0.2, 0.3, 0.1), (0.1, 0.2, 0.3, 0.4), (0.7, 0.2, 0.1), (0.1, 0.2, 0.7), (0.1,) * 10,
                               (0.7, 0.29, 0.01), (0.3, 0.69, 0.01), (0.01, 0.41, 0.58)):
                        cases.append(("decimal distribution %s (float sum %r)" % (ps if len(ps) < 6 else "10 x 0.1", sum(ps)), [(p_, 0) for p_ in ps]))
                for desc, ns in cases:
                    env = {("v", "next_states"): ns, ("v", "player"): player, ("v", "num_states"): n, ("v", "idx"): 0, ("v", "reward"): 0,
                           ("v", "is_final_node"): False}
                    out = Evaluator(sx, env).run()
                    n_eval += 1
                    legal = isinstance(ns, list) and all(legal_elem(e, player, n) for e in ns)
                    if (legal and out[0] == "accept") or (not legal and out[0] == "raise" and out[1] == "ValueError"):
                        continue
                    if legal and dont_care(ns, player) and out[0] == "raise" and out[1] == "ValueError":
                        continue            # not a distribution: the validator may refuse it
                    n_bad += 1
                    if n_bad > 6:
                        continue
                    what = "transitions %r of a %s state (%s), n=%d" % (ns, player, cls, n)
                    if out[0] == "crash":
                        chk.violation(rule, where, "validation crashes with %s (at `%s`) instead of raising ValueError on %s (%s)" % (out[1], out[2], what, desc),
                                      expected="ValueError", found=out[1], construct="check_next_states crash %s %s" % (cls, desc))
                    elif out[0] == "raise":
                        if legal:
                            chk.violation(rule, where, "validation rejects well-formed %s" % what, expected="accepted", found="raise " + str(out[1]),
                                          construct="check_next_states too strict %s %s" % (cls, desc))
                        else:
                            chk.violation("C09.3", where, "validation raises %s instead of ValueError on %s" % (out[1], what), expected="ValueError",
                                          found=out[1], construct="check_next_states raises %s" % out[1])
                    else:
                        chk.violation(rule, where, "validation ACCEPTS ill-formed %s (%s)" % (what, desc), expected="raise ValueError", found="accepted",
                                      construct="check_next_states accepts %s %s" % (cls, desc))
    except EvalUnsupported as e:
        chk.undecided(rule, where, "guard summary outside the decidable fragment: %s" % e)
        return
    chk.extra["check_next_states_witnesses"] = n_eval
    if not n_bad:
        chk.ok(rule, where, "transition validation through the three node constructors: %d cell representatives (container type; tuple-ness, length, label type per player kind, "
               "successor type and range incl. -1, 0, n-1, n; at every position of 1-3 element lists): ill-formed => ValueError, well-formed => accepted, no guard crashes" % n_eval)


def _kind(e, n):
    if not isinstance(e, tuple):
        return type(e).__name__
    if len(e) != 2:
        return "tuple/len%d" % len(e)
    s = e[1]
    sk = ("succ=%r" % s) if not isinstance(s, int) else ("succ=n%+d" % (s - n) if s >= n - 1 else "succ=%d" % s)
    return "label:%s,%s" % (type(e[0]).__name__, sk)


def r5_missing_transitions(ctx, chk, rule="C09.1"):
    """init_states: one node per state whose transition list is non-empty; raise if the count differs from n."""
    try:
        T = shared.init_states_table(ctx)
    except AnalysisError as e:
        chk.undecided(rule, "tad.py StochasticGame.init_states", str(e))
        return
    f, sx, L, v = T["f"], T["sx"], T["loop"], T["var"]
    want_src = ("call", "zip", (A("players"), A("transition_list"), A("rewards")), ())
    if L.source != want_src or not L.enumerated or not L.whole or L.has_break or L.has_return:
        chk.violation(rule, f.where(L.node), "init_states does not walk the whole (players, transition_list, rewards) table: `%s`%s" % (
            show(L.source), " with early exit" if (L.has_break or L.has_return) else ""),
            expected="enumerate(zip(self.players, self.transition_list, self.rewards))", found=show(L.source), construct="init_states coverage")
        return
    acc = ("acc", L.id, v)
    tr = simp(("idx", T["elem"], C(1)))
    bad = False
    for (P, nonempty), t in T["rows"].items():
        if not nonempty or P == "<unknown player>":
            def _built(x):
                return x[0] == "cat" and x[1] == acc and x[2][0] == "list" and len(x[2][1]) == 1 and x[2][1][0][0] == "call" and x[2][1][0][1] in ctx.prog.classes
            built = _built(t) or (t[0] == "ite" and ((_built(t[2]) and t[3] == acc) or (_built(t[3]) and t[2] == acc)))
            if t != acc and not built:
                bad = True
                chk.undecided(rule, f.where(L.node), "what is appended for a state %s is not resolved: %s" % (
                    "with an empty transition list" if not nonempty else "of an unknown player kind", show(t)[:140]))
            elif t != acc:
                bad = True
                chk.violation(rule, f.where(L.node), "a node is built for a state %s: `%s`; then the 'Missing transitions' count cannot detect it" % (
                    "with an empty transition list" if not nonempty else "of an unknown player kind", show(t)[:120]), expected="nothing appended", found=show(t)[:140],
                    construct="init_states builds node %s" % ("for empty transitions" if not nonempty else "for unknown player"))
            continue
        okn = t[0] == "cat" and t[1] == acc and t[2][0] == "list" and len(t[2][1]) == 1 and t[2][1][0][0] == "call" and t[2][1][0][1] == ctx.cg.player_class[P]
        if not okn:
            bad = True
            if t == acc:
                chk.violation(rule, f.where(L.node), "no node is built for a %s state with transitions" % P, expected="one %s per such state" % ctx.cg.player_class[P], found="nothing appended",
                              construct="init_states skips %s" % P)
            else:
                chk.undecided(rule, f.where(L.node), "construction for a %s state not recognised: %s" % (P, show(t)[:140]))
            continue
        kws = dict(t[2][1][0][3])
        if kws.get("next_states") != tr:
            bad = True
            chk.violation(rule, f.where(L.node), "the %s node of a state receives `%s` as its transitions, not the state's own list" % (P, show(kws.get("next_states")) if kws.get("next_states") else None),
                          expected="next_states=<this state's transitions>", found=show(kws.get("next_states"))[:80] if kws.get("next_states") else "missing", construct="init_states transitions of %s" % P)
    raises = [e for e in sx.final.effects if e[1] == "raise"]
    if len(raises) != 1:
        chk.undecided(rule, f.where(), "init_states: %d raises" % len(raises))
        return
    cond, _, exc = raises[0]
    want_c = simp(("cmp", "!=", ("call", "len", (("res", L.id, v),), ()), A("num_states")))
    name = exc[1] if exc[0] == "call" else "?"
    from .C10 import _restored_node_cache
    if cond != want_c and cond[0] == "and" and want_c in cond[1] and _restored_node_cache(ctx, ctx.func("tad.py::StochasticGame.init_states")) is True:
        chk.ok(rule, f.where(), "'Missing transitions' is raised iff the number of nodes built != number of states, whenever the nodes are built (nodes kept from an earlier, "
               "successful build of the same description are handed out again after a complete reset)")
    elif cond != want_c:
        chk.violation(rule, f.where(), "'Missing transitions' is raised iff `%s`; specification: number of nodes built != number of states" % show(cond),
                      expected=show(want_c), found=show(cond), construct="init_states count guard")
    elif not ctx.prog.exc_is_a(name, "ValueError"):
        chk.violation("C09.3", f.where(), "'Missing transitions' raises %s" % name, expected="ValueError", found=name, construct="init_states raises %s" % name)
    elif not bad:
        chk.ok(rule, f.where(), "state without transitions: exactly one node per state with a non-empty transition list and a known player kind (whole table), "
               "ValueError iff the count differs from num_states; each node receives its own state's transitions")


def r6_no_final(ctx, chk, rule="C09.1"):
    f = ctx.func("tad.py::Solver.solve_reachability")
    sx = SymX(ctx, f, "Solver", inline_depth=0).run()
    fin = ("v", f.params[2])
    raises = [e for e in sx.final.effects if e[1] == "raise"]
    good = [e for e in raises if e[0] in (simp(("not", ("truthy", fin))), simp(("cmp", "==", C(0), ("call", "len", (fin,), ()))))
            and e[2][0] == "call" and ctx.prog.exc_is_a(e[2][1], "ValueError")]
    cfg = ctx.cfg(f)
    rd = C02.calls_of(f, "reverse_dfs")
    if good:
        rs = [n for n in walk_no_nested_defs(f.node) if isinstance(n, ast.Raise)]
        guard_if = rs[0].parent if rs else None
        if rd and guard_if is not None and cfg.dominates(guard_if, rd[0]):
            chk.ok(rule, f.where(), "no final state: `if not %s: raise ValueError` dominates the backward search" % f.params[2])
        else:
            chk.undecided(rule, f.where(), "empty-final guard does not dominate the backward search")
    else:
        # check_game's max()/min() of an empty list raise ValueError implicitly; r123 covers that witness
        chk.ok(rule, f.where(), "no explicit empty-final guard in solve_reachability; the empty-list witness of check_game decides this rule")


def _validation_body(ctx):
    """When check_next_states only hands over to another method (`self._check_transitions(self.next_states)`), that method's name."""
    f = ctx.prog.resolve_method("Node", "check_next_states")
    if f is None:
        return None
    body = [b for b in f.node.body if not (isinstance(b, ast.Expr) and isinstance(b.value, ast.Constant))]
    if len(body) == 1 and isinstance(body[0], (ast.Expr, ast.Return)) and isinstance(body[0].value, ast.Call) and isinstance(body[0].value.func, ast.Attribute) \
            and isinstance(body[0].value.func.value, ast.Name) and body[0].value.func.value.id == "self":
        return body[0].value.func.attr
    return None


def _always_calls(ctx, f, target, depth):
    """on every normal path f calls `target`, directly or through a function that itself always does"""
    if depth > 3:
        return False
    cfg = ctx.cfg(f)
    for call, callees in ctx.cg.call_sites(f):
        if getattr(call, "synthetic", False) or not callees:
            continue
        try:
            every = cfg.on_every_normal_path(call)
        except Exception:
            continue
        if not every:
            continue
        if all(g.name == target or _always_calls(ctx, g, target, depth + 1) for g in callees):
            return True
    return False


def _with_helpers(ctx, f):
    """f with its private helper methods (`self._x(...)`) written out, when that can be done (loader._inline_helpers)."""
    from ..loader import _inline_helpers, add_parents, Func
    try:
        node = _inline_helpers(ctx.prog, f)
    except Exception:
        node = None
    if node is None:
        return f
    add_parents(node)
    node.parent = getattr(f.node, "parent", None)
    v = Func(f.mod, f.cls, node)
    v.inlined_view = True
    return v


def r4_placement(ctx, chk, rule="C09.4"):
    solve = ctx.func("tad.py::StochasticGame.solve")
    cfg = ctx.cfg(solve)
    sr = C02.calls_of(solve, "solve_reachability")
    if not sr:
        # the solver is driven from helper methods: anything that runs unconditionally in solve() before the first helper counts
        helpers = [c for c in walk_no_nested_defs(solve.node) if isinstance(c, ast.Call) and isinstance(c.func, ast.Attribute)
                   and isinstance(c.func.value, ast.Name) and c.func.value.id == "self" and c.func.attr not in ("check_game", "init_states")
                   and any(g.name == "solve_reachability" for h in ctx.cg.resolve(c, solve) for g in ctx.cg.reachable([h]))]
        if not helpers:
            chk.undecided(rule, solve.where(), "no call of solve_reachability reachable from solve()")
            return
        sr = sorted(helpers, key=lambda c: (c.lineno, c.col_offset))[:1]
        if not all(cfg.dominates(sr[0], h) for h in helpers):
            chk.undecided(rule, solve.where(), "the solver is driven from several helper calls; placement of the validation not decided")
            return
    for m in ("check_game", "init_states"):
        cs = C02.calls_of(solve, m)
        if len(cs) == 1 and sr and cfg.dominates(cs[0], sr[0]) and cfg.on_every_normal_path(cs[0]):
            chk.ok(rule, solve.where(cs[0]), "%s() runs on every path through solve(), before any value iteration" % m)
        else:
            chk.violation(rule, solve.where(), "%s() does not run on every path through solve() before the solver" % m, expected="unconditional, first",
                          found="%d call(s)" % len(cs), construct="solve() placement of %s" % m)
    # check_game before init_states is not required; node constructors always validate
    node_init = ctx.func("tad.py::Node.__init__")
    ncfg = ctx.cfg(node_init)
    cn = C02.calls_of(node_init, "check_next_states")
    if len(cn) == 1 and ncfg.on_every_normal_path(cn[0]):
        chk.ok(rule, node_init.where(cn[0]), "Node.__init__ always runs check_next_states()")
    elif not cn and _always_calls(ctx, node_init, "check_next_states", 0):
        chk.ok(rule, node_init.where(), "Node.__init__ always runs check_next_states() (through a helper that it calls on every path)")
    elif not cn and _validation_body(ctx) is not None and _always_calls(ctx, node_init, _validation_body(ctx), 0):
        chk.ok(rule, node_init.where(), "Node.__init__ always runs %s(), the function check_next_states() itself hands over to (the checks are judged there, C09.1)" % _validation_body(ctx))
    else:
        chk.violation(rule, node_init.where(), "Node.__init__ does not always run check_next_states()", expected="unconditional call",
                      found="%d call(s)" % len(cn), construct="Node.__init__ validation call")
    for cls in sorted(set(ctx.cg.player_class.values())):
        ini = ctx.prog.resolve_method(cls, "__init__")
        if ini is node_init:
            chk.ok(rule, ini.where(), "%s uses Node.__init__ directly" % cls)
            continue
        sup = [c for c in walk_no_nested_defs(ini.node) if isinstance(c, ast.Call) and isinstance(c.func, ast.Attribute) and c.func.attr == "__init__"
               and isinstance(c.func.value, ast.Call) and call_name(c.func.value) == "super"]
        icfg = ctx.cfg(ini)
        if len(sup) == 1 and icfg.on_every_normal_path(sup[0]):
            # arguments forwarded in the base constructor's order
            base_params = [p for p in node_init.params if p != "self"]
            passed = [a.id if isinstance(a, ast.Name) else src(a) for a in sup[0].args]
            kw_ok = all(k.arg in base_params and isinstance(k.value, ast.Name) and k.value.id == k.arg for k in sup[0].keywords if k.arg)
            rest_defaulted = all(p_ in node_init.defaults for p_ in base_params[len(passed):] if p_ not in {k.arg for k in sup[0].keywords})
            if passed == base_params[:len(passed)] and kw_ok and rest_defaulted:
                chk.ok(rule, ini.where(), "%s.__init__ always calls super().__init__ with its arguments in the base order" % cls)
            else:
                chk.violation(rule, ini.where(sup[0]), "%s.__init__ forwards (%s) to Node.__init__(%s): arguments are exchanged, validation sees the wrong values" % (cls, ", ".join(passed), ", ".join(base_params)),
                              expected=", ".join(base_params), found=", ".join(passed), construct="%s.__init__ argument order" % cls)
        else:
            chk.violation(rule, ini.where(), "%s.__init__ does not always call super().__init__: its transitions are never validated" % cls,
                          expected="super().__init__(...) on every path", found="%d call(s)" % len(sup), construct="%s.__init__ super call" % cls)
    # init_states passes keywords that exist
    # node classes do not override check_next_states with something weaker
    for cls in sorted(set(ctx.cg.player_class.values())):
        m = ctx.prog.resolve_method(cls, "check_next_states")
        if m is None or m.cls.name != "Node":
            chk.violation(rule, (m or node_init).where(), "%s overrides check_next_states" % cls, expected="Node.check_next_states", found=str(m),
                          construct="%s overrides check_next_states" % cls)


def r5_batch_runner(ctx, chk, rule="C09.5", holder=None):
    run = ctx.func("conditionalrewards.py::run_games")
    f = holder or run
    solve_calls = shared.solve_calls_in(ctx, f)
    if not solve_calls and holder is None:
        # the solve call may live in a helper of the same module
        for g in ctx.cg.reachable([run]):
            if g is not run and g.mod is run.mod and shared.solve_calls_in(ctx, g):
                f = g
                solve_calls = shared.solve_calls_in(ctx, g)
                break
    if len(solve_calls) != 1:
        chk.undecided(rule, f.where(), "%d solve() calls in run_games" % len(solve_calls))
        return
    call = solve_calls[0]
    n = call
    tr = None
    while n is not None and n is not f.node:
        p = n.parent
        if isinstance(p, ast.Try) and any(n is s or _contains(s, n) for s in p.body):
            tr = p
            break
        n = p
    if tr is None:
        chk.violation(rule, f.where(call), "solve() is called outside any try block: a malformed game crashes the whole batch", expected="try: solve() except ValueError",
                      found=norm_stmt(ctx.cfg(f).stmt_of(call)), construct="run_games solve outside try")
        return
    hs = [h for h in tr.handlers if h.type is None or _catches(h.type, ("ValueError", "Exception", "BaseException"))]
    if not hs:
        chk.violation(rule, f.where(tr), "the handler catches %s, not ValueError: a rejected game crashes the whole batch" % [src(h.type) for h in tr.handlers],
                      expected="except ValueError", found=[src(h.type) for h in tr.handlers], construct="run_games handler type")
        return
    h = hs[0]
    if any(isinstance(x, ast.Raise) for s in h.body for x in ast.walk(s)):
        chk.violation(rule, f.where(h), "the handler re-raises: a rejected game still crashes the batch", expected="record the message, continue",
                      found="raise in handler", construct="run_games handler re-raises")
        return
    leaves = [x for s in h.body for x in ast.walk(s) if isinstance(x, ast.Break) or (isinstance(x, ast.Return) and f is run)]
    if leaves:
        chk.violation(rule, f.where(h), "the handler leaves the loop / function: remaining games are not run", expected="continue with the next game",
                      found="break/return in handler", construct="run_games handler exits")
        return
    msg_ok = False
    for s in h.body:
        val = s.value if isinstance(s, (ast.Assign, ast.Return)) else None
        if val is not None and not (isinstance(s, ast.Expr)):
            names = {x.id for x in ast.walk(val) if isinstance(x, ast.Name)}
            if h.name and h.name in names:
                msg_ok = True
    if msg_ok:
        chk.ok(rule, f.where(tr), "solve() inside try; `except %s as %s` records the exception text in msg, does not re-raise or leave the loop" % (
            src(h.type) if h.type is not None else "", h.name))
    else:
        chk.violation(rule, f.where(h), "the handler does not record the exception text in the entry's message", expected="msg = f'...{e}'",
                      found=[norm_stmt(s) for s in h.body], construct="run_games handler message")
    pre_validation_dereference(ctx, chk, rule, run, tr if f is run else None)


def _contains(stmt, node):
    return any(x is node for x in ast.walk(stmt))


def _catches(t, names):
    if isinstance(t, ast.Name):
        return t.id in names
    if isinstance(t, ast.Tuple):
        return any(_catches(e, names) for e in t.elts)
    return False


def pre_validation_dereference(ctx, chk, rule, f, tr):
    """Outside the try, run_games must not apply len()/iteration/subscripts to *elements* of the game's lists
    (they are unvalidated there) unless a type test guards the operation."""
    game_cls = "StochasticGame"
    # repository functions called from the loop body outside the try
    outside = []
    for call, callees in ctx.cg.call_sites(f):
        if tr is not None and (any(_contains(s, call) for s in tr.body) or any(_contains(hh, call) for hh in tr.handlers)):
            continue
        for g in callees:
            if g.cls is not None and g.cls.name == game_cls:
                outside.append((call, g))
    init = ctx.func("tad.py::StochasticGame.__init__")
    binds = {p: shared.GAME_INPUT_SCHEMA[p] for p in init.params if p in shared.GAME_INPUT_SCHEMA}
    pt = PointsTo(ctx, {init: binds}, funcs=[g for g in ctx.prog.funcs.values() if g.mod.name == "tad.py"])
    n = 0
    for call, g in outside:
        for h in ctx.cg.reachable([g]):
            if g.name != "__init__" and h.name not in ("__init__",):
                for node in walk_no_nested_defs(h.node):
                    if isinstance(node, ast.Raise):
                        # a `raise` of its own in something run_games calls outside the try: whatever the exception class, nothing records it
                        n += 1
                        chk.violation(rule, h.where(node), "%s is called by run_games outside the try block and can `%s`: the error of one game leaves run_games instead of being recorded "
                                      "in that game's entry, and the remaining games are not solved" % (h.short, norm_stmt(node)[:60]),
                                      expected="errors of a game are raised where the driver catches them (solve())", found=norm_stmt(node)[:80],
                                      construct="%s raises outside the driver's try" % h.short)
            for node in walk_no_nested_defs(h.node):
                target = None
                op = None
                if isinstance(node, ast.Call) and call_name(node) in ("len", "min", "max", "sum", "sorted") and node.args:
                    target, op = node.args[0], call_name(node)
                elif isinstance(node, ast.For):
                    target, op = node.iter, "iteration"
                elif isinstance(node, ast.Subscript) and isinstance(node.ctx, ast.Load):
                    target, op = node.value, "subscript"
                # an unvalidated element used as a key / index of something else: KeyError / IndexError / TypeError before validation
                if isinstance(node, ast.Subscript) and not isinstance(node.slice, (ast.Constant, ast.Slice)):
                    kobjs = pt.ev(node.slice, h)
                    kdeep = [o for o in kobjs if o[0] == "in" and o[2] >= 1]
                    if not kdeep and isinstance(node.slice, ast.Name):
                        src_field = _element_of_input(h, node.slice.id)      # scalars (player labels, rewards, indices) are not heap objects
                        if src_field:
                            kdeep = [("in", src_field, 1)]
                    base_objs = pt.ev(node.value, h)
                    if kdeep and not any(o[0] == "in" for o in base_objs):
                        n += 1
                        guarded = False
                        q_ = node
                        while q_ is not None:
                            p_ = getattr(q_, "parent", None)
                            if isinstance(p_, ast.If) and any(q_ is s_ or _contains(s_, q_) for s_ in p_.body):
                                for c_ in ast.walk(p_.test):
                                    if isinstance(c_, ast.Compare) and len(c_.ops) == 1 and isinstance(c_.ops[0], ast.In) and src(c_.left) == src(node.slice) \
                                            and src(c_.comparators[0]) == src(node.value):
                                        guarded = True
                            if isinstance(p_, ast.Try) and any(q_ is s_ or _contains(s_, q_) for s_ in p_.body):
                                guarded = True
                            q_ = p_
                        if guarded:
                            chk.ok(rule, h.where(node), "%s: `%s` uses an unvalidated element of %s as a key under a membership test / try" % (h.short, src(node), kdeep[0][1]))
                        else:
                            chk.violation(rule, h.where(node), "%s is called by run_games outside the try block and uses `%s`, an unvalidated element of the game's %s, as a key of `%s`: "
                                          "an unknown value (e.g. a player label that is not one of the three kinds) raises KeyError and crashes the batch instead of being recorded" % (
                                              h.short, src(node.slice), kdeep[0][1], src(node.value)), expected="membership-guarded, or inside the try after validation",
                                          found=norm_stmt(ctx.cfg(h).stmt_of(node)), construct="%s pre-validation key %s" % (h.short, src(node.slice)))
                if target is None:
                    continue
                objs = pt.ev(target, h)
                deep = [o for o in objs if o[0] == "in" and o[2] >= 1]
                if not deep and isinstance(target, ast.Name):
                    # the element variable of a comprehension / generator over one of the game's lists
                    q_ = node
                    while q_ is not None and not deep:
                        q_ = getattr(q_, "parent", None)
                        if isinstance(q_, (ast.ListComp, ast.GeneratorExp, ast.SetComp, ast.DictComp)):
                            for gen in q_.generators:
                                if any(isinstance(x, ast.Name) and x.id == target.id for x in ast.walk(gen.target)):
                                    deep = [("in", o[1], o[2] + 1) for o in pt.ev(gen.iter, h) if o[0] == "in"]
                if not deep:
                    continue
                n += 1
                if _type_guarded(node, target):
                    chk.ok(rule, h.where(node), "%s: `%s` on an unvalidated element of %s is guarded by an isinstance test" % (h.short, op + "(" + src(target) + ")", deep[0][1]))
                else:
                    chk.violation(rule, h.where(node), "%s is called by run_games outside the try block and applies %s to `%s`, an unvalidated element of the game's %s: "
                                  "a malformed entry (e.g. a state whose transitions are an int) raises TypeError and crashes the batch instead of being recorded" % (
                                      h.short, op, src(target), deep[0][1]), expected="type-guarded, or inside the try after validation", found=norm_stmt(ctx.cfg(h).stmt_of(node)),
                                  construct="%s pre-validation %s" % (h.short, op))
    if n == 0:
        chk.ok(rule, f.where(), "functions called on the game outside the try (%s) never dereference elements of the game's lists" % sorted({g.short for _, g in outside}))


def _element_of_input(h, name):
    """Name of the game's input list of which the local `name` is an (unvalidated) element: a loop target over self.<list>,
    also through zip() / enumerate()."""
    fields = ("players", "rewards", "final_states", "transition_list")

    def field_of(e):
        p = attr_path(e)
        if p and p.startswith("self.") and p.split(".", 1)[1] in fields:
            return p.split(".", 1)[1]
        return None
    for n in walk_no_nested_defs(h.node):
        tgt = it = None
        if isinstance(n, ast.For):
            tgt, it = n.target, n.iter
        elif isinstance(n, ast.comprehension):
            tgt, it = n.target, n.iter
        if tgt is None:
            continue
        if isinstance(it, ast.Call) and call_name(it) == "enumerate" and it.args and isinstance(tgt, ast.Tuple) and len(tgt.elts) == 2:
            tgt, it = tgt.elts[1], it.args[0]
        if isinstance(tgt, ast.Name) and tgt.id == name and field_of(it):
            return field_of(it)
        if isinstance(it, ast.Call) and call_name(it) == "zip" and isinstance(tgt, ast.Tuple) and len(tgt.elts) == len(it.args):
            for t_, a_ in zip(tgt.elts, it.args):
                if isinstance(t_, ast.Name) and t_.id == name and field_of(a_):
                    return field_of(a_)
    return None


def _type_guarded(node, target):
    t = src(target)
    n = node
    # a guard clause earlier in the same block: `if not isinstance(x, list): continue / return / raise`
    stmt = node
    while stmt is not None and not isinstance(stmt, ast.stmt):
        stmt = getattr(stmt, "parent", None)
    while stmt is not None:
        par = getattr(stmt, "parent", None)
        for fld in ("body", "orelse"):
            blk = getattr(par, fld, None)
            if isinstance(blk, list) and stmt in blk:
                for prev in blk[:blk.index(stmt)]:
                    if isinstance(prev, ast.If) and not prev.orelse and prev.body and isinstance(prev.body[-1], (ast.Continue, ast.Return, ast.Raise, ast.Break)) \
                            and isinstance(prev.test, ast.UnaryOp) and isinstance(prev.test.op, ast.Not) and isinstance(prev.test.operand, ast.Call) \
                            and call_name(prev.test.operand) == "isinstance" and prev.test.operand.args and src(prev.test.operand.args[0]) == t:
                        return True
        if isinstance(par, (ast.FunctionDef, ast.Lambda)) or par is None:
            break
        stmt = par if isinstance(par, ast.stmt) else None
    while n is not None:
        p = getattr(n, "parent", None)
        if isinstance(p, ast.If) and any(n is s or _contains(s, n) for s in p.body):
            for c in ast.walk(p.test):
                if isinstance(c, ast.Call) and call_name(c) == "isinstance" and c.args and src(c.args[0]) == t:
                    return True
        if isinstance(p, (ast.ListComp, ast.GeneratorExp, ast.SetComp, ast.DictComp)):
            # `f(x) for x in xs if isinstance(x, list)`: the filter of the generator that binds x guards the element expression
            for gen in p.generators:
                for cond in gen.ifs:
                    for c in ast.walk(cond):
                        if isinstance(c, ast.Call) and call_name(c) == "isinstance" and c.args and src(c.args[0]) == t:
                            return True
        n = p
    return False


def run(ctx, chk):
    from . import C06
    C06.r1b_try_census(ctx, chk, "C09.3b")
    r123_check_game(ctx, chk)
    r4_check_next_states(ctx, chk)
    r5_missing_transitions(ctx, chk)
    r6_no_final(ctx, chk)
    r4_placement(ctx, chk)
    r5_batch_runner(ctx, chk)
    # "at any position, in every game": whether a description is rejected must not depend on what was validated before
    from . import C10
    C10.r2_no_carried_state(ctx, chk, "C09.pre:C10.2")
    chk.require_instances("C09.1", 4)
    chk.require_instances("C09.4", 6)
    chk.require_instances("C09.5", 2)
