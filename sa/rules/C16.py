"""C16 - the saved report states exactly what was computed."""
import ast

from ..loader import AnalysisError, attr_path, src, walk_no_nested_defs, norm_stmt, call_name
from ..symx import SymX, classify, show, C, TRUE, FALSE, simp, is_const, mentions
from . import C02, C11, C12, shared

EXPLANATION = (
    "save_results_to_file and main are summarised symbolically. (1) label table: every report line is 'label : "
    "{hole}\\n' with the hole tracing back (through locals) to the paired key of the *current* entry of the result "
    "dict - Message<-msg, number of states<-n_states, number of transitions<-n_transitions, n iterations reach/rew, "
    "both strategy lists, Are equal <- equality of exactly those two lists, Probabilities, Probabilities min rew<-"
    "prob_min_rew, Rewards, Rewards min reach<-rew_min_reach, Running example <- the entry's key; each label once per "
    "block, in a block per entry; (2) lossless holes: no format spec, no conversion, no rounding/slicing between the "
    "record value and the hole (lists of floats print through repr, which round-trips); (3) keys read by the writer "
    "= keys written by run_games; (4) one block per entry in insertion order (iteration over .items() of the result "
    "dict, unconditional writes, no sort/filter), into outputs/<stem>.txt where <stem> is the input file's base name "
    "up to its first dot, derived from the same parsed argument that was read; (5) the reader evaluates the "
    "unmodified file text and rejects non-dicts (C11.4)."
    ' Also: no function of the batch driver changes a mutable default argument (0:defaults).'
    ' No one-shot iterator is consumed twice in the driver (0:iter).')
ASSUMPTIONS = ["values are printed with str()/repr() of Python floats, ints, lists, None, which round-trip"]
TECHNIQUE = "provenance chains over symbolic write effects (ast)"

SAVE = "conditionalrewards.py::save_results_to_file"
LABELS = {
    "Running example": ("name",),
    "Message": ("key", "msg"),
    "number of states": ("key", "n_states"),
    "number of transitions": ("key", "n_transitions"),
    "n iterations reach": ("key", "n_iterations_reach"),
    "n iterations rew": ("key", "n_iterations_rew"),
    "Reachability strategies": ("key", "reachability_strategies"),
    "Final strategies": ("key", "final_strategies"),
    "Are equal": ("equal", "reachability_strategies", "final_strategies"),
    "Probabilities": ("key", "probabilities"),
    "Probabilities min rew": ("key", "prob_min_rew"),
    "Rewards": ("key", "rewards"),
    "Rewards min reach": ("key", "rew_min_reach"),
    "Total time": ("key", "total_time"),
}


def _split_lines(arg):
    """A written string that is several lines glued together -> the lines as ('fstr', parts) terms (a trailing partial line stays
    a line of its own); None when the argument is not a concatenation of literal / formatted pieces."""
    from .C17 import flatten_str, merge_lits
    if arg[0] not in ("strcat", "fstr"):
        return None
    pieces = merge_lits(flatten_str(arg))
    lines, cur = [], []
    for k, v in pieces:
        if k == "hole":
            cur.append(v)
            continue
        rest = v
        while "\n" in rest:
            head, rest = rest.split("\n", 1)
            cur.append(C(head + "\n"))
            lines.append(cur)
            cur = []
        if rest:
            cur.append(C(rest))
    if cur:
        lines.append(cur)
    out = []
    for parts in lines:
        merged = []
        for p_ in parts:
            if is_const(p_) and merged and is_const(merged[-1]):
                merged[-1] = C(merged[-1][1] + p_[1])
            else:
                merged.append(p_)
        out.append(merged[0] if len(merged) == 1 and is_const(merged[0]) else ("fstr", tuple(merged)))
    return out


def _compares_as_sets(sx, val):
    """The equality printed under 'Are equal' is taken between lists whose elements went through set() / frozenset() / sorted():
    the name of that conversion, else None."""
    for t in C02._sub(val):
        if t[0] == "cmp" and t[1] == "==" and t[2][0] == "compr" and t[3][0] == "compr" and t[2][1] in sx.loops and t[3][1] in sx.loops:
            for L in (sx.loops[t[2][1]], sx.loops[t[3][1]]):
                for x in C02._sub(L.elt) if L.elt is not None else []:
                    if x[0] == "call" and x[1] in ("set", "frozenset", "sorted") and len(x[2]) == 1 and mentions(x[2][0], lambda y: y == ("elem", L.id)):
                        return x[1]
    return None


def _lossy(sx, val, depth=0):
    """A conversion inside the written value that drops digits: a format with a precision, round(), int(), %-formatting with a
    precision - also inside the comprehensions the value is joined from.  The offending sub-term, or None."""
    import re as _re
    for x in C02._sub(val):
        if x[0] == "fmt" and len(x) > 3 and x[3] not in (None, "", "''") and _re.search(r"\.\d+[eEfFgG%]?|[eEfFgG%]$", str(x[3]).strip("'")):
            return x
        if x[0] == "call" and x[1] in ("round", "int", "math.floor", "math.ceil", "math.trunc"):
            return x
        if x[0] == "binop" and x[1] == "Mod" and is_const(x[2]) and isinstance(x[2][1], str) and _re.search(r"%[-+0 #]*\d*\.\d+[eEfFgG]", x[2][1]):
            return x
        if x[0] == "mcall" and x[2] == "format" and is_const(x[1]) and isinstance(x[1][1], str) and _re.search(r"\{[^}]*:[^}]*\.\d+[eEfFgG%]?\}", x[1][1]):
            return x
        if x[0] == "compr" and x[1] in sx.loops and depth < 3:
            L_ = sx.loops[x[1]]
            if L_.elt is not None:
                r_ = _lossy(sx, L_.elt, depth + 1)
                if r_ is not None:
                    return r_
    return None


def r1234_writer(ctx, chk):
    f = ctx.func(SAVE)
    # options of the writer (an appendix, an extra line that is off by default) are judged at their defaults - but only when no call
    # in the program sets them: the property describes the report the command line produces
    from ..ctxbind import with_defaults
    set_somewhere = set()
    for g_ in ctx.prog.all_funcs(("conditionalrewards.py",)):
        for call_, cs_ in ctx.cg.call_sites(g_):
            if any(c_.qual == f.qual for c_ in cs_):
                set_somewhere |= {k.arg for k in call_.keywords if k.arg} | set([p_ for p_ in f.params][2:len(call_.args)])
    if not (set_somewhere & set(f.params[2:])):
        f, _bound = with_defaults(ctx, f, keep=2, accept=lambda v: v is None or isinstance(v, (bool, int, float, str)))
    sx = SymX(ctx, f, inline_depth=3, unroll_literals=True).run()      # helpers (also generators / local functions / label tables) are judged by their content
    loops = [l for l in sx.loops.values() if l.kind == "for"]
    res_param, fname_param = ("v", f.params[0]), ("v", f.params[1])
    if len(loops) > 1:
        # further loops that only produce an optional appendix (a summary written when an option of the writer is on, after the
        # blocks): the block loop is the top-level one over the entries
        nested = {i for l in sx.loops.values() for i in l.inner}
        top = [l for l in loops if l.id not in nested]
        has_writes = lambda l: any(e[1] == "call" and e[2][0] == "mcall" and e[2][2] in ("write", "writelines") for e in l.effects)
        main = [l for l in top if l.source == ("mcall", res_param, "items", (), ()) and has_writes(l)]
        if len(main) == 1:
            order = [e[2] for e in sx.final.effects if e[1] == "loop"]
            after = [l for l in top if l is not main[0]]
            optional = all(any(e[1] == "loop" and e[2] == l.id and e[0] != TRUE and any(y[0] == "v" and y[1] in f.params[2:] for y in C02._sub(e[0]))
                               for e in sx.final.effects) for l in after)
            later = all(l.id in order and main[0].id in order and order.index(l.id) > order.index(main[0].id) for l in after)
            if all((not has_writes(l)) or (optional and later) for l in after):
                loops = main
    if len(loops) != 1:
        # the loop that writes the blocks runs over a SELECTION of the entries (`solved = {n: g for n, g in results.items() if ..}`):
        # the entries that fail the test get no block
        nested = {i for l in sx.loops.values() for i in l.inner}
        n_writes = lambda l: sum(1 for e in l.effects if e[1] == "call" and e[2][0] == "mcall" and e[2][2] in ("write", "writelines"))
        cands = sorted([l for l in loops if l.id not in nested and n_writes(l) >= 5], key=n_writes, reverse=True)
        if cands:
            B = cands[0]
            src_ = B.source
            if src_[0] == "mcall" and src_[2] == "items" and not src_[3]:
                src_ = src_[1]
            if src_[0] == "compr" and src_[1] in sx.loops:
                S_ = sx.loops[src_[1]]
                if S_.source == ("mcall", res_param, "items", (), ()) and S_.filters:
                    chk.violation("C16.4", f.where(B.node), "the blocks are written for the entries that pass `%s` only: an entry that fails the test (a game whose solve raised an error has a message of its "
                                  "own) gets no block and its message is lost from the report" % show(S_.filters[0])[:80], expected="one block per entry of %s" % f.params[0],
                                  found=show(S_.filters[0])[:100], construct="save_results iteration filtered")
                    return
        chk.undecided("C16.4", f.where(), "%d loops in save_results_to_file" % len(loops))
        return
    L = loops[0]
    where = f.where(L.node)
    # C16.4: iteration
    keys_loop = L.source == res_param and L.whole and not L.has_break and not L.has_return and L.cont == FALSE
    if L.source == ("mcall", res_param, "items", (), ()) and L.whole and not L.has_break and not L.has_return and L.cont == FALSE:
        chk.ok("C16.4", where, "one block per entry, in insertion order: `for name, game in %s.items()` (no sort, filter or early exit)" % f.params[0])
    elif keys_loop:
        chk.ok("C16.4", where, "one block per entry, in insertion order: `for name in %s` (no sort, filter or early exit)" % f.params[0])
    else:
        chk.violation("C16.4", where, "blocks are produced by iterating `%s`%s; specification: every entry of the result dict in run order" % (
            show(L.source), " with early exit" if (L.has_break or L.has_return or L.cont != FALSE) else ""), expected="%s.items()" % f.params[0], found=show(L.source),
            construct="save_results iteration")
    name_t = simp(("idx", ("elem", L.id), C(0)))
    entry_t = simp(("idx", ("elem", L.id), C(1)))
    if keys_loop:
        name_t, entry_t = ("elem", L.id), simp(("idx", res_param, ("elem", L.id)))
    raw = [e for e in L.effects if e[1] == "call" and e[2][0] == "mcall" and e[2][2] in ("write", "writelines") and e[0] != FALSE]
    # inside the body the iterated collection is not empty: a conjunct that says so (`if not entries: return` in front of the loop)
    # holds for every entry
    def _src_nonempty(c_):
        bases = [L.source] + ([L.source[1]] if L.source[0] == "mcall" and L.source[2] in ("items", "keys", "values") and not L.source[3] else [])
        for b_ in bases:
            ln_ = ("call", "len", (b_,), ())
            if c_ in (("truthy", b_), simp(("cmp", "!=", ln_, C(0))), simp(("cmp", "<", C(0), ln_)), ("truthy", ("call", "bool", (b_,), ())), ("call", "bool", (b_,), ())):
                return True
        return False
    def _strip_nonempty(c_):
        cs_ = c_[1] if c_[0] == "and" else (c_,)
        keep = tuple(x_ for x_ in cs_ if not _src_nonempty(x_))
        return simp(("and", keep)) if keep else TRUE
    raw = [(_strip_nonempty(e[0]),) + tuple(e[1:]) for e in raw]
    writes = []
    for cond, kind, call in raw:
        if call[2] == "write":
            # a whole block written at once ("".join(lines), one string built from the lines): one pseudo write per line
            split = _split_lines(call[3][0]) if call[3] else None
            if split is not None and len(split) > 1:
                for line in split:
                    writes.append((cond, kind, ("mcall", call[1], "write", (line,), ())))
            else:
                writes.append((cond, kind, call))
        elif call[3] and call[3][0][0] == "list":
            # writelines(<list of lines>): one pseudo write per line
            for item in call[3][0][1]:
                writes.append((cond, kind, ("mcall", call[1], "write", (item,), ())))
        else:
            chk.undecided("C16.1", where, "writelines() argument `%s` is not a statically known list of lines" % show(call[3][0] if call[3] else None)[:100])
            return
    n_label_lines = sum(1 for _, _, call in writes if call[3] and call[3][0][0] == "fstr" and is_const(call[3][0][1][0]) and ":" in str(call[3][0][1][0][1]))
    if n_label_lines < 5:
        chk.undecided("C16.1", where, "only %d 'label : value' lines recognised among %d writes: the report writer is not in a recognised form" % (n_label_lines, len(writes)))
        return
    seen = {}
    file_obj = None
    for cond, _, call in writes:
        file_obj = call[1]
        arg = call[3][0]
        if arg[0] != "fstr":
            continue
        parts = arg[1]
        if not (len(parts) >= 2 and is_const(parts[0]) and isinstance(parts[0][1], str) and ":" in parts[0][1]):
            continue
        label = parts[0][1].split(":")[0].strip()
        holes = [p for p in parts[1:] if not is_const(p)]
        tail = parts[-1]
        rule = "C16.1"
        if label in seen:
            chk.violation(rule, where, "the label %r is written twice in a block" % label, expected="once", found="twice", construct="save_results duplicate label %s" % label)
            continue
        seen[label] = True
        if cond != TRUE and label not in LABELS:
            # a further line that only some entries carry: the property lists the lines a block has, it does not forbid more;
            # such a line must still be a line of its own (checked below for every unlisted label)
            hv = [(_unfmt(h) if h[0] == "fmt" else h) for h in holes]
            truth_of_value = [c_ for c_ in (cond[1] if cond[0] == "and" else (cond,)) if c_[0] == "truthy" and any(c_[1] == v_ or (v_[0] == "idx" and c_[1][0] == "mcall" and c_[1][2] == "get"
                              and c_[1][1] == v_[1] and c_[1][3] and c_[1][3][0] == v_[2]) for v_ in hv)]
            if truth_of_value:
                chk.violation(rule, where, "the line %r is written only if the value it states is truthy (`%s`): an entry whose recorded value is False / 0 / [] loses the line although "
                              "the batch produced that value" % (label, show(truth_of_value[0])[:80]), expected="written whenever the entry has the value (`key in entry` / `is not None`)",
                              found=show(cond)[:120], construct="save_results line %s dropped for falsy values" % label)
            elif not (is_const(tail) and isinstance(tail[1], str) and tail[1].endswith("\n")) or parts[0][1].count("\n"):
                chk.violation(rule, where, "the optional line %r does not end its own line: the next line of the block is glued to it" % label,
                              expected="one line per label", found=show(arg)[:120], construct="save_results optional line %s" % label)
            else:
                chk.note("optional report line %r (written when `%s`)" % (label, show(cond)[:80]))
            continue
        if cond != TRUE:
            chk.violation(rule, where, "the line %r is written only if `%s`: some entries lack it" % (label, show(cond)), expected="unconditional", found=show(cond),
                          construct="save_results conditional line %s" % label)
            continue
        if label not in LABELS:
            chk.note("unlisted report label %r" % label)
            continue
        if len(holes) != 1 or not (is_const(tail) and tail[1].endswith("\n")) or parts[0][1].count("\n"):
            chk.violation(rule, where, "the line %r is not 'label : {value}\\n' (%d holes)" % (label, len(holes)), expected="one hole, newline-terminated", found=show(arg)[:120],
                          construct="save_results line shape %s" % label)
            continue
        _, val, conv, spec = holes[0]
        # C16.2 lossless
        if conv != -1 or spec is not None:
            chk.violation("C16.2", where, "the value of %r is written with conversion/format spec (%s%s): the report no longer reads back to the computed value" % (
                label, "!%s" % chr(conv) if conv != -1 else "", ":" + spec if spec else ""), expected="plain {value}", found=show(holes[0])[:100], construct="save_results format %s" % label)
            continue
        spec_row = LABELS[label]
        al = C12.key_aliases(ctx)
        if spec_row[0] == "key" and spec_row[1] in al:
            spec_row = ("key", al[spec_row[1]])
        elif spec_row[0] == "equal":
            spec_row = ("equal", al.get(spec_row[1], spec_row[1]), al.get(spec_row[2], spec_row[2]))
        if spec_row[0] == "name":
            want = name_t
        elif spec_row[0] == "key":
            want = simp(("idx", entry_t, C(spec_row[1])))
        else:
            a = simp(("idx", entry_t, C(spec_row[1])))
            b = simp(("idx", entry_t, C(spec_row[2])))
            want = simp(("cmp", "==", a, b))
        if val == want:
            chk.ok(rule, where, "%-24s <- %s of the current entry" % (label, "its key" if spec_row[0] == "name" else ("['%s']" % spec_row[1] if spec_row[0] == "key" else "equality of the two strategy lists")))
        else:
            keys_in = [t[2][1] for t in C02._sub(val) if t[0] == "idx" and t[1] == entry_t and is_const(t[2])]
            wrapped = [t for t in C02._sub(val) if t[0] in ("call", "mcall", "slice")]
            if spec_row[0] == "key" and keys_in and keys_in[0] != spec_row[1] and val == simp(("idx", entry_t, C(keys_in[0]))):
                chk.violation(rule, where, "under the label %r the report prints the entry's %r, not its %r: two outputs are exchanged" % (label, keys_in[0], spec_row[1]),
                              expected="game[%r]" % spec_row[1], found="game[%r]" % keys_in[0], construct="save_results label %s key" % label)
            elif _lossy(sx, val):
                chk.violation("C16.2", where, "the value under %r passes through `%s` before it is written: it no longer reads back to what was computed" % (label, show(_lossy(sx, val))[:80]),
                              expected=show(want), found=show(val)[:140], construct="save_results transformed %s" % label)
            elif spec_row[0] == "equal" and _compares_as_sets(sx, val):
                chk.violation(rule, where, "under the label %r the two strategy lists are compared after each state's actions were turned into a %s: lists that differ in the number of "
                              "times an action is listed (parallel transitions with one label) or in order are reported as equal although the report prints two different values" % (
                                  label, _compares_as_sets(sx, val)), expected=show(want), found=show(val)[:140], construct="save_results equality on transformed lists")
            elif mentions(val, lambda x: x[0] in ("compr", "res", "apply") or (x[0] == "idx" and x[1][0] in ("compr", "res", "ite"))):
                chk.undecided(rule, where, "under the label %r the report prints `%s`: read through a container built on the way, not resolved to `%s`" % (label, show(val)[:80], show(want)))
            elif wrapped and not [w_ for w_ in wrapped if not ((w_[0] == "call" and w_[1] in ("repr", "str", "type", "isinstance", "all", "any", "list", "tuple", "len", "bool"))
                                                                or (w_[0] == "mcall" and w_[2] in ("join",)))]:
                # only repr / str / type tests / join: a formatter that spells the value out itself; whether it spells it exactly as the
                # default conversion does is not decided here (rounding, %-formats and precision specs are - see below)
                chk.undecided("C16.2", where, "the value under %r is written by a formatter of its own (`%s`): that it reads back to what was computed is not decided" % (label, show(wrapped[0])[:60]))
            elif wrapped:
                chk.violation("C16.2", where, "the value under %r passes through `%s` before it is written: it no longer reads back to what was computed" % (label, show(wrapped[0])[:80]),
                              expected=show(want), found=show(val)[:140], construct="save_results transformed %s" % label)
            else:
                chk.violation(rule, where, "under the label %r the report prints `%s`; specification: `%s`" % (label, show(val)[:100], show(want)), expected=show(want), found=show(val)[:140],
                              construct="save_results label %s value" % label)
    missing = [l for l in LABELS if l not in seen]
    for l in missing:
        chk.violation("C16.1", where, "the report has no line %r" % l, expected=l, found=sorted(seen), construct="save_results missing label %s" % l)
    # C16.3 keys
    read_keys = set()

    def _guarded(cond, key_t):
        # `if "key" in entry: ... entry["key"]`: a read that only happens when the key is there cannot fail
        return any(c == ("cmp", "in", key_t, entry_t) for c in ([cond] + list(cond[1]) if cond[0] == "and" else [cond]))
    for cond, _, call in writes:
        for t in C02._sub(call):
            if t[0] == "idx" and t[1] == entry_t and is_const(t[2]) and not _guarded(cond, t[2]):
                read_keys.add(t[2][1])
    for v in sx.loops[L.id].update.values():
        for t in C02._sub(v):
            if t[0] == "idx" and t[1] == entry_t and is_const(t[2]):
                read_keys.add(t[2][1])
    s = C12.summary(ctx)
    if s.ok and s.res_var:
        u = s.Li.update.get(s.res_var)
        if u is not None and u[0] == "setitem" and u[3][0] == "dict":
            written = {k[1] for k, _ in u[3][1] if is_const(k)}
            splat = any(not is_const(k) for k, _ in u[3][1])
            unresolved_reads = any(mentions(call, lambda x: x[0] == "idx" and is_const(x[2]) and isinstance(x[2][1], str) and x[1] != entry_t and x[1][0] in ("ite", "idx", "compr", "res"))
                                   for _, _, call in writes)
            if splat:
                chk.undecided("C16.3", f.where(), "run_games builds entries with a ** splat: key set not statically known")
            elif unresolved_reads and (written - read_keys):
                chk.undecided("C16.3", f.where(), "the report reads entries through a container that is not resolved: which keys it reads is not known")
            elif read_keys <= written and written <= read_keys:
                chk.ok("C16.3", f.where(), "keys read by the report writer = keys written by run_games (%d keys)" % len(written))
            elif read_keys - written:
                chk.violation("C16.3", f.where(), "the report reads the keys %s which run_games never writes (KeyError while saving)" % sorted(read_keys - written), expected=sorted(written),
                              found=sorted(read_keys), construct="save_results unknown keys")
            elif (written - read_keys) & set(C12.SLOT_OF) or (written - read_keys) & {"msg", "n_states", "n_transitions", "total_time"}:
                chk.violation("C16.3", f.where(), "run_games computes %s but the report never states them" % sorted((written - read_keys)), expected=sorted(written), found=sorted(read_keys),
                              construct="save_results unreported keys")
            else:
                # further entries that the run records and the text report does not show (read by another consumer, or through .get):
                # nothing the property lists is missing
                chk.ok("C16.3", f.where(), "every key the report reads is written by run_games; %d further recorded entries are not part of the text report: %s" % (
                    len(written - read_keys), sorted(written - read_keys)))
    # C16.4 path
    if file_obj is not None and (file_obj[0] == "mcall" and file_obj[2] == "fdopen" or file_obj[0] == "call" and file_obj[1] == "os.fdopen") :
        # os.fdopen(os.open(path, flags, mode), "w"): the flags decide whether an existing report is truncated
        fargs = file_obj[3] if file_obj[0] == "mcall" else file_obj[2]
        inner = fargs[0] if fargs else None
        if inner is not None and (inner[0] == "mcall" and inner[2] == "open" or inner[0] == "call" and inner[1] == "os.open"):
            iargs = inner[3] if inner[0] == "mcall" else inner[2]
            flags = {t[2] for t in C02._sub(iargs[1]) if t[0] == "attr"} if len(iargs) > 1 else set()
            if "O_TRUNC" not in flags or "O_APPEND" in flags:
                chk.violation("C16.4", f.where(), "the report is opened with os.open flags %s: an existing report of the same name is not truncated, so the tail of an older, longer report survives "
                              "after the new blocks" % sorted(flags), expected="open(path, 'w') or flags including O_TRUNC", found=sorted(flags), construct="save_results open without truncation")
                return
            file_obj = ("call", "open", (iargs[0], C("w")), ())
    if file_obj is not None and file_obj[0] == "call" and file_obj[1] == "open":
        path, mode = file_obj[2][0], (file_obj[2][1] if len(file_obj[2]) > 1 else C("r"))
        np = norm_path(path, fname_param)
        want = ("outputs", ("cutdot", ("basename", ("param",))), ".txt")
        strips = [t for t in C02._sub(path) if t[0] == "mcall" and t[2] in ("rstrip", "lstrip", "strip") and t[3] and is_const(t[3][0]) and isinstance(t[3][0][1], str)
                  and len(t[3][0][1]) > 1 and t[3][0][1].startswith(".")]
        if np is None and strips:
            t_ = strips[0]
            chk.violation("C16.4", f.where(), "the report name is computed with `.%s(%r)`, which strips CHARACTERS, not a suffix: a stem that ends in one of %s loses those letters too "
                          "('..._copy.py' -> '..._co'), so the report is not named after the input file" % (t_[2], t_[3][0][1], sorted(set(t_[3][0][1]))),
                          expected="outputs/<input stem>.txt", found=show(t_)[:100], construct="save_results path strips characters")
        elif np is None:
            chk.undecided("C16.4", f.where(), "report path expression `%s` not recognised" % show(path)[:140])
        elif np == want and mode == C("w"):
            chk.ok("C16.4", f.where(), "report path = outputs/<base name of the input file, cut at its first dot>.txt, opened for writing")
        elif mode != C("w"):
            chk.violation("C16.4", f.where(), "the report file is opened with mode %s" % show(mode), expected="'w'", found=show(mode), construct="save_results open mode")
        else:
            chk.violation("C16.4", f.where(), "the report is written to %s; specification: %s - e.g. cutting at the first dot BEFORE taking the base name loses the file name when a directory contains a dot" % (
                path_text(np), path_text(want)), expected=path_text(want), found=path_text(np), construct="save_results path")
    else:
        chk.undecided("C16.4", f.where(), "report file object not recognised")


def norm_stem(t, param):
    """Normalise a stem expression to nested ('basename'|'cutdot'|'cutext', x) over ('param',); None if unknown."""
    if t == param:
        return ("param",)
    # the same cuts written with rsplit / split with a count / partition
    if t[0] == "idx" and t[1][0] == "mcall" and t[1][2] == "rsplit" and t[1][3] == (C("/"), C(1)) and t[2] == C(-1):
        x = norm_stem(t[1][1], param)
        return None if x is None else ("basename", x)
    if t[0] == "idx" and t[1][0] == "mcall" and t[1][2] == "rpartition" and t[1][3] == (C("/"),) and t[2] in (C(2), C(-1)):
        x = norm_stem(t[1][1], param)
        return None if x is None else ("basename", x)
    if t[0] == "idx" and t[1][0] == "mcall" and ((t[1][2] == "split" and t[1][3] == (C("."), C(1))) or (t[1][2] == "partition" and t[1][3] == (C("."),))) and t[2] == C(0):
        x = norm_stem(t[1][1], param)
        return None if x is None else ("cutdot", x)
    if t[0] == "idx" and t[1][0] == "mcall" and ((t[1][2] == "rsplit" and t[1][3] == (C("."), C(1))) or (t[1][2] == "rpartition" and t[1][3] == (C("."),))) and t[2] == C(0):
        x = norm_stem(t[1][1], param)
        return None if x is None else ("cutext", x)
    if t[0] == "idx" and t[1][0] == "mcall" and t[1][2] == "split" and t[1][3] == (C("/"),) and t[2] == C(-1):
        x = norm_stem(t[1][1], param)
        return None if x is None else ("basename", x)
    if t[0] == "idx" and t[1][0] == "mcall" and t[1][2] == "split" and t[1][3] in ((C("/"),), (C("."),)) and is_const(t[2]) and isinstance(t[2][1], int) \
            and not (t[1][3] == (C("."),) and t[2] == C(0)):
        # another component of the path / of the dotted name: a directory, the extension, ...
        x = norm_stem(t[1][1], param)
        return None if x is None else ("component %d of split(%r)" % (t[2][1], t[1][3][0][1]), x)
    if (t[0] == "call" and t[1] == "os.path.basename" and len(t[2]) == 1) or (t[0] == "mcall" and t[2] == "basename" and len(t[3]) == 1):
        x = norm_stem(t[2][0] if t[0] == "call" else t[3][0], param)
        return None if x is None else ("basename", x)
    if t[0] == "idx" and t[1][0] == "mcall" and t[1][2] == "split" and t[1][3] == (C("."),) and t[2] == C(0):
        x = norm_stem(t[1][1], param)
        return None if x is None else ("cutdot", x)
    if t[0] == "idx" and t[2] == C(0) and ((t[1][0] == "call" and t[1][1] == "os.path.splitext") or (t[1][0] == "mcall" and t[1][2] == "splitext")):
        x = norm_stem(t[1][2][0] if t[1][0] == "call" else t[1][3][0], param)
        return None if x is None else ("cutext", x)
    return None


def norm_path(t, param):
    """('outputs', stem, '.txt') for f'outputs/{stem}.txt' | 'outputs/' + stem + '.txt' | os.path.join('outputs', stem + '.txt')."""
    from .C17 import flatten_str, merge_lits
    if t[0] == "mcall" and t[2] == "join" and t[1] == ("attr", ("v", "os"), "path"):
        t = ("call", "os.path.join", t[3], ())
    from .C17 import _is_directory

    def free_of_param(x):
        return not any(y == param for y in C02._sub(x))
    if t[0] == "call" and t[1] == "os.path.join" and len(t[2]) == 2 and (is_const(t[2][0]) or free_of_param(t[2][0])):
        pieces = merge_lits(flatten_str(t[2][1]))
        if len(pieces) == 2 and pieces[0][0] == "hole" and pieces[1][0] == "lit":
            st = norm_stem(_unfmt(pieces[0][1]), param)
            # a directory that is chosen by the caller (an --output_dir option) is still only a directory: the property is about the name
            return None if st is None else (t[2][0][1].rstrip("/") if is_const(t[2][0]) else "outputs", st, pieces[1][1])
        return None
    pieces = merge_lits(flatten_str(t))
    if len(pieces) == 3 and pieces[0][0] == "lit" and pieces[1][0] == "hole" and pieces[2][0] == "lit" and pieces[0][1].endswith("/"):
        st = norm_stem(_unfmt(pieces[1][1]), param)
        return None if st is None else (pieces[0][1].rstrip("/"), st, pieces[2][1])
    if len(pieces) >= 3 and pieces[-1][0] == "lit" and pieces[-2][0] == "hole":
        st = norm_stem(_unfmt(pieces[-2][1]), param)
        before = pieces[:-2]
        last = before[-1]
        if st is not None and all(k == "lit" or free_of_param(v) for k, v in before) and \
                ((last[0] == "lit" and last[1].endswith("/")) or (last[0] == "hole" and _is_directory(last[1]))):
            return ("outputs", st, pieces[-1][1])
    return None


def _unfmt(h):
    if h[0] == "fmt" and h[2] == -1 and h[3] is None:
        return h[1]
    if h[0] == "call" and h[1] == "str" and len(h[2]) == 1:
        return h[2][0]
    return h


def path_text(np):
    def st(x):
        if x == ("param",):
            return "file_name"
        return "%s(%s)" % ({"basename": "base name", "cutdot": "cut at first dot", "cutext": "strip last extension"}.get(x[0], x[0]), st(x[1]))
    return "%s/<%s>%s" % (np[0], st(np[1]), np[2])


def r4_main(ctx, chk, rule="C16.4"):
    from . import C15 as _C15
    _C15.parse_args_source(ctx, chk, rule, "conditionalrewards.py::main")     # the file named on *this* command line is the one read and reported
    f = ctx.func("conditionalrewards.py::main")
    sx = SymX(ctx, f, inline_depth=0).run()
    calls = {}
    for t in [x for e in sx.final.effects for x in C02._sub(e)] + [x for v in sx.final.env.values() for x in C02._sub(v)]:
        if t[0] == "call" and t[1] in ("read_dict_from_file", "run_games", "save_results_to_file"):
            calls[t[1]] = t
    need = {"read_dict_from_file", "run_games", "save_results_to_file"}
    if not need <= set(calls):
        chk.undecided(rule, f.where(), "main() calls %s" % sorted(calls))
        return
    rd, rg, sv = calls["read_dict_from_file"], calls["run_games"], calls["save_results_to_file"]
    file_arg = rd[2][0]
    ok = file_arg[0] == "attr" and file_arg[2] == "file" and rg[2][0] == rd and sv[2][0] == rg and sv[2][1] == file_arg
    if ok:
        chk.ok(rule, f.where(), "main: results = run_games(read_dict_from_file(args.file)); save_results_to_file(results, args.file) - the report is named after the file that was read")
    else:
        chk.violation(rule, f.where(), "main wires read `%s` / run `%s` / save `%s, %s` differently from read(args.file) -> run -> save(results, args.file)" % (
            show(file_arg), show(rg[2][0])[:40], show(sv[2][0])[:40], show(sv[2][1])[:40]), expected="same args.file for reading and for naming the report", found=show(sv)[:160],
            construct="main report wiring")
    # saving is guarded by the save flag only
    eff = [e for e in sx.final.effects if e[1] == "call" and e[2] == sv]
    if eff and eff[0][0] != ("truthy", ("attr", file_arg[1], "save_results")):
        chk.violation(rule, f.where(), "saving happens under `%s`, not under the --save_results flag" % show(eff[0][0]), expected="if args.save_results", found=show(eff[0][0]),
                      construct="main save condition")


def r7_no_glued_chunks(ctx, chk, rule="C16.1"):
    """A value written piece by piece: if a loop writes only `sep.join(<piece>)` per iteration, the last element of one piece
    and the first of the next are written without the separator between them - the line no longer reads back to the value
    (or does not read back at all) as soon as there are two pieces."""
    f = ctx.func(SAVE)
    n = 0
    for g in ctx.cg.reachable([f]):
        if g.mod.name != "conditionalrewards.py":
            continue
        for loop in walk_no_nested_defs(g.node):
            if not isinstance(loop, (ast.For, ast.While)):
                continue
            writes = [c for st in loop.body for c in ast.walk(st) if isinstance(c, ast.Call) and isinstance(c.func, ast.Attribute) and c.func.attr in ("write", "writelines")]
            joins = [w for w in writes if w.args and isinstance(w.args[0], ast.Call) and isinstance(w.args[0].func, ast.Attribute) and w.args[0].func.attr == "join"
                     and isinstance(w.args[0].func.value, ast.Constant) and isinstance(w.args[0].func.value.value, str) and w.args[0].func.value.value != ""]
            if joins and len(writes) == len(joins):
                n += 1
                chk.violation(rule, g.where(loop), "`%s` writes one `%r.join(...)` per piece and nothing between the pieces: the elements on either side of a piece boundary run together, "
                              "so a value that needs more than one piece is not written as itself" % (norm_stmt(loop), joins[0].args[0].func.value.value),
                              expected="the value formatted in one piece (f\"{value}\"), or the separator written between pieces", found=src(joins[0])[:100],
                              construct="%s glued pieces" % g.short)
    return n


def r8_results_untouched(ctx, chk, rule="C16.1"):
    """Between run_games() and save_results_to_file() nothing may modify the results: a function that receives them (a second
    report writer, a post-processing step) and mutates an entry or one of its vectors in place changes what the text report says
    the batch produced."""
    from ..pointsto import PointsTo
    # judged with every command-line option live (a second report behind a new switch counts); the documented-configuration view
    # only when run_games / the save are not visible there (they moved into a helper that view writes back in)
    for f in (ctx.prog.pipeline_view("conditionalrewards.py::main", all_options=True), ctx.func("conditionalrewards.py::main")):
        cfg = ctx.cfg(f)
        res = None
        for st in walk_no_nested_defs(f.node):
            if isinstance(st, ast.Assign) and len(st.targets) == 1 and isinstance(st.targets[0], ast.Name) and isinstance(st.value, ast.Call) and call_name(st.value) == "run_games":
                res = st.targets[0].id
        saves = [c for c in walk_no_nested_defs(f.node) if isinstance(c, ast.Call) and call_name(c) == "save_results_to_file"]
        if res is not None and len(saves) == 1:
            break
    if res is None or len(saves) != 1:
        chk.undecided(rule, f.where(), "main() does not keep the result of run_games in a variable that it then saves")
        return
    n = 0
    for c in walk_no_nested_defs(f.node):
        if not isinstance(c, ast.Call) or c is saves[0] or call_name(c) in ("save_results_to_file", "run_games"):
            continue
        idx = [i for i, a in enumerate(c.args) if isinstance(a, ast.Name) and a.id == res]
        if not idx:
            continue
        # can this call run before the save?
        if not cfg.path_exists(cfg.stmt_of(c), cfg.stmt_of(saves[0])):
            continue
        for g in ctx.cg.resolve(c, f):
            ps = [p for p in g.params if p != "self"]
            if idx[0] >= len(ps):
                continue
            n += 1
            scope = [h for h in ctx.cg.reachable([g])]
            pt = PointsTo(ctx, {g: {ps[idx[0]]: (ps[idx[0]], 3)}}, funcs=scope)
            hits = [e for e in pt.effects if any(pt.is_input(o) for o in e.recv)]
            if hits:
                e = hits[0]
                chk.violation(rule, e.func.where(e.node), "`%s` (reached from `%s` in main(), before the text report is written) modifies the batch results in place: "
                              "the report then states the modified values, not what run_games produced" % (norm_stmt(e.node), src(c)[:60]),
                              expected="the results are only read between run_games() and save_results_to_file()", found=norm_stmt(e.node),
                              construct="%s mutates the results" % e.func.short)
            else:
                chk.ok(rule, f.where(c), "`%s` receives the results before they are saved and only reads them" % src(c)[:60])
    if n == 0:
        chk.ok(rule, f.where(saves[0]), "nothing else receives the results between run_games() and save_results_to_file()")


CWD_CHANGERS = ("os.chdir", "chdir", "os.fchdir", "os.chroot")


def r6_same_file(ctx, chk, rule="C16.5"):
    """The file that is read is the file the command line names: nothing executed before the read may change how a relative
    path is resolved (working directory), and the reader / main do not rewrite the name."""
    f = ctx.func("conditionalrewards.py::main")
    cfg = ctx.cfg(f)
    reads = [c for c in walk_no_nested_defs(f.node) if isinstance(c, ast.Call) and call_name(c) == "read_dict_from_file"]
    if len(reads) != 1:
        chk.undecided(rule, f.where(), "%d calls of read_dict_from_file in main()" % len(reads))
        return
    rd = reads[0]
    bad = 0
    scope = ctx.cg.reachable([f])
    changers = {}          # function -> chdir call nodes
    for g in scope:
        for c in walk_no_nested_defs(g.node):
            if isinstance(c, ast.Call) and call_name(c) in CWD_CHANGERS:
                changers.setdefault(g, []).append(c)
    for g, cs in changers.items():
        if g is f:
            sites = cs
        else:
            sites = [call for call, callees in ctx.cg.call_sites(f) if any(g in ctx.cg.reachable([h]) for h in callees)]
        for site in sites:
            s_stmt, r_stmt = cfg.stmt_of(site), cfg.stmt_of(rd)
            reader_itself = g is not f and any(h.name == "read_dict_from_file" for _, hs in [(None, ctx.cg.resolve(site, f))] for h in hs) if isinstance(site, ast.Call) else False
            if s_stmt is r_stmt and not reader_itself:
                continue
            if reader_itself or cfg.path_exists(s_stmt, r_stmt):
                bad += 1
                chk.violation(rule, f.where(site), "the working directory is changed (`%s` in %s) before the input file is read: a relative --file is resolved somewhere else, "
                              "so another file than the one named may be solved and reported under this name" % (src(cs[0]), g.short),
                              expected="read the file as named, before any chdir", found=src(cs[0]), construct="main chdir before read")
            else:
                chk.undecided(rule, f.where(site), "`%s` after the read: the place of the outputs/ folder depends on it" % src(cs[0]))
    if not bad and not changers:
        chk.ok(rule, f.where(rd), "nothing reachable from main() changes the working directory: the file read is the file named")


def r6b_no_memo(ctx, chk, rule="C16.5"):
    main = ctx.prog.funcs.get("conditionalrewards.py::main")
    if main is None:
        return
    funcs = [g for g in ctx.cg.reachable([main]) if g.mod.name == "conditionalrewards.py"]
    n = shared.rule_no_memoised_io(ctx, chk, rule, funcs, "the report states the games of an earlier read, not of the file as it is when the command runs")
    chk.ok(rule, main.where(), "%d driver functions reachable from main(): none is wrapped in a memoising decorator" % n) if not any(
        o.rule == rule and o.status == "violation" and "memoised" in str(o.detail) for o in chk.obls) else None


def run(ctx, chk):
    shared.rule_single_use_iterators(ctx, chk, "C16.0:iter", ("conditionalrewards.py",))
    shared.rule_mutable_defaults(ctx, chk, "C16.0:defaults", ("conditionalrewards.py",))      # a call must not depend on the calls made before it
    r1234_writer(ctx, chk)
    r4_main(ctx, chk)
    r6_same_file(ctx, chk)
    r6b_no_memo(ctx, chk)
    r7_no_glued_chunks(ctx, chk)
    r8_results_untouched(ctx, chk)
    C11.r4_reader(ctx, chk, "C16.5")
    # "exactly what was computed": the report has a block for both runs of every game only if run_games makes an entry for both
    rec12 = shared.Recorder()
    C12.r1_keys(ctx, rec12, "C16.pre:C12.1")
    rec12.replay(chk, only=("ok", "violation"))       # (a driver in another shape is C12's to decide)
    chk.require_instances("C16.1", 14)
    chk.require_instances("C16.4", 3)
