"""C03 - conditioning removes every dead branch, and only dead branches."""
import ast

from ..loader import AnalysisError, attr_path, src, walk_no_nested_defs, norm_stmt, call_name
from ..symx import SymX, classify, show, C, TRUE, FALSE, simp, is_const, mk_add, negate, mentions, is_term
from ..nf import SELF_NEXT, SF, KFold
from . import kernels as K
from . import shared

EXPLANATION = (
    "Almost wholly structural: (1) no list is structurally changed or rebound while a loop iterates it "
    "(points-to + effect analysis over every for-loop of the solver modules, through calls); (2) the successors "
    "kept by prune_paths are exactly FILTER(S, R[t] != 0) evaluated for every element; (3) survivors of a "
    "probabilistic state are MAP((p / D, t)) in original order with D the surviving probability mass (or 1 - removed "
    "mass); (4) Player 2 has no shrinking capability and the only clearing store is guarded by 'nobody points to "
    "this state', with the pointed-to set = {0} + every target of every state; (5) Solver.prune_paths applies "
    "the node filter to every Player-1 / probabilistic state of the whole list; (6) every write to next_states "
    "after construction shrinks it (filter of itself, [], or a target-preserving map)."
    ' Also: no pruning method funnels its transitions through a dictionary keyed by a part of the transition (0:keyed).')
ASSUMPTIONS = ["probabilities of a state sum to 1 (so 'divide by surviving mass' and 'divide by 1 - removed mass' agree)"]
TECHNIQUE = "points-to/effect analysis for iterator invalidation + symbolic comprehension normal forms (ast)"

REACH = "reach_probability"
ALIVE = simp(("cmp", "!=", SF(REACH), C(0)))
_ABS_REACH = simp(("call", "abs", (SF(REACH),), ()))
ALIVE_ALT = (simp(("cmp", "<", C(0), SF(REACH))),
             # `not abs(p) <= 0` / `abs(p) > 0` / `abs(p) != 0`: an absolute value is 0 exactly when the number is
             simp(("cmp", "<", C(0), _ABS_REACH)), simp(("cmp", "!=", _ABS_REACH, C(0))), simp(("cmp", "!=", C(0), _ABS_REACH)))


def r1(ctx, chk, rule="C03.1"):
    n = shared.rule_iterator_invalidation(ctx, chk, rule)
    chk.extra.setdefault("loops_examined", n)
    shared.rule_single_use_iterators(ctx, chk, rule)
    _stale_positions(ctx, chk, rule)
    _canary_iter(ctx, chk)


def _worklist_initial_state_flaw(f, wnode):
    """A work list of states to clear that is fed at several sites: when one site excludes the initial state (`idx != 0`) and
    another does not, the belief "state 0 is never cleared" is stated and then broken (a state that only the cleared ones point to
    is put on the list by the cascade, the initial state among them)."""
    if not (isinstance(wnode, ast.While) and isinstance(wnode.test, ast.Name)):
        return None
    W = wnode.test.id

    def zero_test(tests, var):
        for t in tests:
            for c in ast.walk(t):
                if isinstance(c, ast.Compare) and len(c.ops) == 1 and isinstance(c.ops[0], (ast.NotEq, ast.Gt, ast.Lt, ast.IsNot)):
                    sides = [c.left, c.comparators[0]]
                    if any(isinstance(x, ast.Constant) and x.value == 0 and not isinstance(x.value, bool) for x in sides) and \
                            any(isinstance(x, ast.Name) and (var is None or x.id == var) for x in sides):
                        return True
        return False
    sites = []
    for n in walk_no_nested_defs(f.node):
        if isinstance(n, ast.Assign) and len(n.targets) == 1 and isinstance(n.targets[0], ast.Name) and n.targets[0].id == W and isinstance(n.value, ast.ListComp) \
                and len(n.value.generators) == 1 and isinstance(n.value.elt, ast.Name):
            sites.append((n, zero_test(n.value.generators[0].ifs, n.value.elt.id)))
        if isinstance(n, ast.Call) and isinstance(n.func, ast.Attribute) and n.func.attr == "append" and isinstance(n.func.value, ast.Name) and n.func.value.id == W \
                and len(n.args) == 1 and isinstance(n.args[0], ast.Name):
            tests = []
            p_ = n
            while p_ is not None and p_ is not f.node:
                par = getattr(p_, "parent", None)
                if isinstance(par, ast.If) and p_ is not par.test and p_ in par.body:
                    tests.append(par.test)
                p_ = par
            sites.append((n, zero_test(tests, n.args[0].id)))
    if len(sites) >= 2 and any(z for _, z in sites) and not all(z for _, z in sites):
        bad = [n for n, z in sites if not z][0]
        good = [n for n, z in sites if z][0]
        return ("the work list `%s` of states to clear is fed at %d sites: `%s` excludes the initial state 0, `%s` (line %d) does not - an initial state that only cleared states "
                "point back to loses all its transitions" % (W, len(sites), src(good)[:50].replace("\n", " "), src(bad)[:50], bad.lineno))
    return None


def _stale_positions(ctx, chk, rule):
    """`dead = [i for i, t in enumerate(xs) if ...]; for i in dead: del xs[i]`: after the first deletion every later position is
    off by one - the wrong transitions are removed (or an IndexError comes out of solve())."""
    def list_expr(e):
        return src(e) if isinstance(e, (ast.Name, ast.Attribute)) else None

    def deleters(f):
        """{param or None: list expression} for functions that delete `<list>[param]`; used for calls through a helper."""
        out = {}
        for n in walk_no_nested_defs(f.node):
            tgt = None
            if isinstance(n, ast.Delete) and len(n.targets) == 1 and isinstance(n.targets[0], ast.Subscript) and isinstance(n.targets[0].slice, ast.Name):
                tgt = (n.targets[0].slice.id, list_expr(n.targets[0].value))
            if isinstance(n, ast.Call) and isinstance(n.func, ast.Attribute) and n.func.attr == "pop" and len(n.args) == 1 and isinstance(n.args[0], ast.Name):
                tgt = (n.args[0].id, list_expr(n.func.value))
            if tgt and tgt[1]:
                out[tgt[0]] = tgt[1]
        return out
    hits = n_loops = 0
    for f in shared.solver_scope(ctx):
        home = ctx.prog.funcs.get(f.qual)
        if home is not None and home.node is not f.node:
            continue
        # position lists: name -> list expression they were collected on
        pos_lists = {}
        for n in walk_no_nested_defs(f.node):
            if isinstance(n, ast.Assign) and len(n.targets) == 1 and isinstance(n.targets[0], ast.Name) and isinstance(n.value, ast.ListComp) and len(n.value.generators) == 1:
                g = n.value.generators[0]
                if isinstance(g.iter, ast.Call) and call_name(g.iter) == "enumerate" and g.iter.args and isinstance(g.target, ast.Tuple) and g.target.elts \
                        and isinstance(g.target.elts[0], ast.Name) and isinstance(n.value.elt, ast.Name) and n.value.elt.id == g.target.elts[0].id and list_expr(g.iter.args[0]):
                    pos_lists[n.targets[0].id] = list_expr(g.iter.args[0])
        if not pos_lists:
            continue
        own = deleters(f)
        for lp in walk_no_nested_defs(f.node):
            if not (isinstance(lp, ast.For) and isinstance(lp.target, ast.Name) and isinstance(lp.iter, ast.Name) and lp.iter.id in pos_lists):
                continue
            n_loops += 1
            xs = pos_lists[lp.iter.id]
            var = lp.target.id
            deleted = None
            for n in ast.walk(lp):
                if isinstance(n, ast.Delete) and len(n.targets) == 1 and isinstance(n.targets[0], ast.Subscript) and isinstance(n.targets[0].slice, ast.Name) \
                        and n.targets[0].slice.id == var and list_expr(n.targets[0].value) == xs:
                    deleted = n
                if isinstance(n, ast.Call) and isinstance(n.func, ast.Attribute) and n.func.attr == "pop" and len(n.args) == 1 and isinstance(n.args[0], ast.Name) \
                        and n.args[0].id == var and list_expr(n.func.value) == xs:
                    deleted = n
                if isinstance(n, ast.Call) and deleted is None:
                    for g_ in ctx.cg.resolve(n, f):
                        dg = deleters(g_)
                        params = [p_ for p_ in g_.params if p_ != "self"]
                        bound = {}
                        for i_, a in enumerate(n.args):
                            if i_ < len(params):
                                bound[params[i_]] = a
                        for k_ in n.keywords:
                            if k_.arg:
                                bound[k_.arg] = k_.value
                        for prm, lst in dg.items():
                            a = bound.get(prm)
                            if isinstance(a, ast.Name) and a.id == var and lst.split(".")[-1] == xs.split(".")[-1]:
                                deleted = n
            if deleted is not None:
                hits += 1
                chk.violation(rule, f.where(lp), "the positions in `%s` were collected on `%s` as it was, and `%s` deletes by position while the list shrinks: from the second deletion on "
                              "every position is off by one (a live transition is removed and a dead one kept, or an IndexError leaves solve())" % (lp.iter.id, xs, src(deleted)[:50]),
                              expected="delete from the highest position down, or rebuild the list", found=norm_stmt(lp)[:100],
                              construct="%s deletes by stale positions" % f.short)
    return hits


def _canary_iter(ctx, chk):
    """Positive example that the iterator-invalidation rule must flag on every run."""
    import os
    import tempfile
    from ..context import Ctx
    from ..report import Check
    here = os.path.join(os.path.dirname(os.path.dirname(os.path.dirname(os.path.abspath(__file__)))), "canaries")
    c2 = Ctx(here, modules=["iter_invalidation.py"])
    tmp = Check("canary", quiet=True)
    from ..pointsto import PointsTo
    c2.cache["solver_pt"] = PointsTo(c2)
    shared.rule_iterator_invalidation(c2, tmp, "canary", modules=("iter_invalidation.py",))
    fired = sum(1 for o in tmp.obls if o.status == "violation")
    chk.canary("iter_invalidation.py (in-place remove + rebinding through a helper)", fired >= 2, "%d construct(s) flagged" % fired)


def _store_of_next_states(sx):
    return [e for e in sx.final.effects if e[1] == "store" and e[3] == "next_states" and e[2] == ("v", "self")]


def _alive_filter_verdict(flt):
    """None if flt is exactly 'reach != 0'; else a text describing the deviation (or 'unknown')."""
    if flt == ALIVE or flt in ALIVE_ALT:
        return None
    subs = [t for t in _sub(flt) if t == SF(REACH)]
    if not subs:
        return "unknown"
    return "looser-or-different"


def _sub(t):
    out = []

    def walk(x):
        if isinstance(x, tuple):
            if is_term(x):
                out.append(x)
            for y in x:
                walk(y)
    walk(t)
    return out


def r23(ctx, chk, rule2="C03.2", rule3="C03.3"):
    roles = K.role_classes(ctx)
    for role in ("max", "avg"):
        cls = roles[role]
        k = K.kernel(ctx, cls, "prune_paths")
        where = k.func.where()
        stores = _store_of_next_states(k.sx)
        if len(stores) == 2 and stores[0][0] == TRUE:
            # filter first (unconditionally), rewrite what is left afterwards: when the second store is skipped the first one
            # stands, and it is judged here - a plain alive-filter of the whole list; the second one is then judged as the store
            k0 = k.kfold(stores[0][4])
            if k0 is not None and k0.kind == "COMPR" and k0.source == SELF_NEXT and k0.whole and k0.term == ("e",) \
                    and _alive_filter_verdict(_dead_set_filter(ctx, k, k0.filter) or k0.filter) is None:
                stores = stores[1:]
        if len(stores) != 1:
            if _sequential_removal(ctx, chk, k, cls, rule3, where):
                continue
            chk.undecided(rule2, where, "%d assignments to self.next_states in %s.prune_paths (expected one; in-place idioms are judged by C03.1)" % (len(stores), cls))
            continue
        cond, _, _, _, val = stores[0]
        kf = k.kfold(val)
        if kf is None or kf.kind != "COMPR":
            chk.undecided(rule2, where, "new next_states `%s` is not a comprehension over the old list" % show(val))
            continue
        src_t, flt = kf.source, kf.filter
        if isinstance(src_t, tuple) and src_t and src_t[0] == "filtered":
            flt = simp(("and", (src_t[2], flt)))
            src_t = src_t[1]
        if src_t != SELF_NEXT and isinstance(src_t, tuple) and src_t[0] == "ite" and any(x[0] == "v" and x[1] != "self" for x in _sub(src_t[1])):
            chk.undecided(rule2, where, "which list the survivors are drawn from depends on `%s`, a parameter that is not resolved in the call context" % show(src_t[1])[:80])
            continue
        if src_t != SELF_NEXT or not kf.whole:
            chk.violation(rule2, where, "survivors are drawn from `%s`%s, not from the whole successor list" % (show(src_t), "" if kf.whole else " (slice)"),
                          expected="FILTER(self.next_states, R[t] != 0)", found=kf.text(), construct="%s.prune_paths source" % cls)
            continue
        flt2 = _dead_set_filter(ctx, k, flt)
        if flt2 is not None:
            flt = flt2
        v = _alive_filter_verdict(flt)
        if v is None:
            chk.ok(rule2, where, "%s keeps exactly the successors with state[t].reach_probability != 0 (every element tested)" % cls)
        elif v == "unknown":
            chk.undecided(rule2, where, "filter `%s` does not test the successor's reach_probability" % show(flt))
            continue
        else:
            chk.violation(rule2, where, "the survivor test is `%s`, not `reach_probability != 0`: live branches are dropped or dead ones kept" % show(flt),
                          expected=show(ALIVE), found=show(flt), construct="%s.prune_paths predicate" % cls)
            continue
        # the store may be skipped only when nothing was dropped
        filtered_len = None
        if cond != TRUE:
            okc = _something_dropped(k, cond)
            if okc is None:
                extra = _extra_guard(k, cond)
                if extra is not None:
                    chk.violation(rule2, where, "the rewrite is also skipped when `%s` fails, even though a dead successor was found "
                                  "(e.g. final states have reach_probability 1 whatever their successors are): the dead successor stays" % show(extra),
                                  expected="skipped only when nothing was dropped", found=show(cond),
                                  construct="%s.prune_paths extra skip condition" % cls)
                    continue
                chk.undecided(rule2, where, "next_states is replaced only under `%s`; not recognised as 'a successor was dropped'" % show(cond))
                continue
            if okc:
                chk.ok(rule2, where, "the assignment is skipped only when no successor was dropped (len(survivors) == len(next_states))")
            else:
                chk.violation(rule2, where, "next_states is replaced only under `%s`: in other cases dead successors stay" % show(cond),
                              expected="unconditional, or skipped only when nothing was dropped", found=show(cond),
                              construct="%s.prune_paths conditional store" % cls)
                continue
        if role == "max":
            if kf.term in (("e",), ("tup", (("p",), ("t",)))):
                chk.ok(rule3, where, "%s survivors are kept unchanged, in order" % cls)
            else:
                chk.violation(rule3, where, "Player 1 survivors are rewritten as `%s`" % show(kf.term), expected="the transition itself",
                              found=show(kf.term), construct="%s.prune_paths map" % cls)
            continue
        # probabilistic: (p / D, t)
        t = kf.term
        if not (t[0] == "tup" and len(t[1]) == 2 and t[1][1] == ("t",)):
            chk.violation(rule3, where, "survivors are rewritten as `%s`: the successor index is not preserved" % show(t),
                          expected="(p / D, t)", found=show(t), construct="%s.prune_paths target" % cls)
            continue
        pr = t[1][0]
        if pr == ("p",):
            chk.violation(rule3, where, "surviving probabilities are not rescaled: they no longer sum to 1",
                          expected="(p / D, t) with D the surviving mass", found=show(t), construct="%s.prune_paths no rescale" % cls)
            continue
        if not (pr[0] == "div" and pr[1] == ("p",)):
            chk.violation(rule3, where, "surviving probability is `%s`, not p / D" % show(pr), expected="p / D", found=show(pr),
                          construct="%s.prune_paths rescale form" % cls)
            continue
        D = pr[2]
        verdict = _denominator(k, D)
        if verdict is True:
            chk.ok(rule3, where, "survivors = MAP((p / D, t)) in original order, D = %s" % _den_text(k, D))
        elif verdict is None:
            chk.undecided(rule3, where, "denominator `%s` not recognised" % show(D))
        else:
            chk.violation(rule3, where, "denominator is %s; the specification divides by the surviving mass" % verdict,
                          expected="SUM(p over survivors)  or  1 - SUM(p over removed)", found=show(D), construct="%s.prune_paths denominator" % cls)


def _deep(sx, t, seen=None):
    """Sub-terms of t, following comprehension / loop-result references into their element and update terms."""
    seen = set() if seen is None else seen
    out = []
    for x in _sub(t):
        out.append(x)
        if x[0] in ("compr", "res") and x[1] in sx.loops and (x[0], x[1], x[2] if x[0] == "res" else None) not in seen:
            seen.add((x[0], x[1], x[2] if x[0] == "res" else None))
            L = sx.loops[x[1]]
            if x[0] == "compr":
                for y in [L.elt] + list(L.filters) + [L.source]:
                    out += _deep(sx, y, seen)
            else:
                u = L.update.get(x[2])
                if u is not None:
                    out += _deep(sx, u, seen)
                out += _deep(sx, L.source, seen)
    return out


def _something_dropped(k, cond):
    """True if cond <=> 'the survivor list is shorter than the successor list' (survivors = alive filter of S);
    False if it recognisably tests something else about the lengths; None if not recognised."""
    def is_len(t):
        return t[0] == "call" and t[1] == "len" and len(t[2]) == 1

    def kind(t):
        if not is_len(t):
            return None
        a = t[2][0]
        if a == SELF_NEXT:
            return "S"
        ko = k.kfold(a)
        if ko is not None and ko.kind == "COMPR" and ko.term in (("e",), ("tup", (("p",), ("t",)))) and ko.source == SELF_NEXT \
                and _alive_filter_verdict(_dead_set_filter(k.ctx, k, ko.filter) or ko.filter) is None:
            return "F"
        if ko is not None and ko.kind == "COMPR" and ko.source == SELF_NEXT and ko.filter == simp(("cmp", "==", SF(REACH), C(0))):
            return "D"
        # the length of a list does not depend on what its elements were mapped to: a column of S is as long as S, an index table
        # of the live positions is as long as the list of live successors
        le = k.listexpr(a)
        if le is not None and le[0] == SELF_NEXT and le[3]:
            if le[1] == TRUE:
                return "S"
            if _alive_filter_verdict(_dead_set_filter(k.ctx, k, le[1]) or le[1]) is None:
                return "F"
            if le[1] == simp(("cmp", "==", SF(REACH), C(0))):
                return "D"
        return None
    # not (True if a else b)  ==  not a and not b;  a conjunction: one conjunct says it, the others follow from it
    if cond[0] == "not" and cond[1][0] == "ite" and cond[1][2] == TRUE:
        cond = simp(("and", (simp(("not", cond[1][1])), simp(("not", cond[1][3])))))
    if cond[0] == "and":
        vs = [(_something_dropped(k, p), p) for p in cond[1]]
        yes = [p for v, p in vs if v is True]
        rest = [p for v, p in vs if v is not True]
        nonempty = (("truthy", SELF_NEXT), simp(("cmp", "!=", ("call", "len", (SELF_NEXT,), ()), C(0))), simp(("cmp", "<", C(0), ("call", "len", (SELF_NEXT,), ()))))
        if yes and all(p in nonempty for p in rest):
            return True               # a dropped successor implies a non-empty successor list
        return None if not any(v is False for v, _ in vs) else False
    # `0 in [reach of every successor]`: some successor is dead, i.e. the survivor list is shorter
    if cond[0] == "cmp" and cond[1] == "in" and is_const(cond[2]) and cond[2][1] == 0 and not isinstance(cond[2][1], bool):
        le = k.listexpr(cond[3])
        if le is not None and le[0] == SELF_NEXT and le[1] == TRUE and le[2] == SF(REACH) and le[3]:
            return True
    # `not all(alive for each successor)` / `any(dead for each successor)`: some successor is filtered out
    def _quant(c):
        neg = False
        while True:
            if c[0] == "not":
                neg, c = not neg, c[1]
            elif c[0] == "truthy" or (c[0] == "call" and c[1] == "bool" and len(c[2]) == 1 and not c[3]):
                c = c[1] if c[0] == "truthy" else c[2][0]
            else:
                break
        if c[0] == "call" and c[1] in ("all", "any") and len(c[2]) == 1 and not c[3]:
            return c[1], neg, c[2][0]
        return None
    q_ = _quant(cond)
    if q_ is not None:
        le = k.listexpr(q_[2])
        if le is not None and le[0] == SELF_NEXT and le[1] == TRUE and le[3]:
            e_ = le[2]
            while e_[0] == "truthy":
                e_ = e_[1]
            alive = _alive_filter_verdict(_dead_set_filter(k.ctx, k, e_) or e_) is None
            dead = e_ == simp(("cmp", "==", SF(REACH), C(0)))
            if (q_[0] == "all" and q_[1] and alive) or (q_[0] == "any" and not q_[1] and dead):
                return True
            if (q_[0] == "all" and not q_[1] and alive) or (q_[0] == "any" and q_[1] and dead):
                return False
        return None
    while cond[0] == "truthy" and (cond[1][0] == "truthy" or (cond[1][0] == "call" and cond[1][1] == "bool" and len(cond[1][2]) == 1)):
        cond = ("truthy", cond[1][1] if cond[1][0] == "truthy" else cond[1][2][0])
    if cond[0] == "truthy" and kind(("call", "len", (cond[1],), ())) == "D":
        return True                   # `if dead:` with dead = the successors that are filtered out (a partition of the list)
    if cond[0] == "truthy":
        cond = simp(("cmp", "!=", cond[1], C(0)))
    if cond[0] != "cmp":
        return None
    op, a, b = cond[1], cond[2], cond[3]
    ka, kb = kind(a), kind(b)
    if {ka, kb} == {"S", "F"}:
        if op == "!=":
            return True
        if op == "<":
            return ka == "F"          # len(F) < len(S)
        return False
    # len(S) - len(F) compared with 0, or number of dead successors compared with 0
    def diff_kind(t):
        if t[0] == "add" and len(t[1]) == 2:
            pos = [x for x in t[1] if x[0] != "neg"]
            neg = [x[1] for x in t[1] if x[0] == "neg"]
            if len(pos) == 1 and len(neg) == 1 and kind(pos[0]) == "S" and kind(neg[0]) == "F":
                return "S-F"
        if kind(t) == "D":
            return "S-F"
        return None
    for x, y, flip in ((a, b, False), (b, a, True)):
        if diff_kind(y) == "S-F" and is_const(x) and x[1] == 0:
            # x op y  with x = 0 (flip False)  /  y op x (flip True)
            if op == "!=":
                return True
            if op == "<" and not flip:
                return True           # 0 < S-F
            if op == "<=":
                return False
            return False
    return None


def _dead_set_filter(ctx, k, flt):
    """`target not in DEAD` with DEAD = {s.idx for s in <all states> if P(s)} (computed in the method, by a helper, or handed in by
    Solver.prune_paths) is the filter `not P(state[target])` - node indices are list positions.  Returns that filter in canonical
    form, a filter that is recognisably something else, or None when the shape is not this one."""
    from ..symx import subst, deep_simp
    if not (flt[0] == "cmp" and flt[1] == "notin" and flt[2] == ("t",)):
        return None

    def set_pred(sx, t, slist_terms, depth=0):
        """canonical P for a set term t of sx, or None"""
        if depth > 4:
            return None
        if t[0] == "ite":
            a, b = set_pred(sx, t[2], slist_terms, depth + 1), set_pred(sx, t[3], slist_terms, depth + 1)
            if a is None or b is None:
                return None
            return a if a == b else simp(("ite", t[1], a, b))
        if t[0] == "call" and t[1] in ("set", "frozenset", "list") and len(t[2]) == 1:
            return set_pred(sx, t[2][0], slist_terms, depth + 1)
        if t[0] == "compr" and t[1] in sx.loops:
            L = sx.loops[t[1]]
            el = ("elem", L.id)
            by_position = L.enumerated and L.elt == ("pos", L.id)        # {i for i, s in enumerate(states) if P(s)}: positions are the indices
            if L.source not in slist_terms or not L.whole or not (L.elt == ("attr", el, "idx") or by_position):
                return None
            P = simp(("and", tuple(L.filters))) if L.filters else TRUE

            def f(x):
                if x[0] == "attr" and x[1] == el:
                    return ("t",) if x[2] == "idx" else ("sf", ("t",), x[2])
                return None
            return subst(P, f)
        return None
    X = flt[3]
    own_slist = (("v", k.slist),)
    params = [p for p in k.func.params if p not in ("self", k.slist)]
    # the value the solver hands in for the extra parameter
    handed = {}
    if params:
        g = ctx.func("tad.py::Solver.prune_paths")
        sx2 = SymX(ctx, g, "Solver", inline_depth=2).run()
        for L in sx2.loops.values():
            for e in L.effects:
                if e[1] == "call" and e[2][0] == "mcall" and e[2][2] == k.func.name:
                    args = e[2][3]
                    names = [p for p in k.func.params if p != "self"]
                    for i, a in enumerate(args):
                        if i < len(names) and names[i] in params:
                            handed[names[i]] = (sx2, a)
                    for kw, a in e[2][4]:
                        if kw in params:
                            handed[kw] = (sx2, a)

    def resolve(t):
        if t[0] == "v" and t[1] in handed:
            sx2, a = handed[t[1]]
            return set_pred(sx2, a, (shared.SLIST(ctx),))
        if t[0] == "ite" and t[1][0] == "cmp" and t[1][1] in ("is", "==") and C(None) in (t[1][2], t[1][3]):
            p_ = t[1][3] if t[1][2] == C(None) else t[1][2]
            if p_[0] == "v" and p_[1] in handed:
                return resolve(t[3])         # the solver always passes a value: the default branch is not taken on that path
            a, b = resolve(t[2]), resolve(t[3])
            return a if a is not None and a == b else None
        return set_pred(k.sx, t, own_slist)
    P = resolve(X)
    if P is None:
        return None
    return deep_simp(simp(("not", P)))


def _conjuncts(t):
    t = simp(t)
    if t[0] == "and":
        return [c for x in t[1] for c in _conjuncts(x)]
    if t[0] == "not" and t[1][0] == "ite":
        _, c, a, b = t[1]
        if a == TRUE:                      # not (True if c else b)  ==  not c and not b
            return _conjuncts(("not", c)) + _conjuncts(("not", b))
        if b == TRUE:
            return _conjuncts(c) + _conjuncts(("not", a))
    if t[0] == "not" and t[1][0] == "or":
        return [c for x in t[1][1] for c in _conjuncts(("not", x))]
    if t[0] == "ite" and t[3] == FALSE:
        return _conjuncts(t[1]) + _conjuncts(t[2])
    if t[0] == "ite" and t[2] == FALSE:
        return _conjuncts(("not", t[1])) + _conjuncts(t[3])
    return [t]


def _extra_guard(k, cond):
    """cond = (a successor was dropped) AND g, with g a test of the state's own scalar fields that is not implied by
    'something was dropped': returns g.  A test of reach_probability against 0 is left undecided (a state whose value
    is 0 has only dead successors and is cleared later anyway)."""
    cs = _conjuncts(cond)
    if len(cs) < 2:
        return None
    dropped = [c for c in cs if _something_dropped(k, c) is True]
    rest = [c for c in cs if _something_dropped(k, c) is not True]
    if not dropped or not rest:
        return None
    out = []
    for g in rest:
        # implied by 'something was dropped': the list is not empty
        if g in (simp(("truthy", SELF_NEXT)), simp(("cmp", "!=", ("call", "len", (SELF_NEXT,), ()), C(0))),
                 simp(("cmp", "<", C(0), ("call", "len", (SELF_NEXT,), ())))):
            continue
        subs = _sub(g)
        fields = [x for x in subs if x[0] == "attr" and x[1] == ("v", "self")]
        others = [x for x in subs if x[0] in ("v", "call", "mcall", "idx", "elem", "res", "acc") and x != ("v", "self")]
        if not fields or others:
            return None
        if g[0] == "cmp" and any(is_const(x) and x[1] == 0 and not isinstance(x[1], bool) for x in (g[2], g[3])) and SF(REACH) in (g[2], g[3]):
            return None
        out.append(g)
    if not out:
        return None
    return out[0] if len(out) == 1 else ("and", tuple(out))


def _sequential_removal(ctx, chk, k, cls, rule3, where):
    """prune_paths that removes the dead successors one at a time: each step's rescaling must use the list as it is at
    that step.  A step that divides by 1 - (probability recorded in a snapshot taken before the loop) is wrong as soon as
    two successors are dead: p/((1-q1)(1-q2)) instead of p/(1-q1-q2)."""
    found = False
    for lid, L in k.sx.loops.items():
        if L.kind != "for":
            continue
        stores = [e for e in L.effects if e[1] == "store" and e[3] == "next_states" and e[2] == ("v", "self")]
        if not stores:
            continue
        # the loop iterates a snapshot of the successor list
        src_t = L.source
        snap = src_t[0] == "compr" and k.sx.loops[src_t[1]].source == SELF_NEXT
        if not snap:
            continue
        found = True
        val = stores[0][4]
        elem = ("elem", lid)
        stale = [t for t in _deep(k.sx, val) if t[0] == "div" and any(x == elem or (x[0] == "idx" and x[1] == elem) for x in _sub(t[2]))]
        if stale:
            chk.violation(rule3, where, "%s.prune_paths removes the dead successors one at a time and each step rescales by `%s`, computed from a snapshot taken BEFORE the earlier steps rescaled the list: "
                          "with two dead successors q1, q2 the survivors get p/((1-q1)(1-q2)) instead of p/(1-q1-q2) and no longer sum to 1" % (cls, show(stale[0][2])),
                          expected="(p / surviving mass, t) - one denominator for the whole list", found=show(stale[0]), construct="%s.prune_paths stale per-step denominator" % cls)
        else:
            chk.undecided(rule3, where, "%s.prune_paths removes dead successors one at a time; per-step renormalisation `%s` not recognised" % (cls, show(val)[:120]))
    return found


def _den_text(k, D):
    kf = k.kfold(D)
    return kf.text() if kf is not None else show(D)


def _denominator(k, D):
    """True if D is the surviving mass; a text if recognisably something else; None if unknown."""
    # a dictionary built from transitions merges those with an equal first component (two dead successors with the same
    # probability): whatever is summed over it afterwards is not a mass of the transition list
    for t in _sub(D):
        if (t[0] == "call" and t[1] == "dict" and len(t[2]) == 1) or (t[0] == "mcall" and t[2] == "update" and len(t[3]) == 1):
            arg = t[2][0] if t[0] == "call" else t[3][0]
            if arg[0] == "call" and arg[1] == "dict" and len(arg[2]) == 1:
                arg = arg[2][0]
            le = k.listexpr(arg)
            if le is not None and le[0] == SELF_NEXT and le[2] in (("e",), ("tup", (("p",), ("t",)))):
                return "computed from `%s`: a dictionary keyed by the probability keeps one of several successors with equal probability" % show(t)[:80]
    kf = k.kfold(D)
    dead = simp(("cmp", "==", SF(REACH), C(0)))
    if kf is not None and kf.kind == "SUM":
        flt, s = kf.filter, kf.source
        if isinstance(s, tuple) and s and s[0] == "filtered":
            flt = simp(("and", (s[2], flt)))
            s = s[1]
        if s != SELF_NEXT or kf.term != ("p",) or not (is_const(kf.init) and kf.init[1] == 0) or not kf.whole:
            return "`%s`" % kf.text()
        flt = _dead_set_filter(k.ctx, k, flt) or flt
        if _alive_filter_verdict(flt) is None:
            return True
        if flt == TRUE:
            return "the total mass of all successors (dead ones included)"
        if flt == dead:
            return "the removed mass"
        return "`%s`" % kf.text()
    # 1 - removed
    if D[0] == "add" and C(1) in D[1] and len(D[1]) == 2:
        other = [x for x in D[1] if x != C(1)][0]
        inner = negate(other)
        ki = k.kfold(inner)
        if ki is not None and ki.kind == "SUM":
            flt, s = ki.filter, ki.source
            if isinstance(s, tuple) and s and s[0] == "filtered":
                flt = simp(("and", (s[2], flt)))
                s = s[1]
            if s == SELF_NEXT and ki.term == ("p",) and flt == dead:
                return True
            return "1 - `%s`" % ki.text()
        if ki is not None and getattr(ki, "source", None) == SELF_NEXT and (ki.kind == "LAST" or (
                ki.kind == "OTHER" and isinstance(ki.term, tuple) and ki.term[0] == "ite" and ki.term[3][0] == "acc" and ki.term[2] == ("p",))):
            # `removed = p` where `removed += p` was meant: the mass of one dead successor only
            return "1 - the probability of the LAST successor with `%s` (assigned, not accumulated): with two dead successors only one of them is taken off" % (
                show(ki.term[1])[:60] if ki.kind == "OTHER" else show(ki.filter)[:60])
        ki2 = k.kfold(other)
        if ki2 is not None and ki2.kind == "SUM":
            return "1 + `%s`" % ki2.text()
    return None


def r4_player_two(ctx, chk, rule="C03.4"):
    from .C04 import next_states_writers
    roles = K.role_classes(ctx)
    minc = roles["min"]
    ws = next_states_writers(ctx)
    # (a) no writer method is dispatched to a Player-2 node
    scope = shared.solver_scope(ctx)
    bad = 0
    for f in scope:
        for call, callees in ctx.cg.call_sites(f):
            if not isinstance(call.func, ast.Attribute):
                continue
            recv = attr_path(call.func.value)
            if recv is None or recv == "self":
                continue
            m = ctx.prog.resolve_method(minc, call.func.attr)
            if m is None or m not in ws:
                continue
            allowed = ctx.cg.guard_classes(call, recv, f)
            if allowed is None or minc in allowed:
                bad += 1
                chk.violation(rule, f.where(call), "`%s` can be dispatched to a %s node and %s rewrites next_states: Player 2 loses transitions" % (
                    src(call), minc, m.short), expected="Player 2 has no shrinking capability", found=m.short,
                    construct="%s dispatches %s to %s" % (f.short, call.func.attr, minc))
    own = [g for g in ws if g.cls is not None and g.cls.name in ctx.prog.mro(minc) and g.name != "__init__"]
    if not bad:
        chk.ok(rule, ctx.prog.cls(minc).methods.get("__init__", next(iter(ctx.prog.cls(minc).methods.values()))).where(),
               "no call site in the solver can apply a next_states writer to a %s node (writers defined on its MRO: %s)" % (minc, [g.short for g in own] or "none"))
    # (b) the clearing store in Solver.prune_states
    f = ctx.func("tad.py::Solver.prune_states")
    sx = SymX(ctx, f, "Solver", inline_depth=2).run()
    slist = shared.SLIST(ctx)
    stores = []
    for l in sx.loops.values():
        for e in l.effects:
            if e[1] == "store" and e[3] == "next_states":
                stores.append((l, e))
    if not stores:
        chk.ok(rule, f.where(), "Solver.prune_states never assigns next_states")
        return
    for l, e in stores:
        cond, _, base, _, val = e
        if val != ("list", ()):
            chk.undecided(rule, f.where(l.node), "prune_states assigns `%s` to next_states" % show(val))
            continue
        conj = cond[1] if cond[0] == "and" else (cond,)
        pointed = [c for c in conj if c[0] == "cmp" and c[1] == "notin"]
        per_state = l.kind == "for" and (l.source == slist or (l.source[0] == "call" and l.source[1] == "enumerate" and l.source[2] and l.source[2][0] == slist))
        if not pointed and not per_state:
            # not the sweep over the state list: a work list of states found to be unreferenced (reference counts, ...) is another design
            flaw = _worklist_initial_state_flaw(f, l.node)
            if flaw:
                chk.violation(rule, f.where(l.node), flaw, expected="the initial state is never cleared, wherever a state is put on the work list", found=norm_stmt(l.node)[:80],
                              construct="prune_states work list admits the initial state")
                continue
            chk.undecided(rule, f.where(l.node), "transitions are cleared inside `%s`, not in a sweep over the state list: why the cleared state is unreferenced is not traced" % norm_stmt(l.node)[:60])
            continue
        if not pointed:
            chk.violation(rule, f.where(l.node), "transitions are cleared under `%s`, without the 'nobody points to this state' test: a Player-2 state in use loses its transitions" % show(cond),
                          expected="guard includes `idx not in pointed-to set`", found=show(cond), construct="prune_states clear unguarded")
            continue
        c = pointed[0]
        subj, coll = c[2], c[3]
        # the cleared state is the tested one
        idx_of_base = base[2] if base[0] == "idx" and base[1] == slist else (("pos", l.id) if base == ("elem", l.id) else None)
        if subj != idx_of_base:
            chk.violation(rule, f.where(l.node), "the state cleared (`%s`) is not the one tested (`%s`)" % (show(base), show(subj)),
                          expected="same index", found=show(cond), construct="prune_states clear index")
            continue
        verdict = _pointed_to_set(sx, coll, slist)
        if verdict is True:
            chk.ok(rule, f.where(l.node), "next_states := [] only if the state's index is not in {0} + {every target of every state} (whole lists, unconditional collect): a Player-2 state that is initial or pointed to keeps all its transitions")
        elif verdict is None:
            chk.undecided(rule, f.where(l.node), "pointed-to set `%s` not recognised" % show(coll))
        else:
            chk.violation(rule, f.where(l.node), "the pointed-to set is incomplete: %s" % verdict,
                          expected="[0] + [t for every state for every (_, t) in state.next_states]", found=show(coll),
                          construct="prune_states pointed-to set")


def _pointed_to_set(sx, coll, slist):
    """True if coll = {0} + every target of every transition of every state (list or set; nested append loops or a per-state
    extend/update with a comprehension); a text if recognisably incomplete; None if not recognised."""
    if coll[0] == "cat" and coll[1] in (("list", (C(0),)), ("set", (C(0),))) and coll[2][0] == "compr":
        # {0} | {t for (_, t) in chain.from_iterable(s.next_states for s in state_list)}
        Lc = sx.loops[coll[2][1]]
        src_t = Lc.source
        flat = None
        if src_t[0] == "call" and src_t[1] in ("itertools.chain.from_iterable", "chain.from_iterable") and len(src_t[2]) == 1:
            flat = src_t[2][0]
        elif src_t[0] == "mcall" and src_t[2] == "from_iterable" and len(src_t[3]) == 1 and src_t[1] in (("attr", ("v", "itertools"), "chain"), ("v", "chain")):
            flat = src_t[3][0]
        if flat is not None and flat[0] == "compr":
            Li = sx.loops[flat[1]]
            if Li.source != slist or not Li.whole or Li.filters or Li.elt != ("attr", ("elem", Li.id), "next_states"):
                return "the flattened transitions do not cover every state's whole list (`%s`)" % show(src_t)
            if Lc.filters:
                return "targets are collected only if `%s`" % show(Lc.filters[0])
            if not Lc.whole:
                return "only a slice of the transitions is collected"
            if Lc.elt != simp(("idx", ("elem", Lc.id), C(1))):
                return "collects `%s`, not the successor index" % show(Lc.elt)
            return True
        return None
    if coll[0] != "res":
        return None
    Lo = sx.loops[coll[1]]
    v = coll[2]
    if Lo.source != slist or not Lo.whole or Lo.has_break or Lo.cont != FALSE:
        return "outer collecting loop does not cover the whole state list"
    up = Lo.update[v]
    acc = ("acc", Lo.id, v)
    init = Lo.init.get(v)
    if init not in (("list", (C(0),)), ("set", (C(0),))):
        return "the set starts as `%s`, not [0]: the initial state is not protected" % show(init)
    own = ("attr", ("elem", Lo.id), "next_states")
    if up[0] == "res":
        Li = sx.loops[up[1]]
        if Li.source != own or not Li.whole or Li.has_break or Li.cont != FALSE:
            return "inner collecting loop does not cover every transition (`%s`)" % show(Li.source)
        fo = classify(Li).get(v)
        if fo is None or fo.kind != "COLLECT":
            return None
        if Li.filter != TRUE:
            return "targets are collected only if `%s`" % show(Li.filter)
        if fo.term != simp(("idx", ("elem", Li.id), C(1))):
            return "collects `%s`, not the successor index" % show(fo.term)
        return True
    if up[0] == "cat" and up[1] == acc and up[2][0] == "compr":
        Lc = sx.loops[up[2][1]]
        if Lc.source != own or not Lc.whole:
            return "per-state update draws from `%s`, not from every transition of the state" % show(Lc.source)
        if Lc.filters:
            return "targets are collected only if `%s`" % show(Lc.filters[0])
        if Lc.elt != simp(("idx", ("elem", Lc.id), C(1))):
            return "collects `%s`, not the successor index" % show(Lc.elt)
        return True
    return None


def r5_dispatch(ctx, chk, rule="C03.5"):
    f = ctx.func("tad.py::Solver.prune_paths")
    sx = SymX(ctx, f, "Solver", inline_depth=0).run()
    slist = shared.SLIST(ctx)
    loops = [l for l in sx.loops.values() if l.kind == "for"]
    nested = {i for l in sx.loops.values() for i in l.inner}
    outer = [l for l in loops if l.id not in nested]
    if len(outer) == 1 and len(loops) > 1:
        # loops inside the dispatch loop (bookkeeping over what a call returned) do not change which states are visited
        loops = outer
    if len(loops) != 1:
        chk.undecided(rule, f.where(), "%d loops in Solver.prune_paths" % len(loops))
        return
    L = loops[0]
    if L.source != slist or not L.whole or L.has_break or L.has_return:
        chk.violation(rule, f.where(L.node), "Solver.prune_paths does not visit the whole state list", expected="for state in self.state_list",
                      found=norm_stmt(L.node), construct="Solver.prune_paths coverage")
        return
    calls = [e for e in L.effects if e[1] == "call" and e[2][0] == "mcall" and e[2][2] == "prune_paths"]
    if len(calls) != 1:
        chk.undecided(rule, f.where(L.node), "%d prune_paths calls in the loop" % len(calls))
        return
    cond, _, call = calls[0]
    st = ("elem", L.id)
    from ..symx import mentions_acc
    moving = [a for a in call[3][1:] if mentions_acc(a, L.id)] + [v_ for _, v_ in call[4] if mentions_acc(v_, L.id)]
    if call[1] == st and moving:
        chk.violation(rule, f.where(L.node), "prune_paths receives `%s`, which this very loop modifies between the calls: what is cut from a state depends on which states "
                      "were visited before it (a final state whose successors were all cut still reaches the goal with probability 1, yet states listed after it lose "
                      "their transition into it)" % show(moving[0])[:80], expected="arguments fixed before the sweep", found=show(call)[:120], construct="Solver.prune_paths moving argument")
        return
    if call[1] != st or not call[3] or call[3][0] != slist:       # further arguments (a tolerance ...) are judged where they are used (C03.2)
        chk.violation(rule, f.where(L.node), "prune_paths is called as `%s`" % show(call), expected="state.prune_paths(self.state_list)",
                      found=show(call), construct="Solver.prune_paths call")
        return
    players = _player_set(cond, st)
    if players is None and cond[0] == "and":
        parts = [(c, _player_set(c, st)) for c in cond[1]]
        ps = [p for _, p in parts if p is not None]
        others = [c for c, p in parts if p is None]
        harmless = (("truthy", ("attr", st, "next_states")),)
        others = [c for c in others if c not in harmless]
        if len(ps) == 1 and others and not any(mentions(c, lambda x: x == st) for c in others):
            chk.violation(rule, f.where(L.node), "the pruning of dead branches is skipped for every state unless `%s`: that condition says nothing about the state's successors, "
                          "so Player-1 / probabilistic states keep transitions into zero-probability states whenever it fails" % show(others[0] if len(others) == 1 else ("and", tuple(others)))[:160],
                          expected="state.prune_paths(...) for every Player-1 / probabilistic state", found=show(cond)[:160], construct="Solver.prune_paths extra condition")
            return
        if len(ps) == 1 and not others:
            players = ps[0]
        # a further test on the state itself (final or not, its reward, its number): the states that fail it keep their dead branches
        own_fields = [c for c in others if mentions(c, lambda x: x[0] == "attr" and x[1] == st and x[2] in ("is_final_node", "reward", "idx", "reach_probability", "expected_rewards"))
                      and not mentions(c, lambda x: x[0] == "attr" and x[1] == st and x[2] == "next_states")]
        if len(ps) == 1 and own_fields and len(own_fields) == len(others):
            chk.violation(rule, f.where(L.node), "the pruning of dead branches is skipped for the Player-1 / probabilistic states with `%s`: such a state keeps its transitions into "
                          "zero-probability states (and, for a probabilistic state, un-renormalised probabilities)" % show(simp(("not", own_fields[0])))[:120],
                          expected="state.prune_paths(...) for every Player-1 / probabilistic state", found=show(cond)[:160], construct="Solver.prune_paths extra condition")
            return
    if players is None:
        chk.undecided(rule, f.where(L.node), "dispatch condition `%s` not recognised" % show(cond))
    elif players != {"Player 1", "Probabilistic"}:
        chk.violation(rule, f.where(L.node), "dead branches are pruned for players %s; specification: Player 1 and probabilistic states" % sorted(players),
                      expected="{Player 1, Probabilistic}", found=sorted(players), construct="Solver.prune_paths player set")
    else:
        chk.ok(rule, f.where(L.node), "every Player-1 / probabilistic state of the whole list gets prune_paths(self.state_list)")
    # prune_stochastich_game runs prune_paths
    g = ctx.func("tad.py::Solver.prune_stochastich_game")
    called = [c.func.attr for c in walk_no_nested_defs(g.node) if isinstance(c, ast.Call) and isinstance(c.func, ast.Attribute)]
    cfg = ctx.cfg(g)
    pp = [c for c in walk_no_nested_defs(g.node) if isinstance(c, ast.Call) and isinstance(c.func, ast.Attribute) and c.func.attr == "prune_paths"]
    if pp and cfg.on_every_normal_path(pp[0]):
        chk.ok(rule, g.where(), "prune_stochastich_game always runs self.prune_paths()")
    else:
        chk.violation(rule, g.where(), "prune_stochastich_game does not always run prune_paths (calls: %s)" % called,
                      expected="self.prune_paths() on every path", found=called, construct="prune_stochastich_game")


def _player_set(cond, st):
    pl = ("attr", st, "player")
    if cond[0] == "cmp" and cond[1] == "in" and cond[2] == pl and cond[3][0] in ("list", "tup", "set"):
        vals = set()
        for x in cond[3][1]:
            if not is_const(x):
                return None
            vals.add(x[1])
        return vals
    if cond[0] == "cmp" and cond[1] == "==" and pl in (cond[2], cond[3]):
        o = cond[3] if cond[2] == pl else cond[2]
        return {o[1]} if is_const(o) else None
    if cond[0] == "cmp" and cond[1] == "!=" and pl in (cond[2], cond[3]):
        o = cond[3] if cond[2] == pl else cond[2]
        return ({"Player 1", "Player 2", "Probabilistic"} - {o[1]}) if is_const(o) else None
    if cond[0] == "or":
        out = set()
        for c in cond[1]:
            r = _player_set(c, st)
            if r is None:
                return None
            out |= r
        return out
    return None


def _shrinks(k, sx, val, own, depth=0):
    """Is `val` (the new next_states) a sub-list of `own` with targets preserved?  ('ok' | 'bad' | 'unknown', text)"""
    if depth > 4:
        return "unknown", ""
    if val == ("list", ()):
        return "ok", "[]"
    if val == own:
        return "ok", "itself"
    if val[0] == "ite":
        a = _shrinks(k, sx, val[2], own, depth + 1)
        b = _shrinks(k, sx, val[3], own, depth + 1)
        for r in (a, b):
            if r[0] == "bad":
                return r
        if a[0] == "ok" and b[0] == "ok":
            return "ok", "%s or %s" % (a[1], b[1])
        return "unknown", ""
    if val[0] == "call" and val[1] in ("list", "sorted", "tuple") and len(val[2]) == 1:
        return _shrinks(k, sx, val[2][0], own, depth + 1)
    if val[0] == "slice" and val[1] == own:
        return "ok", "a slice of itself"
    if val[0] in ("cat", "add") and depth < 3:
        # xs[:p] + xs[p+1:] - the list without one position
        ops = (val[1], val[2]) if val[0] == "cat" else val[1]
        if len(ops) == 2 and all(x[0] == "slice" and x[1] == own and x[4] == C(None) for x in ops):
            lo = [x for x in ops if x[2] == C(None)]
            hi = [x for x in ops if x[3] == C(None)]
            if len(lo) == 1 and len(hi) == 1 and lo[0][3] != C(None) and hi[0][2] != C(None):
                from ..symx import mk_add, negate
                d = simp(mk_add(hi[0][2], negate(lo[0][3])))
                if is_const(d) and isinstance(d[1], int) and d[1] >= 0:
                    return "ok", "itself without %d position(s)" % d[1]
    if val[0] == "cat":
        parts = [_shrinks(k, sx, x, own, depth + 1) for x in (val[1], val[2])]
        if any(x in (("list", ()),) for x in (val[1], val[2])):
            other = val[2] if val[1] == ("list", ()) else val[1]
            return _shrinks(k, sx, other, own, depth + 1)
        if any(x[0] == "list" and x[1] for x in (val[1], val[2])) or val[1] == own or val[2] == own:
            return "bad", "the list is extended"
        return "unknown", ""
    if val[0] == "list" and val[1]:
        return "bad", "a list display with new entries"
    kf = k.kfold(val)
    if kf is not None and kf.kind == "COMPR":
        s = kf.source
        if isinstance(s, tuple) and s and s[0] == "filtered":
            s = s[1]
        keeps_target = kf.term == ("e",) or (kf.term[0] == "tup" and len(kf.term[1]) == 2 and kf.term[1][1] == ("t",))
        if s == own and keeps_target:
            return "ok", "target-preserving filter/map of itself (%s)" % kf.text()
        if keeps_target and isinstance(s, tuple) and s != own and depth < 3 and _shrinks(k, sx, s, own, depth + 1)[0] == "ok":
            return "ok", "target-preserving map of a sub-list of itself (%s)" % kf.text()
        if s == own and mentions(kf.term, lambda x: x[0] == "idx" and x[1] == SELF_NEXT and not is_const(x[2])):
            return "unknown", ""          # entries looked up by position in the old list (`self.next_states[i]` for the kept positions i)
        if s == own:
            return "bad", "entries are rewritten as `%s` (the successor index is not kept)" % show(kf.term)
        if s[0] == "attr" and s[1] == own[1] and s[2] != "next_states":
            return "bad", "drawn from `%s`, another list of the node" % show(s)
        return "unknown", ""
    if val[0] == "res" and val[1] in sx.loops:
        L = sx.loops[val[1]]
        fo = classify(L).get(val[2])
        if L.source == own and fo is not None and fo.kind == "COLLECT" and fo.init == ("list", ()):
            if fo.term == ("elem", L.id) or (fo.term[0] == "tup" and len(fo.term[1]) == 2 and fo.term[1][1] == simp(("idx", ("elem", L.id), C(1)))):
                return "ok", "target-preserving map of itself"
            return "bad", "entries are rewritten as `%s`" % show(fo.term)
    return "unknown", ""


def r6_monotone(ctx, chk, rule="C03.6"):
    """Every write to next_states after construction shrinks it."""
    from .C04 import next_states_writers
    ws = sorted(next_states_writers(ctx), key=lambda g: g.qual)
    for g in ws:
        cls = g.cls.name if g.cls else None
        if cls is None:
            chk.undecided(rule, g.where(), "%s writes next_states outside a class" % g.short)
            continue
        from ..ctxbind import specialise
        g = specialise(ctx, g)
        sx = SymX(ctx, g, cls, inline_depth=2).run()
        k = K.Kernel.__new__(K.Kernel)
        k.ctx, k.func, k.sx, k.ret, k._cls = ctx, g, sx, sx.ret, {}
        ps = [p for p in g.params if p != "self"]
        k.slist = ps[0] if ps else None
        effs = list(sx.final.effects)
        for l in sx.loops.values():
            effs.extend(l.effects)
        n = 0
        for e in effs:
            if e[1] == "store" and e[3] == "next_states":
                n += 1
                val = e[4]
                base = e[2]
                if val == ("list", ()):
                    chk.ok(rule, g.where(), "%s: next_states := []" % g.short)
                    continue
                own = ("attr", base, "next_states")
                verdict, text = _shrinks(k, sx, val, own)
                if verdict == "ok":
                    chk.ok(rule, g.where(), "%s: next_states := %s" % (g.short, text))
                elif verdict == "bad":
                    chk.violation(rule, g.where(), "%s assigns `%s` to next_states: %s, so a transition may be added or redirected after restriction" % (g.short, show(val)[:160], text),
                                  expected="filter of itself, [], or target-preserving map", found=show(val)[:200], construct="%s non-shrinking write" % g.short)
                else:
                    chk.undecided(rule, g.where(), "%s assigns `%s` to next_states: not recognised as a filter / target-preserving map of the state's own list" % (g.short, show(val)[:200]))
            elif e[1] == "call" and e[2][0] == "mcall" and e[2][1][0] == "attr" and e[2][1][2] == "next_states":
                n += 1
                if e[2][2] in ("remove", "pop", "clear"):
                    chk.ok(rule, g.where(), "%s: next_states.%s(...) shrinks the list" % (g.short, e[2][2]))
                else:
                    chk.violation(rule, g.where(), "%s applies `%s` to next_states: the list can grow after restriction" % (g.short, e[2][2]),
                                  expected="only shrinking operations", found=show(e[2]), construct="%s grows next_states" % g.short)
        if n == 0:
            chk.undecided(rule, g.where(), "%s is reported as a next_states writer but no store was recognised symbolically" % g.short)


def run(ctx, chk):
    shared.rule_no_keyed_collapse(ctx, chk, "C03.0:keyed", ("prune_paths", "remove_path"))      # parallel transitions are separate transitions
    r1(ctx, chk)
    r23(ctx, chk)
    r4_player_two(ctx, chk)
    r5_dispatch(ctx, chk)
    r6_monotone(ctx, chk)
    # Player 1 is cut down to its reachability-optimal actions: if that list can be empty or miss an optimal action (an optimum
    # taken at one precision and compared at another), live branches are removed
    from . import C04
    C04.r1_argsets(ctx, chk, "C03.pre:C04.1")
    # a state may be cut off only when NOBODY points to it: a decision taken while the pointed-to set is still being collected
    # in the same sweep misses the predecessors that are listed later
    from . import C13
    C13.r5_pruning_order(ctx, chk, "C03.4:C13.5")
    chk.require_instances("C03.1", 20)
    chk.require_instances("C03.2", 2)
    chk.require_instances("C03.3", 2)
