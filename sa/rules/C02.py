"""C02 - reported expected rewards are the values of the conditioned game (structural part)."""
import ast

from ..loader import AnalysisError, attr_path, src, walk_no_nested_defs, norm_stmt, call_name
from ..symx import SymX, classify, show, C, TRUE, FALSE, simp, is_const, mk_add, mk_mul, negate, strip_perm, mentions
from ..nf import SELF_NEXT, SF
from . import kernels as K
from . import C01, C03, shared

EXPLANATION = (
    "Decides that the pipeline conditions first and then iterates the right operator; convergence / closeness to "
    "the conditioned game's value is NOT decided. (1) partial order in StochasticGame.solve by CFG dominance: "
    "validation and state construction before the solver, reachability before the (unconditional) restriction of "
    "Player 1, pruning executed iff the prune flag, all before the total-reward solve, results read afterwards; "
    "(2) reward kernels: reward + SUM(p*E[t]) / reward + MAX(E[t]) / reward + MIN(E[t]) over the whole successor "
    "list, and exactly (0,0,0) for an empty list; (3) the sweep covers every state, stores the kernels' three "
    "results into the three fields in the kernels' slot order, measures max of the three |new-old| per sweep and "
    "exits only on change <= threshold; (4) the restriction receives the very strategies solve_reachability "
    "returned. The conditioning itself is C03 (re-evaluated here as a prerequisite)."
    ' Also: nothing computed by one solve is handed to the next (pre:C10.2), and no kernel funnels its transitions through a dictionary keyed by a part of the transition (0:keyed).')
ASSUMPTIONS = ["rewards are >= 0 (validated), so a constant <= 0 is an identity of max over expected rewards"]
TECHNIQUE = "CFG dominance over the solve pipeline + symbolic kernel and sweep normal forms (ast)"

ER, EMR, ERM = "expected_rewards", "expected_rewards_min_reach", "expected_reach_min_rewards"
SOLVE = "tad.py::StochasticGame.solve"
VITR = "tad.py::Solver.value_iteration_total_rewards"


def calls_of(f, meth):
    return [c for c in walk_no_nested_defs(f.node) if isinstance(c, ast.Call) and (
        (isinstance(c.func, ast.Attribute) and c.func.attr == meth) or (isinstance(c.func, ast.Name) and c.func.id == meth))]


def r1_pipeline(ctx, chk, rule="C02.1"):
    f = ctx.func(SOLVE)
    cfg = ctx.cfg(f)
    where = f.where()

    def one(meth, required=True):
        cs = calls_of(f, meth)
        if len(cs) != 1:
            if required or cs:
                chk.undecided(rule, where, "expected exactly one call of %s in solve(), found %d" % (meth, len(cs)))
            return None
        return cs[0]
    check, init, ctor = one("check_game"), one("init_states"), one("Solver")
    sr, pr, psg, str_ = one("solve_reachability"), one("prune_reachability"), one("prune_stochastich_game"), one("solve_total_rewards")
    if None in (check, init, ctor, sr, pr, psg, str_):
        return
    order = [(check, ctor, "check_game() before the solver is built"), (init, ctor, "init_states() before the solver is built"),
             (ctor, sr, "solver built before reachability"), (sr, pr, "reachability solved before Player 1 is restricted"),
             (pr, str_, "Player 1 restricted before total rewards are solved"), (sr, psg, "reachability solved before pruning")]
    for a, b, text in order:
        if cfg.dominates(a, b) and cfg.stmt_of(a) is not cfg.stmt_of(b):
            chk.ok(rule, f.where(b), "order: " + text)
        else:
            chk.violation(rule, f.where(b), "pipeline order broken: %s does not hold on every path (`%s` is not dominated by `%s`)" % (
                text, norm_stmt(cfg.stmt_of(b)), norm_stmt(cfg.stmt_of(a))), expected=text, found="line %d vs line %d" % (a.lineno, b.lineno),
                construct="solve() order %s" % text)
    # restriction unconditional
    if cfg.on_every_normal_path(pr):
        chk.ok(rule, f.where(pr), "prune_reachability (restriction of Player 1 to its reachability strategies) runs on every path")
    else:
        chk.violation(rule, f.where(pr), "the restriction of Player 1 to its reachability strategies is conditional: with some configuration rewards are solved on the unrestricted game",
                      expected="unconditional", found=norm_stmt(cfg.stmt_of(pr)), construct="solve() conditional restriction")
    # pruning iff flag: judged on the path condition of the call (so `if flag: prune`, `if not flag: ... else: prune` and a guard
    # clause are the same thing), not on the shape of the if statement
    st = cfg.stmt_of(psg)
    flagf = shared.solver_names(ctx)["flag_field"]
    sxp = SymX(ctx, f, "StochasticGame", inline_depth=0).run()
    peff = [e for e in sxp.final.effects if e[1] == "call" and e[2][0] == "mcall" and e[2][2] == "prune_stochastich_game"]
    want_c = ("truthy", ("attr", ("v", "self"), flagf))
    flag_ok = False
    outer = st
    while isinstance(getattr(outer, "parent", None), ast.If):
        outer = outer.parent
    if len(peff) != 1:
        chk.undecided(rule, f.where(psg), "the pruning call is not a plain statement of solve() (%d call effects)" % len(peff))
    else:
        pc = peff[0][0]
        if pc == want_c or pc == simp(("cmp", "==", ("attr", ("v", "self"), flagf), TRUE)):
            flag_ok = True
            if cfg.dominates(outer, str_):
                chk.ok(rule, f.where(psg), "prune_stochastich_game() runs iff self.%s, before solve_total_rewards()" % flagf)
            else:
                chk.undecided(rule, f.where(psg), "the pruning decision does not dominate solve_total_rewards()")
        elif pc == simp(("not", want_c)):
            chk.violation(rule, f.where(psg), "pruning runs when the flag is OFF", expected="if self.%s: prune" % flagf, found=show(pc),
                          construct="solve() pruning inverted")
        elif pc == TRUE:
            chk.violation(rule, f.where(psg), "pruning runs regardless of the prune flag", expected="if self.%s: prune" % flagf,
                          found=norm_stmt(st), construct="solve() pruning unconditional")
        else:
            chk.violation(rule, f.where(psg), "pruning is guarded by `%s`, not by the prune flag alone" % show(pc),
                          expected="if self.%s" % flagf, found=show(pc), construct="solve() pruning guard")
    if not cfg.dominates(psg, str_) and flag_ok:
        pass
    if flag_ok and cfg.path_exists(cfg.stmt_of(str_), st):
        chk.violation(rule, f.where(psg), "pruning can run after total rewards were solved", expected="prune before solve_total_rewards",
                      found="path from solve_total_rewards to pruning", construct="solve() pruning after rewards")
    # results read after the reward solve, from the solver's own state list
    solve_slot(ctx, chk, rule, 2, ER, "solve_total_rewards", "expected rewards")


def solve_slot(ctx, chk, rule, slot, field, after, what):
    """solve()[slot] must be [state.<field> for state in state_list], read after the call of solver.<after>()."""
    from ..nf import Kernel
    f = ctx.func(SOLVE)
    cfg = ctx.cfg(f)
    calls = calls_of(f, after)
    k = ctx.cache.get("solve_kernel")
    if k is None:
        k = ctx.cache["solve_kernel"] = Kernel(ctx, SOLVE, "StochasticGame")
    sx = k.sx
    ret = sx.ret
    where = f.where()
    if ret[0] != "tup" or len(ret[1]) <= slot or len(calls) != 1:
        chk.undecided(rule, where, "solve() does not return a tuple with slot %d / %d calls of %s" % (slot, len(calls), after))
        return
    t = ret[1][slot]
    le = k.listexpr(t)
    if le is None:
        chk.undecided(rule, where, "solve()[%d] (%s) is `%s`" % (slot, what, show(t)))
        return
    base_t = t
    while base_t[0] == "call" and base_t[1] in ("list", "tuple") and len(base_t[2]) == 1:
        base_t = base_t[2][0]
    if base_t[0] not in ("compr", "res") or base_t[1] not in sx.loops:
        chk.undecided(rule, where, "solve()[%d] (%s) is `%s`" % (slot, what, show(t)))
        return
    node = sx.loops[base_t[1]].node
    try:
        encl = node
        while encl is not None and encl is not f.node and not isinstance(encl, (ast.FunctionDef, ast.Lambda)):
            encl = getattr(encl, "parent", None)
        if encl is not f.node:
            raise AnalysisError("inside a local function: evaluated where it is called")
        cfg.stmt_of(node)
    except AnalysisError:
        # the list is built inside an inlined helper: take the statement of solve() that defines the returned variable
        node = None
        rets = [r for r in walk_no_nested_defs(f.node) if isinstance(r, ast.Return) and isinstance(r.value, ast.Tuple) and len(r.value.elts) > slot]
        if len(rets) == 1 and isinstance(rets[0].value.elts[slot], ast.Name):
            defs = cfg.defs_reaching(rets[0], rets[0].value.elts[slot].id)
            if len(defs) == 1:
                node = next(iter(defs))
        elif len(rets) == 1 and isinstance(rets[0].value.elts[slot], ast.Call):
            node = rets[0]                  # computed in the return statement itself
        if node is None:
            chk.undecided(rule, where, "solve()[%d] (%s): the statement that computes it was not located" % (slot, what))
            return
    source, flt, elt, whole = le
    slist = sx.final.env.get(shared.solver_names(ctx)["var"])
    good_src = slist is not None and source in (slist, ("mcall", ("v", "self"), "init_states", (), ()))
    if not good_src and source[0] == "attr" and source[2] == shared.solver_names(ctx)["field"] and source[1][0] == "call" and source[1][1] == "Solver" \
            and slist is not None and (slist in source[1][2] or any(v == slist for _, v in source[1][3])):
        good_src = True           # solver.<node list field> of the solver that was built on that very list
    if not good_src and elt == ("attr", ("e",), field) and flt == TRUE and whole:
        chk.undecided(rule, f.where(node), "%s are read from `%s`; that this is the solver's node list is not established" % (what, show(source)[:100]))
        return
    if cfg.dominates(calls[0], node) and elt == ("attr", ("e",), field) and flt == TRUE and good_src and whole:
        chk.ok(rule, f.where(node), "solve()[%d] (%s) = [state.%s for state in state_list], read after %s()" % (slot, what, field, after))
    elif cfg.dominates(calls[0], node) and flt == TRUE and whole and mentions(elt, lambda x: x[0] in ("mcall", "apply", "res", "compr") or (x[0] == "call" and x[1] not in ("round", "float", "int", "abs"))):
        # the value goes through a method / helper of the node (a record of its estimates, an accessor): not followed here
        chk.undecided(rule, f.where(node), "%s are reported as `%s`: read through a call that is not resolved to the field %s" % (what, show(elt)[:80], field))
    else:
        chk.violation(rule, f.where(node), "%s are reported as `%s` over `%s`%s%s" % (
            what, show(elt), show(source), "" if flt == TRUE else " where " + show(flt), "" if cfg.dominates(calls[0], node) else " BEFORE %s()" % after),
            expected="[state.%s for state in state_list] after %s()" % (field, after), found=norm_stmt(cfg.stmt_of(node)), construct="solve() slot %d" % slot)


def shared_is_log(s):
    return isinstance(s, ast.Expr) and isinstance(s.value, ast.Call) and call_name(s.value).startswith("logging.")


def reward_slots(ctx, chk, rule, cls):
    """(kernel, [slot0, slot1, slot2]) of value_iteration_rewards with the empty-list guard checked."""
    k = K.kernel(ctx, cls, "value_iteration_rewards")
    where = k.func.where()
    r = k.ret
    empty = ("tup", (C(0), C(0), C(0)))
    nonempty_conds = (("truthy", SELF_NEXT), simp(("cmp", "!=", C(0), ("call", "len", (SELF_NEXT,), ()))),
                      simp(("cmp", "<", C(0), ("call", "len", (SELF_NEXT,), ()))))
    if r[0] == "ite" and r[1] in nonempty_conds and r[3] == empty and r[2][0] == "tup" and len(r[2][1]) == 3:
        chk.ok(rule, where, "%s: empty successor list => (0, 0, 0)" % cls)
        return k, list(r[2][1])
    if r[0] == "ite" and r[1] in nonempty_conds and r[3][0] == "tup" and r[2][0] == "tup":
        chk.violation(rule, where, "%s: an empty successor list yields `%s`, not (0, 0, 0): a pruned-away state is not worth 0" % (cls, show(r[3])),
                      expected="(0, 0, 0)", found=show(r[3]), construct="%s.value_iteration_rewards empty case" % cls)
        return k, list(r[2][1])
    if r[0] == "tup" and len(r[1]) == 3:
        chk.violation(rule, where, "%s: no special case for an empty successor list (a state whose transitions were all pruned must be worth 0)" % cls,
                      expected="if not next_states: return 0, 0, 0", found=show(r), construct="%s.value_iteration_rewards empty case missing" % cls)
        return k, list(r[1])
    chk.undecided(rule, where, "%s.value_iteration_rewards return value not recognised: %s" % (cls, show(r)))
    return k, None


def split_reward(t):
    """t = self.reward + X  ->  X ; else None."""
    rew = ("attr", ("v", "self"), "reward")
    if t[0] == "add" and rew in t[1]:
        rest = [x for x in t[1]]
        rest.remove(rew)
        return simp(("add", tuple(rest)))
    if t[0] == "ite" and len(t) == 4:
        a, b = split_reward(t[2]), split_reward(t[3])       # the reward is added on either path
        if a is not None and b is not None:
            return simp(("ite", t[1], a, b))
    return None


def r2_kernels(ctx, chk, rule="C02.2"):
    roles = K.role_classes(ctx)
    rew = ("attr", ("v", "self"), "reward")
    for role, cls in roles.items():
        k, slots = reward_slots(ctx, chk, rule, cls)
        if slots is None:
            continue
        where = k.func.where()
        s0 = slots[0]
        what = "%s expected-reward step (slot 0)" % cls
        if role == "avg":
            K.check_fold(chk, rule, where, k.kfold(s0), what, kind="SUM", term=mk_mul(("p",), SF(ER)), init_ok=K.INIT_TERM(rew),
                         allow_neutral_filter=True, found_text=show(s0))
            continue
        x = split_reward(s0)
        if x is None:
            kf = k.kfold(s0)
            if kf is not None and kf.kind == "EXT":
                chk.violation(rule, where, "%s: the state's own reward is not added to the %s over successors" % (what, kf.sense),
                              expected="self.reward + %s(E[t])" % ("MAX" if role == "max" else "MIN"), found=show(s0), construct="%s reward dropped" % what)
            else:
                chk.undecided(rule, where, "%s: `%s` is not self.reward + fold" % (what, show(s0)))
            continue
        kx = k.kfold(x)
        if kx is None:
            # "the expected reward of the successor that maximises / minimises the expected reward" is that maximum / minimum
            from .C14 import arg_successor
            v_, text_ = arg_successor(k, x, ER, "max" if role == "max" else "min")
            if v_ is True:
                chk.ok(rule, where, "%s = self.reward + expected_rewards at the arg-%s successor of expected_rewards (%s)" % (what, "max" if role == "max" else "min", text_))
                continue
        if role == "max":
            K.check_fold(chk, rule, where, kx, what, kind="EXT", sense="max", term=SF(ER), init_ok=K.INIT_LE0, found_text=show(x))
        else:
            K.check_fold(chk, rule, where, kx, what, kind="EXT", sense="min", term=SF(ER), init_ok=K.INIT_FIRST_OR_INF, found_text=show(x))


def r3_sweep(ctx, chk, rule="C02.3"):
    from . import C04
    C04.threshold_chain(ctx)
    r = C01.sweep_nf(ctx, chk, rule, VITR, None, None, False)
    if r is None:
        return
    f, sx, W, F, fo, where = r["f"], r["sx"], r["W"], r["F"], r["fold"], r["where"]
    slist = shared.SLIST(ctx)
    if strip_perm(F.source) != slist and mentions(F.source, lambda x: x[0] == "res" and len(x) == 3 and x[2] == "$yield"):
        # the pass is driven by a generator that performs the updates itself and yields the changes: what it covers is not read off
        # the loop header
        chk.undecided(rule, where, "the reward sweep is driven by `%s`: which states one pass covers is not resolved" % show(F.source)[:80])
        return
    if strip_perm(F.source) != slist:
        chk.violation(rule, where, "the reward sweep iterates `%s`, not the whole state list" % show(F.source), expected="for state in self.state_list",
                      found=show(F.source), construct="value_iteration_total_rewards domain")
        return
    st = ("elem", F.id)
    call = ("mcall", st, "value_iteration_rewards", (slist,), ())
    # the kernel may take further arguments (a precision, a tolerance): the call as it is written is the reference
    actual = {t for u_ in list(F.update.values()) + [e_ for e_ in F.effects] for t in _sub(u_) if t[0] == "mcall" and t[1] == st and t[2] == "value_iteration_rewards"}
    if len(actual) == 1:
        a_ = next(iter(actual))
        if a_[3] and a_[3][0] == slist:
            call = a_
    if len(actual) > 1 and all(a_[3] and a_[3][0] == slist for a_ in actual):
        # the kernel is called in several ways - with and without an optional argument that the solver computed beforehand (the
        # reachability-minimising actions of a Player-2 state, once per run instead of once per sweep).  What the kernel does
        # with such an argument is judged with the kernel, in its call context (C02.2 / C14.1); for the sweep all of these are
        # "the kernel's result for this state"
        ms = [m for m in (ctx.prog.resolve_method(c_, "value_iteration_rewards") for c_ in K.role_classes(ctx).values()) if m is not None]
        if ms and all(all(p in m.defaults for p in [q for q in m.params if q != "self"][1:]) for m in ms):
            from ..symx import subst, deep_simp, path_simp

            def unify(t):
                return path_simp(deep_simp(subst(t, lambda x: call if x[0] == "mcall" and x[1] == st and x[2] == "value_iteration_rewards" and x[3] and x[3][0] == slist else None)))
            fo.term = unify(fo.term)
            F.effects = [tuple(unify(x) if isinstance(x, tuple) and x and isinstance(x[0], str) else x for x in e_) for e_ in F.effects]
    fields = [ER, EMR, ERM]
    # `if not state.next_states: new = 0, 0, 0 else: new = state.value_iteration_rewards(..)`: the explicit form of what every
    # kernel returns for a state without successors (C02.2 checks exactly that first return of each kernel)
    from ..symx import subst as _subst, deep_simp as _deep_simp
    ns_ = ("attr", st, "next_states")
    nonempty_ = (("truthy", ns_), simp(("cmp", "!=", ("call", "len", (ns_,), ()), C(0))), simp(("cmp", "<", C(0), ("call", "len", (ns_,), ()))))

    def _zero_shortcut(x):
        if x[0] == "ite" and len(x) == 4 and x[1] in nonempty_ and is_const(x[3]) and x[3][1] == 0 and not isinstance(x[3][1], bool) \
                and x[2][0] == "idx" and x[2][1][0] == "mcall" and x[2][1][1] == st and x[2][1][2] == "value_iteration_rewards":
            return x[2]
        return None
    t2_ = _deep_simp(_subst(fo.term, _zero_shortcut))
    if t2_ != fo.term:
        fo.term = t2_
        F.effects = [tuple(_deep_simp(_subst(x, _zero_shortcut)) if isinstance(x, tuple) and x and isinstance(x[0], str) else x for x in e_) for e_ in F.effects]
        chk.note("%s: states without successors are given (0, 0, 0) directly in the sweep - what the kernels return for them" % rule)
    news = [simp(("idx", call, C(i))) for i in range(3)]
    diffs = [simp(("call", "abs", (mk_add(news[i], negate(("attr", st, fields[i]))),), ())) for i in range(3)]
    want = simp(("call", "max", tuple(diffs), ()))
    if fo.term != want and mentions(fo.term, lambda x: x[0] in ("compr", "apply", "res") or (x[0] == "call" and x[1] not in ("abs", "max", "min"))
                                    or (x[0] == "mcall" and x[2] != "value_iteration_rewards")):
        chk.undecided(rule, where, "the per-state change `%s` is computed through a construct that is not resolved to the three |new - old| terms" % show(fo.term))
        return
    if fo.term != want:
        # which of the three is missing?
        missing = [fields[i] for i in range(3) if not _mentions(fo.term, diffs[i])]
        if missing:
            chk.violation(rule, where, "the change measure does not include the change of %s: the loop can stop while that quantity is still moving" % missing,
                          expected=show(want), found=show(fo.term), construct="value_iteration_total_rewards change measure")
        else:
            chk.violation(rule, where, "the change measure is `%s`" % show(fo.term), expected=show(want), found=show(fo.term),
                          construct="value_iteration_total_rewards change measure")
        return
    ok = True
    for i, fld in enumerate(fields):
        stores = [e for e in F.effects if e[1] == "store" and e[3] == fld]
        good = [e for e in stores if e[0] == TRUE and e[2] == st and e[4] == news[i]]
        if len(stores) != 1 or len(good) != 1:
            ok = False
            e = stores[0] if stores else None
            chk.violation(rule, where, "state.%s is not assigned slot %d of the kernel's result for every state: %s" % (
                fld, i, "no store" if e is None else "%s if %s" % (show(e[4]), show(e[0]))),
                expected="state.%s = value_iteration_rewards(...)[%d]" % (fld, i), found="none" if e is None else show(e[4]),
                construct="value_iteration_total_rewards store of %s" % fld)
    if ok:
        chk.ok(rule, where, "SWEEP(domain=self.state_list whole; (E, Emr, Ermr)[s] := value_iteration_rewards(s)[0..2]; change = MAX(0, max of the three |new-old|) reset per sweep)")
    # slot agreement with the kernels: slot k of every kernel depends on successors' field k only
    roles = K.role_classes(ctx)
    for role, cls in roles.items():
        k, slots = reward_slots(ctx, _Quiet(), rule, cls)
        if slots is None:
            continue
        for i, fld in enumerate(fields):
            used = {t[2] for t in _sub(k.canon_top(slots[i])) if t[0] == "sf" and t[2] in fields}
            for lid in k.sx.loops:
                pass
            used |= _fields_in_folds(k, slots[i], fields)
            # auxiliary slots may follow the arg-max/min of expected_rewards; the value read must be field i
            value_fields = _value_fields(k, slots[i], fields)
            if value_fields and value_fields != {fld}:
                chk.violation(rule, k.func.where(), "%s.value_iteration_rewards slot %d is stored into %s but is computed from successors' %s" % (
                    cls, i, fld, sorted(value_fields)), expected="slot %d reads %s" % (i, fld), found=sorted(value_fields),
                    construct="%s slot %d field" % (cls, i))
            elif value_fields:
                chk.ok(rule, k.func.where(), "%s slot %d is a function of successors' %s (matches the field it is stored into)" % (cls, i, fld))


class _Quiet:
    def ok(self, *a, **k):
        pass

    def violation(self, *a, **k):
        pass

    def undecided(self, *a, **k):
        pass


def _mentions(t, x):
    return any(s == x for s in _sub(t))


def _sub(t):
    out = []

    def walk(y):
        if isinstance(y, tuple):
            if y and isinstance(y[0], str):
                out.append(y)
            for z in y:
                walk(z)
    walk(t)
    return out


def _fields_in_folds(k, t, fields):
    out = set()
    for s in _sub(t):
        if s[0] == "res":
            kf = k.kfold(s)
            if kf is not None and kf.term is not None:
                out |= {x[2] for x in _sub(kf.term) if x[0] == "sf" and x[2] in fields}
    return out


def _value_fields(k, t, fields):
    """Fields whose *values* flow into t (fields used only to select an arg-max/min successor are not counted)."""
    out = set()
    ct = k.canon_top(t)

    def walk(x):
        if not isinstance(x, tuple) or not x:
            return
        if x[0] == "sf":
            if x[2] in fields:
                out.add(x[2])
            return  # do not descend into the index expression (selection)
        if x[0] == "res":
            kf = k.kfold(x)
            if kf is not None and kf.kind in ("SUM", "EXT") and kf.term is not None:
                walk(kf.term)
            return
        if x[0] == "ite":
            walk(x[2])
            walk(x[3])
            return
        for y in x:
            walk(y)
    walk(ct)
    return out


def _unresolved_obj(ctx):
    """Predicate on terms: the construction of an object of a repository class (its fields are not followed), a function value
    that is applied, the result of a nested loop."""
    def p(x):
        return (x[0] == "call" and x[1] in ctx.prog.classes and x[1] not in ("Solver", "StochasticGame")) or x[0] in ("apply", "res", "compr")
    return p


def r4_restriction_argument(ctx, chk, rule="C02.4"):
    f = ctx.func(SOLVE)
    sx = SymX(ctx, f, "StochasticGame", inline_depth=0).run()
    calls = [e for e in sx.final.effects if e[1] == "call" and e[2][0] == "mcall" and e[2][2] == "prune_reachability"]
    if len(calls) != 1:
        chk.undecided(rule, f.where(), "%d prune_reachability calls recognised in solve()" % len(calls))
        return
    arg = calls[0][2][3][0] if calls[0][2][3] else None
    ret = sx.ret
    reported = ret[1][1] if ret[0] == "tup" and len(ret[1]) > 1 else None
    ok_src = arg is not None and arg[0] == "idx" and arg[2] == C(0) and arg[1][0] == "mcall" and arg[1][2] == "solve_reachability"
    if ok_src and arg == reported:
        chk.ok(rule, f.where(), "prune_reachability receives solve_reachability(...)[0], the same object solve() reports as reachability strategies")
    elif arg is None or reported is None or mentions(arg, _unresolved_obj(ctx)) or mentions(reported, _unresolved_obj(ctx)):
        chk.undecided(rule, f.where(), "prune_reachability receives `%s`, solve() reports `%s`: a value read off an object that is not resolved" % (
            show(arg)[:80] if arg is not None else None, show(reported)[:80] if reported is not None else None))
    else:
        chk.violation(rule, f.where(), "Player 1 is restricted by `%s`, which is not the strategy list solve_reachability returned / solve() reports (`%s`)" % (
            show(arg), show(reported)), expected="the reported reachability strategies", found=show(arg), construct="solve() restriction argument")
    # Solver.prune_reachability: whole list, P1 only, strategies[position]
    g = ctx.func("tad.py::Solver.prune_reachability")
    sg = SymX(ctx, g, "Solver", inline_depth=0).run()
    loops = [l for l in sg.loops.values() if l.kind == "for"]
    if len(loops) != 1:
        chk.undecided(rule, g.where(), "%d loops in prune_reachability" % len(loops))
        return
    L = loops[0]
    slist = shared.SLIST(ctx)
    param = ("v", g.params[1])
    cs = [e for e in L.effects if e[1] == "call" and e[2][0] == "mcall" and e[2][2] == "prune_paths_reachability"]
    st = ("elem", L.id)
    idx_ok = (("pos", L.id), ("attr", st, "idx"))
    # (a `continue` skips the rest of one iteration, not a state: what it skips shows in the condition of the call below)
    sel = _position_selection(ctx, sg, L, slist)
    if sel is not None:
        verdict, text = sel
        if verdict == "bad":
            chk.violation(rule, g.where(L.node), text, expected="every Player-1 state (a final Player-1 state still has a choice to restrict)", found=show(L.source)[:100],
                          construct="prune_reachability coverage")
            return
        if verdict is None:
            chk.undecided(rule, g.where(L.node), text)
            return
        chk.ok(rule, g.where(L.node), text)
        st = simp(("idx", slist, ("elem", L.id)))
        idx_ok = (("elem", L.id),)
        if L.has_break or L.has_return or len(cs) != 1:
            chk.undecided(rule, g.where(L.node), "the loop over the selected positions has an early exit / %d restriction calls" % len(cs))
            return
    elif L.source != slist and (L.source[0] in ("compr", "res", "apply") or (L.source[0] == "call" and L.source[1] in ("filter", "enumerate", "zip", "map")
                                                                          and mentions(L.source, lambda x: x == slist))) and not L.has_break and not L.has_return:
        # the Player-1 states (or their positions) selected first, restricted afterwards: the selection is not followed here
        chk.undecided(rule, g.where(L.node), "prune_reachability iterates `%s`, a selection computed from the state list: that it holds every Player-1 state is not resolved" % show(L.source)[:80])
        return
    if sel is None and (L.source != slist or not L.whole or L.has_break or L.has_return or len(cs) != 1):
        chk.violation(rule, g.where(L.node), "prune_reachability does not restrict every Player-1 state of the whole list", expected="for idx, state in enumerate(self.state_list)",
                      found=norm_stmt(L.node), construct="prune_reachability coverage")
        return
    cond, _, call = cs[0]
    players = C03._player_set(cond, st)
    a = call[3][0] if call[3] else None
    if players != {"Player 1"}:
        chk.violation(rule, g.where(L.node), "restriction applied to players %s" % (sorted(players) if players else show(cond)), expected="{Player 1}",
                      found=show(cond), construct="prune_reachability players")
    elif not (a is not None and a[0] == "idx" and a[1] == param and a[2] in idx_ok and call[1] == st):
        chk.violation(rule, g.where(L.node), "state is restricted by `%s`, not by its own entry of the strategy table" % show(a),
                      expected="%s[<position of the state>]" % g.params[1], found=show(a), construct="prune_reachability index")
    else:
        chk.ok(rule, g.where(L.node), "every Player-1 state of the whole list is restricted by its own entry %s[idx]" % g.params[1])


def _position_selection(ctx, sg, L, slist):
    """`for idx in <selection of positions>: state = self.state_list[idx]` where the selection falls back to all positions when the
    solver has not kept the backward search's result.  ('ok' | 'bad' | None, text), or None when the loop is not of that kind.
    Lemma used: a NON-FINAL state from which no final state is reachable has value 0 and so has every successor - all its
    actions are in its reachability strategy, there is nothing to cut; a FINAL state is not in the backward search's result
    although its successors can have any value."""
    src_t = L.source
    n_all = (("call", "range", (("call", "len", (slist,), ()),), ()), ("call", "range", (C(0), ("call", "len", (slist,), ())), ()))
    if not (src_t[0] == "ite" and (src_t[2] in n_all or src_t[3] in n_all)):
        return None
    sel = src_t[3] if src_t[2] in n_all else src_t[2]
    inner_terms = [sel] + (list(sg.loops[sel[1]].filters) if sel[0] == "compr" and sel[1] in sg.loops else [])
    fields = sorted({x[2] for t_ in inner_terms for x in C03._sub(t_) if x[0] == "attr" and x[1] == ("v", "self") and x != slist})
    # which solver field holds what: assigned from the result of reverse_dfs / from the final-state parameter
    reach_f, final_f = set(), set()
    for m in ctx.prog.classes["Solver"].methods.values():
        cfg_m = None
        for st_ in walk_no_nested_defs(m.node):
            if isinstance(st_, ast.Assign) and len(st_.targets) == 1 and isinstance(st_.targets[0], ast.Attribute) and attr_path(st_.targets[0]) \
                    and attr_path(st_.targets[0]).startswith("self.") and isinstance(st_.value, ast.Name):
                fld = st_.targets[0].attr
                cfg_m = cfg_m or ctx.cfg(m)
                defs = cfg_m.defs_reaching(st_, st_.value.id)
                if defs and all(isinstance(d, ast.Assign) and isinstance(d.value, ast.Call) and call_name(d.value) == "reverse_dfs" for d in defs):
                    reach_f.add(fld)
                elif (not defs or all(isinstance(d, str) for d in defs)) and st_.value.id in m.params and "final" in st_.value.id:
                    final_f.add(fld)
    if not (set(fields) & reach_f):
        return None
    if sel[0] == "attr" and sel[2] in reach_f:
        return ("bad", "prune_reachability visits only the states in `self.%s`, the backward search's result, which leaves out the final states: a final Player-1 state keeps the "
                "actions outside its reachability strategy" % sel[2])
    if sel[0] == "compr" and sel[1] in sg.loops:
        S = sg.loops[sel[1]]
        if S.source in n_all and S.elt == ("elem", S.id) and len(S.filters) == 1 and S.filters[0][0] == "cmp" and S.filters[0][1] == "in" and S.filters[0][2] == ("elem", S.id):
            U = S.filters[0][3]
            used = {x[2] for x in C03._sub(U) if x[0] == "attr" and x[1] == ("v", "self")}
            only_unions = not mentions(U, lambda x: (x[0] == "mcall" and x[2] not in ("union",)) or (x[0] == "call" and x[1] not in ("set", "frozenset", "list", "tuple", "sorted"))
                                       or x[0] in ("compr", "res", "apply", "ite", "sub", "binop"))
            if only_unions and used & reach_f and used & final_f and used <= (reach_f | final_f):
                return ("ok", "prune_reachability visits the states the backward search found and the final states; a non-final state outside them has value 0 like all its "
                        "successors, so it has nothing to cut (falls back to every position when the search result was not kept)")
            if only_unions and used and used <= reach_f:
                return ("bad", "prune_reachability visits only the positions in `%s`, the backward search's result, which leaves out the final states: a final Player-1 state keeps "
                        "the actions outside its reachability strategy" % show(U)[:60])
    return (None, "prune_reachability iterates the selection `%s`: that it holds every Player-1 state with something to cut is not resolved" % show(sel)[:80])


def r5_no_stale_transition_cache(ctx, chk, rule="C02.5"):
    """A node field that the constructor computes from the transition list (a cached sum, a count, a self-loop mass) describes
    the *input* game; the conditioned game is obtained by rewriting next_states.  Such a field read by the solver after the
    conditioning is stale unless every function that rewrites next_states refreshes it."""
    from .C04 import next_states_writers
    roles = K.role_classes(ctx)
    node_classes = set()
    for c in roles.values():
        node_classes.update(ctx.prog.mro(c))
    derived = {}       # field -> (func, node)
    for cn in sorted(node_classes):
        cls = ctx.prog.classes.get(cn)
        init = cls.methods.get("__init__") if cls else None
        if init is None:
            continue
        tainted = {"next_states"}
        for _ in range(4):
            for st in walk_no_nested_defs(init.node):
                if isinstance(st, (ast.Assign, ast.AugAssign)):
                    val = st.value
                    names = {n.id for n in ast.walk(val) if isinstance(n, ast.Name)} | {n.attr for n in ast.walk(val) if isinstance(n, ast.Attribute) and attr_path(n) == "self.next_states"}
                    if names & tainted:
                        for t in (st.targets if isinstance(st, ast.Assign) else [st.target]):
                            if isinstance(t, ast.Name):
                                tainted.add(t.id)
                            elif isinstance(t, ast.Attribute) and attr_path(t) and attr_path(t).startswith("self.") and t.attr != "next_states":
                                derived.setdefault(t.attr, (init, st))
    if not derived:
        chk.ok(rule, "tad.py", "no node field is computed from the transition list at construction: nothing can go stale when next_states is rewritten")
        return
    ws = next_states_writers(ctx)
    for field, (init, st) in sorted(derived.items()):
        readers = []
        for g in ctx.prog.all_funcs(("tad.py",)):
            if g.name == "__init__":
                continue
            for n in walk_no_nested_defs(g.node):
                if isinstance(n, ast.Attribute) and n.attr == field and isinstance(n.ctx, ast.Load):
                    readers.append((g, n))
        if not readers:
            continue
        rest_q = {g_.qual for g_ in shared.restorers(ctx)}
        if all(g.qual in rest_q for g, _ in readers):
            chk.ok(rule, init.where(st), "field %s is a snapshot of the transition list read only by %s, which restores the constructor's state" % (
                field, ", ".join(sorted({g.short for g, _ in readers}))))
            continue
        stale = [w for w in ws if not any(isinstance(n, ast.Attribute) and n.attr == field and isinstance(n.ctx, ast.Store) for n in walk_no_nested_defs(w.node))]
        if stale:
            g, n = readers[0]
            chk.violation(rule, g.where(n), "`self.%s` is computed from the transition list in %s (`%s`) and read here, but %s rewrite(s) next_states without refreshing it: "
                          "after conditioning the cached value describes the unpruned game" % (field, init.short, norm_stmt(st), ", ".join(sorted(w.short for w in stale))),
                          expected="no cached function of next_states, or a refresh in every function that rewrites next_states", found=norm_stmt(st),
                          construct="stale cache %s" % field)
        else:
            chk.ok(rule, init.where(st), "field %s is derived from next_states and refreshed by every writer of next_states" % field)


def run(ctx, chk):
    shared.rule_no_keyed_collapse(ctx, chk, "C02.0:keyed", ("value_iteration_rewards", "prune_paths"))      # parallel transitions are separate transitions
    # observed through the batch driver: run_games()[name]['rewards'] must be this game's, this mode's value
    from . import C12 as _C12
    _C12.observe(ctx, chk, "C02.obs", ['rewards'])
    # the property speaks of every solve: nothing computed by one solve (a memo on the game object, on a class, in a module)
    # may be handed to the next one - a second solve of the same object, or of another game, would report stale values
    from . import C10 as _C10
    _C10.r2_no_carried_state(ctx, chk, "C02.pre:C10.2")
    r5_no_stale_transition_cache(ctx, chk)
    shared.rule_no_sweep_memo(ctx, chk, "C02.5b")
    r1_pipeline(ctx, chk)
    r2_kernels(ctx, chk)
    r3_sweep(ctx, chk)
    r4_restriction_argument(ctx, chk)
    # prerequisite: the conditioning (C03.1-3, C03.5)
    C03.r1(ctx, chk, "C02.pre:C03.1")
    C03.r23(ctx, chk, "C02.pre:C03.2", "C02.pre:C03.3")
    C03.r5_dispatch(ctx, chk, "C02.pre:C03.5")
    C03.r4_player_two(ctx, chk, "C02.pre:C03.4")     # clearing of cut-off states must spare everything still reachable
    # the nodes must start from the game's own transitions (a constructor that filters or de-duplicates them solves another game)
    shared.rule_node_keeps_transitions(ctx, chk, "C02.pre:C01.2")
    chk.require_instances("C02.1", 8)
    chk.require_instances("C02.2", 6)
    chk.require_instances("C02.3", 4)
