"""C01 - reported reachability probabilities are the max-min game values (structural part)."""
import ast

from ..loader import AnalysisError, attr_path, src, walk_no_nested_defs, walk_code, possible_strings, norm_stmt, call_name
from ..symx import SymX, classify, show, C, TRUE, FALSE, simp, mk_mul, mk_add, negate, UNBOUND, is_const, mentions, strip_perm, is_term
from ..nf import SELF_NEXT, SF
from . import kernels as K
from . import C07, shared

EXPLANATION = (
    "Decides the structural part of C01, not the numerical one: the three Bellman kernels have the normal forms "
    "SUM(0, p*R[t]) / MAX(<=0, R[t]) / MIN(>=1, R[t]) over the whole successor list (dispatch resolved through the "
    "repository's player->class table); reach_probability starts at 1 on finals and 0 elsewhere; it is written "
    "only by the constructor and by the sweep; the sweep's domain is the unmodified result of the backward search "
    "(prerequisites C07.2/4/5: complete and final-free); the sweep loop's exit test is exactly `change <= "
    "threshold`, with the change measure max|new-old| reset each sweep and the old value read before the store; "
    "the pruning flag reaches nothing but the 'no solution' raise. How close the floats are to the true value is "
    "NOT decided (no static bound on value-iteration error is in reach)."
    ' Also: nothing computed by one solve is handed to the next (pre:C10.2), and no kernel funnels its transitions through a dictionary keyed by a part of the transition (0:keyed).')
ASSUMPTIONS = [
    "input games are well-formed (validated before the solver runs: C09)",
    "reach probabilities lie in [0,1] (so constants <= 0 / >= 1 are identities of max / min)",
]
TECHNIQUE = "symbolic loop normal forms + field-write census + def-use slice of the prune flag (ast)"

REACH = "reach_probability"
SOLVER_VIR = "tad.py::Solver.value_iteration_reachability"
SOLVER_SR = "tad.py::Solver.solve_reachability"


def _init_le0_or_own(i):
    # max(old own value, successors): iterates from below stay below the least fixed point and still converge to it
    # (the limit is the least pre-fixed point), so seeding the maximum with the state's current value is harmless
    return K.INIT_LE0(i) or i == ("attr", ("v", "self"), REACH)


_init_le0_or_own.text = K.INIT_LE0.text + ", or the state's own current value"


def r1_kernels(ctx, chk, rule="C01.1"):
    roles = K.role_classes(ctx)
    for role, cls in roles.items():
        k = K.kernel(ctx, cls, "value_iteration_reach")
        where = k.func.where()
        kf = k.kfold(k.ret)
        what = "%s step of %s" % ({"max": "maximising", "min": "minimising", "avg": "averaging"}[role], cls)
        if role == "avg":
            term = mk_mul(("p",), SF(REACH))
            K.check_fold(chk, rule, where, kf, what, kind="SUM", term=term, init_ok=K.INIT_CONST(0), allow_neutral_filter=True,
                         found_text=show(k.ret))
        elif role == "max":
            K.check_fold(chk, rule, where, kf, what, kind="EXT", sense="max", term=SF(REACH), init_ok=_init_le0_or_own, found_text=show(k.ret))
        else:
            K.check_fold(chk, rule, where, kf, what, kind="EXT", sense="min", term=SF(REACH), init_ok=K.INIT_GE1, found_text=show(k.ret))


def r2_start(ctx, chk, rule="C01.2"):
    f = ctx.func("tad.py::Node.__init__")
    sx = SymX(ctx, f, "Node").run()
    stores = [e for e in sx.final.effects if e[1] == "store" and e[3] == REACH]
    if len(stores) == 2 and stores[0][2] == stores[1][2] == ("v", "self") and stores[1][0] == simp(("not", stores[0][0])):
        # `if c: self.reach_probability = a` / `else: self.reach_probability = b` is one store of `a if c else b`
        stores = [(TRUE, "store", ("v", "self"), REACH, simp(("ite", stores[0][0], stores[0][4], stores[1][4])))]
    if len(stores) > 1 and all(e[2] == ("v", "self") for e in stores) and ((("v", "self"), REACH) in sx.final.heap):
        # several assignments in a row (`= 0`, then `if final: = 1`): what the field holds when the constructor returns
        stores = [(TRUE, "store", ("v", "self"), REACH, sx.final.heap[(("v", "self"), REACH)])]
    if len(stores) != 1:
        chk.undecided(rule, f.where(), "%d stores to reach_probability in Node.__init__" % len(stores))
        return
    cond, _, base, _, val = stores[0]
    want = simp(("ite", ("truthy", ("v", "is_final_node")), C(1), C(0)))
    alt = ("call", "int", (("v", "is_final_node"),), ())
    if cond == TRUE and base == ("v", "self") and val in (want, alt, simp(("ite", ("truthy", ("v", "is_final_node")), C(1.0), C(0.0)))):
        chk.ok(rule, f.where(), "reach_probability := 1 if is_final_node else 0 (iteration starts from below)")
    elif cond == TRUE and (is_const(val) or val[0] == "ite"):
        chk.violation(rule, f.where(), "reach_probability starts at `%s`; value iteration from below needs 1 on final states and 0 elsewhere" % show(val),
                      expected="1 if is_final_node else 0", found=show(val), construct="Node.__init__ initial reach_probability")
    else:
        chk.undecided(rule, f.where(), "initial reach_probability `%s` under `%s` not recognised" % (show(val), show(cond)))
        return
    # the flag passed by init_states is `idx in self.final_states` with idx the state's own position
    try:
        T = shared.init_states_table(ctx)
    except AnalysisError as e:
        chk.undecided(rule, "tad.py StochasticGame.init_states", str(e))
        return
    g, L = T["f"], T["loop"]
    n = 0
    for (P, nonempty), t in T["rows"].items():
        if not nonempty or P == "<unknown player>":
            continue
        ctors = _collect_calls(t, set(ctx.cg.player_class.values()))
        if len(ctors) != 1:
            chk.undecided(rule, g.where(), "construction for a %s state not recognised: %s" % (P, show(t)[:120]))
            continue
        ctor = ctors[0]
        n += 1
        kws = dict(ctor[3])
        fin, idx = kws.get("is_final_node"), kws.get("idx")
        want_fin = simp(("cmp", "in", ("pos", L.id), ("attr", ("v", "self"), "final_states")))
        if fin is None or idx is None:
            chk.undecided(rule, g.where(), "%s(...) is not called with idx= and is_final_node= keywords" % ctor[1])
        elif idx != ("pos", L.id) or fin != want_fin:
            chk.violation(rule, g.where(), "%s is built with idx=%s, is_final_node=%s" % (ctor[1], show(idx), show(fin)),
                          expected="idx=<position>, is_final_node=(<position> in self.final_states)", found=show(fin),
                          construct="init_states final flag of %s" % ctor[1])
        else:
            chk.ok(rule, g.where(), "%s(idx=<position>, is_final_node=<position> in self.final_states)" % ctor[1])
    if n < 3:
        chk.undecided(rule, g.where(), "expected three node constructions in init_states, found %d" % n)


def _collect_calls(t, names, out=None):
    out = [] if out is None else out
    if isinstance(t, tuple):
        if t and t[0] == "call" and t[1] in names:
            out.append(t)
        for x in t:
            if isinstance(x, tuple):
                _collect_calls(x, names, out)
    return out


def field_writers(ctx, field, modules=("tad.py", "reverse_dfs.py")):
    """(function, node) for every store to <x>.<field>, code in lambdas / nested functions included.  setattr() counts when
    its name argument can be `field`; when the name is not determined the entry is (function, node, "dynamic")."""
    out = []
    for f in ctx.prog.all_funcs(modules):
        for n in walk_code(f.node):
            tgts = []
            if isinstance(n, ast.Assign):
                tgts = n.targets
            elif isinstance(n, (ast.AugAssign, ast.AnnAssign)):
                tgts = [n.target]
            for t in tgts:
                for x in ast.walk(t):
                    if isinstance(x, ast.Attribute) and x.attr == field and isinstance(x.ctx, ast.Store):
                        out.append((f, n))
            if isinstance(n, ast.Call) and call_name(n) == "setattr" and len(n.args) >= 2:
                names = possible_strings(ctx.prog, f, n.args[1])
                if names is None:
                    out.append((f, n, "dynamic"))
                elif field in names:
                    out.append((f, n))
    return out


def r3_writers(ctx, chk, rule="C01.3"):
    allowed = {"tad.py::Node.__init__", SOLVER_VIR}
    # private helpers of the sweep (every caller is the sweep or another such helper) count as the sweep
    changed = True
    while changed:
        changed = False
        for g in ctx.prog.all_funcs(("tad.py",)):
            if g.qual in allowed:
                continue
            callers = {c.qual for c, _ in ctx.cg.callers_of(g)}
            if callers and callers <= (allowed - {"tad.py::Node.__init__"}):
                allowed.add(g.qual)
                changed = True
    ws = field_writers(ctx, REACH)
    for w in [w for w in ws if len(w) == 3]:
        chk.undecided(rule, w[0].where(w[1]), "`%s`: attribute name not determined statically; it may write reach_probability" % norm_stmt(w[1]))
    ws = [w for w in ws if len(w) == 2]
    scope_q = {g.qual for g in shared.solver_scope(ctx)}
    for f, n in ws:
        if f.qual not in scope_q and f.qual not in allowed:
            chk.note("%s writes reach_probability but is not reachable from solve(): it cannot influence a reported value" % f.short)
            continue
        if f.qual in allowed:
            chk.ok(rule, f.where(n), "writer of reach_probability: `%s`" % norm_stmt(n))
        elif f in shared.restorers(ctx) or any(g_.qual == f.qual for g_ in shared.restorers(ctx)):
            chk.ok(rule, f.where(n), "`%s` in %s only puts the field back to what the constructor sets it to" % (norm_stmt(n), f.short))
        else:
            chk.violation(rule, f.where(n), "`%s` writes reach_probability outside the constructor and the reachability sweep: "
                          "reported probabilities are no longer the sweep's fixed point" % norm_stmt(n),
                          expected="writers: Node.__init__, Solver.value_iteration_reachability", found=f.short,
                          construct="%s writes reach_probability" % f.short)
    if len(ws) < 2:
        chk.undecided(rule, "-", "fewer than two writers of reach_probability found")
    # sweep domain = unmodified result of reverse_dfs(transition_list, final_states)
    f = ctx.func(SOLVER_SR)
    sx = SymX(ctx, f, "Solver", inline_depth=0).run()
    vir_calls = [e for e in _all_terms(sx) if e[0] == "mcall" and e[2] == "value_iteration_reachability"]
    if not vir_calls:
        # inlined? look for call through effects
        chk.undecided(rule, f.where(), "call of value_iteration_reachability not found in solve_reachability")
        return
    call = vir_calls[0]
    dom = call[3][0] if call[3] else dict(call[4]).get("states_reaching_final")
    want = ("call", "reverse_dfs", (("v", f.params[1]), ("v", f.params[2])), ())
    def _unwrapped(t):
        # a copy / reordering / set of the same states is the same domain
        while t is not None and t[0] == "call" and t[1] in ("sorted", "list", "tuple", "set", "frozenset", "reversed") and len(t[2]) == 1 and not t[3]:
            t = t[2][0]
        return t
    if _unwrapped(dom) == want:
        chk.ok(rule, f.where(), "sweep domain = reverse_dfs(%s, %s), passed on unmodified" % (f.params[1], f.params[2]))
    elif _unwrapped(dom) is not None and _unwrapped(dom)[0] == "call" and _unwrapped(dom)[1] == "reverse_dfs":
        # the backward search itself, asked another question (other arguments, further options)
        chk.violation(rule, f.where(), "the sweep domain is `%s`, not the unmodified result of the backward search over the game's transitions and final states" % show(dom)[:160],
                      expected=show(want), found=show(dom)[:160], construct="solve_reachability sweep domain")
    elif _unwrapped(dom) is not None and _unwrapped(dom)[0] == "compr" and _unwrapped(dom)[1] in sx.loops \
            and _unwrapped(sx.loops[_unwrapped(dom)[1]].source) == want and sx.loops[_unwrapped(dom)[1]].elt == ("elem", _unwrapped(dom)[1]) \
            and sx.loops[_unwrapped(dom)[1]].filters:
        L_ = sx.loops[_unwrapped(dom)[1]]
        fin_ = ("v", f.params[2])
        harmless = all(c_[0] == "cmp" and c_[1] == "notin" and c_[2] == ("elem", L_.id) and _unwrapped(c_[3]) == fin_ for c_ in L_.filters)
        if harmless:
            chk.ok(rule, f.where(), "sweep domain = the backward search's result without the final states (which it does not contain anyway)")
        else:
            chk.violation(rule, f.where(), "the sweep domain is the backward search's result FILTERED by `%s`: a state that fails the test can reach a final state and is never swept - "
                          "its probability stays at its initial value" % show(L_.filters[0])[:100], expected=show(want), found=show(L_.filters[0])[:120],
                          construct="solve_reachability sweep domain filtered")
    elif dom is None or mentions(dom, lambda x: x[0] in ("res", "apply", "compr") or (x[0] == "call" and x[1] not in ("reverse_dfs", "sorted", "list", "tuple", "set", "frozenset", "len", "range"))
                                 or (x[0] == "mcall" and x[1] == ("v", "self"))):
        chk.undecided(rule, f.where(), "the sweep domain is `%s`: how it derives from the backward search is not resolved" % (show(dom)[:100] if dom is not None else None))
    else:
        chk.violation(rule, f.where(), "the sweep domain is `%s`, not the unmodified result of the backward search over the game's transitions and final states" % show(dom),
                      expected=show(want), found=show(dom), construct="solve_reachability sweep domain")
    # solve() passes its own transition list / final states
    g = ctx.func("tad.py::StochasticGame.solve")
    sxg = SymX(ctx, g, "StochasticGame", inline_depth=0).run()
    sr = [e for e in _all_terms(sxg) if e[0] == "mcall" and e[2] == "solve_reachability"]
    if not sr:
        chk.undecided(rule, g.where(), "call of solve_reachability not found in solve()")
        return
    a = sr[0][3]
    want_a = (("attr", ("v", "self"), "transition_list"), ("attr", ("v", "self"), "final_states"))
    def _copy_of(t):
        while t[0] == "call" and t[1] in ("list", "tuple", "copy.copy", "copy.deepcopy") and len(t[2]) == 1 and not t[3]:
            t = t[2][0]
        return t
    if tuple(_copy_of(x) for x in a[:2]) == want_a:
        chk.ok(rule, g.where(), "solve() hands self.transition_list and self.final_states to the reachability solver")
    elif len(a) < 2 or any(mentions(x, lambda y: y[0] in ("res", "apply", "compr", "mcall") or (y[0] == "v" and y[1] != "self")) for x in a[:2]):
        chk.undecided(rule, g.where(), "solve_reachability receives (%s): not resolved to the game's own transition list and final states" % ", ".join(show(x)[:50] for x in a))
    else:
        chk.violation(rule, g.where(), "solve_reachability receives (%s)" % ", ".join(show(x) for x in a),
                      expected="(self.transition_list, self.final_states, self.prune_states)", found=", ".join(show(x) for x in a),
                      construct="solve() arguments of solve_reachability")


def _all_terms(sx):
    """All sub-terms occurring in the final environment, return value and effects of a symbolic run."""
    seen = []

    def walk(t):
        if isinstance(t, tuple):
            if is_term(t):
                seen.append(t)
            for x in t:
                walk(x)
    for v in sx.final.env.values():
        walk(v)
    for e in sx.final.effects:
        walk(e)
    for l in sx.loops.values():
        for u in l.update.values():
            walk(u)
        for e in l.effects:
            walk(e)
        if l.cond is not None:
            walk(l.cond)
    return seen


def sweep_nf(ctx, chk, rule, qual, fields, kernel_meth, domain_is_param):
    """Normal form of a `while diff > threshold` sweep. fields: [(field, slot or None)] written per element."""
    f = ctx.func(qual)
    # helper methods of the sweep (on the solver or on a node) are judged by content; the node kernels themselves are the reference
    # the sweep is compared with, they stay calls
    sx = SymX(ctx, f, "Solver", inline_depth=4, inline_foreign=True, unroll_literals=True, no_inline=("value_iteration_reach", "value_iteration_rewards")).run()
    whiles = [l for l in sx.loops.values() if l.kind == "while"]
    if len(whiles) != 1:
        chk.undecided(rule, f.where(), "%d while loops found; expected the single convergence loop" % len(whiles))
        return None
    W = whiles[0]
    where = f.where(W.node)
    thr = ("attr", ("v", "self"), "threshold")
    # exit test (optional solver settings that are constants at the one construction site are folded in: `max_iterations=None`)
    from ..symx import subst, deep_simp
    consts = {("attr", ("v", "self"), k_): C(v_) for k_, v_ in shared.solver_field_consts(ctx).items() if k_ != "threshold"}
    c = deep_simp(subst(W.cond, lambda x: consts.get(x))) if consts else W.cond
    # an unlimited budget (`max_iterations=math.inf`): `i < inf` holds for every count
    _inf = float("inf")
    c = deep_simp(subst(c, lambda x: TRUE if (x[0] == "cmp" and x[1] in ("<", "<=") and is_const(x[3]) and x[3][1] == _inf and not is_const(x[2])) else None))
    dvar = None
    anyform = _any_moved_form(sx, W, c, thr)
    if anyform is not None:
        dvar = anyform["var"]
        chk.ok(rule, where, "loop continues iff `%s`, which the sweep sets iff some state changed by more than self.threshold (exit <=> largest change <= threshold)" % dvar)
    elif c[0] == "cmp" and c[1] == "<" and c[2] == thr and c[3][0] == "acc" and c[3][1] == W.id:
        dvar = c[3][2]
        chk.ok(rule, where, "loop continues iff %s > self.threshold (exit <=> change <= threshold, nothing else)" % dvar)
    elif c[0] == "cmp" and c[1] == "<=" and c[2] == thr and c[3][0] == "acc":
        dvar = c[3][2]
        chk.ok(rule, where, "loop continues iff %s >= self.threshold" % dvar)
    else:
        accs = [x for x in _subterms(c) if x[0] == "acc" and x[1] == W.id]
        if c[0] in ("and", "or") or len(accs) > 1:
            chk.violation(rule, where, "the convergence loop's test `%s` contains more than the change-vs-threshold comparison: the loop can stop while the change is still above the threshold (or run on after convergence)" % show(c),
                          expected="while <change> > self.threshold", found=src(W.node.test), construct="%s loop test" % f.short)
        elif c[0] == "cmp" and c[2] != thr and c[3][0] == "acc":
            chk.violation(rule, where, "the convergence loop compares the change with `%s`, not with the solver's threshold" % show(c[2]),
                          expected="while <change> > self.threshold", found=src(W.node.test), construct="%s loop test" % f.short)
        else:
            sticky = _sticky_watch_list(W.node)
            if sticky:
                chk.violation(rule, where, sticky, expected="the loop runs until the largest change of the LAST sweep is within the threshold", found=src(W.node.test),
                              construct="%s sticky convergence marks" % f.short)
            else:
                chk.undecided(rule, where, "convergence loop test `%s` not recognised" % show(c))
        return None
    if W.has_break or W.has_return:
        chk.violation(rule, where, "the convergence loop has a second exit (break/return inside the loop)",
                      expected="single exit: change <= threshold", found="break/return", construct="%s loop second exit" % f.short)
        return None
    # initial change > threshold => at least one sweep
    init = W.init.get(dvar)
    thr_val = ctx.cache.get("threshold_value")
    if anyform is not None:
        k0 = anyform["init_const"]
        if init == C(True) or (k0 is not None and k0 > (thr_val if thr_val is not None else 0)):
            chk.ok(rule, where, "the loop is entered as after a change of %s > threshold: at least one sweep" % ("(unconditionally)" if init == C(True) else k0))
        else:
            chk.violation(rule, where, "the moved-flag starts as `%s`: the loop may not run a single sweep" % show(init),
                          expected="initial change > threshold", found=show(init), construct="%s initial change" % f.short)
    elif not (is_const(init) and isinstance(init[1], (int, float)) and init[1] > (thr_val if thr_val is not None else 0)):
        chk.violation(rule, where, "the change measure starts at `%s`: the loop may not run a single sweep" % show(init),
                      expected="initial change > threshold", found=show(init), construct="%s initial change" % f.short)
    else:
        chk.ok(rule, where, "initial change %s > threshold: at least one sweep" % show(init))
    # change' = MAX over the sweep of per-state change, reset each sweep
    up = W.update[dvar]
    if up[0] != "res":
        inner = [x for x in _subterms(up) if x[0] == "res" and x[1] in sx.loops]
        if up[0] in ("div", "mul", "add", "pow") and len(inner) == 1:
            chk.violation(rule, where, "the change measure compared with the threshold is `%s`, a rescaled / shifted version of the sweep's maximum: the loop stops at a different accuracy than the solver's threshold" % show(up),
                          expected="the largest per-state change of the sweep, unscaled", found=show(up), construct="%s change measure scaled" % f.short)
        else:
            chk.undecided(rule, where, "change measure update `%s` is not the result of the sweep loop" % show(up))
        return None
    F = sx.loops[up[1]]
    mv = up[2]
    # the node kernel may be called with further arguments that fill optional parameters (what the solver computed once per run
    # instead of once per sweep - possibly remembered in a table that the sweep itself fills on first use): for the shape of the
    # sweep all of these are "the kernel's result for this state"; what the kernel does with such an argument is judged with the
    # kernel, in its call context (C02.2 / C14.1)
    from . import kernels as _K
    slist_t = shared.SLIST(ctx)
    opt = {}
    for km in ("value_iteration_reach", "value_iteration_rewards"):
        ms = [m for m in (ctx.prog.resolve_method(c_, km) for c_ in _K.role_classes(ctx).values()) if m is not None]
        opt[km] = bool(ms) and all(all(p in m.defaults for p in [q for q in m.params if q != "self"][1:]) for m in ms)

    def _unify(t):
        return subst(t, lambda x: ("mcall", x[1], x[2], (x[3][0],), ()) if x[0] == "mcall" and x[2] in opt and opt[x[2]] and x[3] and x[3][0] == slist_t and (len(x[3]) > 1 or x[4]) else None)
    if any(x[0] == "mcall" and x[2] in opt and opt[x[2]] and (len(x[3]) > 1 or x[4]) for u_ in F.update.values() for x in _subterms(u_)):
        F.update = {v_: deep_simp(_unify(u_)) for v_, u_ in F.update.items()}
        F.effects = [tuple(deep_simp(_unify(x)) if isinstance(x, tuple) and x and isinstance(x[0], str) else x for x in e_) for e_ in F.effects]
    folds = classify(F)
    fo = folds.get(mv)
    fwhere = f.where(F.node)
    if anyform is not None:
        from ..symx import Fold
        fo = Fold("EXT", sense="max", strict=True, init=C(0), term=anyform["change"], cond=None, none_seeded=False, truthy_seed=False)
    if fo is None or fo.kind != "EXT" or fo.sense != "max":
        if fo is not None and fo.kind == "LAST":
            chk.violation(rule, fwhere, "the change measure is the change of the last state visited (`%s`), not the maximum over the sweep" % show(fo.value),
                          expected="max over all states of |new - old|", found=show(fo.value), construct="%s change measure" % f.short)
        elif fo is not None and fo.kind == "EXT":
            chk.violation(rule, fwhere, "the change measure takes the minimum over the sweep", expected="max", found="min",
                          construct="%s change measure" % f.short)
        else:
            wl = _worklist_sweep_flaw(F)
            if wl:
                chk.violation(rule, fwhere, wl, expected="a state is taken off the worklist before (not after) the states that depend on it are put on it",
                              found=norm_stmt(F.node), construct="%s worklist sweep order" % f.short)
            else:
                chk.undecided(rule, fwhere, "change measure not recognised as MAX fold: %s" % (fo,))
        return None
    if not (is_const(fo.init) and fo.init[1] == 0):
        chk.violation(rule, fwhere, "the per-sweep maximum starts from `%s` instead of being reset to 0 in each sweep: once large, the change never decreases / or changes are under-reported" % show(fo.init),
                      expected="max_diff = 0 at the start of every sweep", found=show(fo.init), construct="%s change reset" % f.short)
        return None
    whole = F.whole or strip_perm(F.source) != F.source
    if F.filter != TRUE and whole and not F.has_break and not F.has_return and any(x[0] in ("acc", "res") for x in _subterms(F.filter)):
        # which states are skipped is decided by marks that the sweeps themselves keep (settled / pending): a work-list design;
        # whether a skipped state could still change is not decided here
        wl = _worklist_sweep_flaw(F)
        if wl:
            chk.violation(rule, fwhere, wl, expected="a state is taken off the worklist before (not after) the states that depend on it are put on it",
                          found=norm_stmt(F.node), construct="%s worklist sweep order" % f.short)
        else:
            chk.undecided(rule, fwhere, "the sweep skips states by marks kept between sweeps (`%s`): whether a skipped state can still change is not decided" % show(F.filter)[:120])
        return None
    if F.filter != TRUE or not whole or F.has_break or F.has_return:
        chk.violation(rule, fwhere, "the sweep skips states (filter `%s`%s%s)" % (show(F.filter), ", slice" if not F.whole else "", ", early exit" if F.has_break or F.has_return else ""),
                      expected="every state of the domain is updated in every sweep", found=norm_stmt(F.node), construct="%s sweep partial" % f.short)
        return None
    return dict(f=f, sx=sx, W=W, F=F, fold=fo, where=fwhere, dvar=dvar)


def _any_moved_form(sx, W, c, thr):
    """`moving = 1 > thr; while moving: moving = False; for s in ...: if change(s) > thr: moving = True`.
    Only whether some state moved by more than the threshold is kept, not by how much: the same exit condition as
    `max change > thr`.  Returns {var, change, init_const} or None."""
    b = c[1] if c[0] == "truthy" else c
    if not (b[0] == "acc" and b[1] == W.id):
        return None
    var = b[2]
    up = W.update.get(var)
    if up is None or up[0] != "res" or up[1] not in sx.loops:
        return None
    F = sx.loops[up[1]]
    mv = up[2]
    if F.init.get(mv) != C(False):
        return None
    u = F.update.get(mv)
    acc = ("acc", F.id, mv)
    if not (u is not None and u[0] == "ite" and u[2] == C(True) and u[3] == acc and u[1][0] == "cmp" and u[1][1] == "<" and u[1][2] == thr
            and not mentions(u[1][3], lambda x: x[0] == "acc" and x[1] == F.id and x[2] == mv)):
        return None
    init = W.init.get(var)
    k0 = None
    if init is not None and init[0] == "cmp" and init[1] == "<" and init[2] == thr and is_const(init[3]) and isinstance(init[3][1], (int, float)):
        k0 = init[3][1]
    elif init != C(True):
        return None
    # as a running maximum: the update the other rules read
    F.update = dict(F.update)
    F.update[mv] = ("ite", ("cmp", "<", acc, u[1][3]), u[1][3], acc)
    F.init = dict(F.init)
    F.init[mv] = C(0)
    return dict(var=var, change=u[1][3], init_const=k0)


def _early_no_solution(ctx, f, test):
    """`prune and 0 not in <backward search result> and self.state_list[0].reach_probability == 0 [and ...]` in solve_reachability."""
    if not (isinstance(test, ast.BoolOp) and isinstance(test.op, ast.And)):
        return False
    cfg = ctx.cfg(f)
    has_out = has_zero = False
    for v in test.values:
        if isinstance(v, ast.Compare) and len(v.ops) == 1 and isinstance(v.ops[0], ast.NotIn) and isinstance(v.left, ast.Constant) and v.left.value == 0 \
                and isinstance(v.comparators[0], ast.Name):
            stmt = test
            while not isinstance(stmt, ast.stmt):
                stmt = stmt.parent
            defs = cfg.defs_reaching(stmt, v.comparators[0].id)
            if defs and all(isinstance(d, ast.Assign) and isinstance(d.value, ast.Call) and call_name(d.value) == "reverse_dfs" for d in defs):
                has_out = True
        if isinstance(v, ast.Compare) and len(v.ops) == 1 and isinstance(v.ops[0], ast.Eq) and src(v).replace(" ", "") in (
                "self.state_list[0].reach_probability==0", "0==self.state_list[0].reach_probability"):
            has_zero = True
    return has_out and has_zero


def _sticky_watch_list(wnode):
    """`while watched:` where the body only ever REMOVES entries from `watched` (a quantity / state is taken off the first time
    its change is within the threshold): being within the threshold once does not mean staying there - the quantities feed
    each other - so the loop can end while a quantity that was taken off is moving again."""
    if not isinstance(wnode, ast.While):
        return None
    t = wnode.test
    name = t.id if isinstance(t, ast.Name) else (t.args[0].id if isinstance(t, ast.Call) and call_name(t) == "len" and t.args and isinstance(t.args[0], ast.Name) else None)
    if name is None:
        return None
    removes, adds = [], []
    for n in ast.walk(wnode):
        if isinstance(n, ast.Call) and isinstance(n.func, ast.Attribute) and isinstance(n.func.value, ast.Name) and n.func.value.id == name:
            (removes if n.func.attr in ("remove", "discard", "pop", "clear") else adds if n.func.attr in ("append", "add", "extend", "update", "insert") else []).append(n)
        if isinstance(n, ast.Assign) and any(isinstance(x, ast.Name) and x.id == name for x in n.targets):
            adds.append(n)
    if removes and not adds:
        return ("the loop runs `while %s` and only ever takes entries off `%s` (`%s`): an entry that was within the threshold once is never watched again, "
                "so the iteration can stop while that quantity has started to move again" % (name, name, src(removes[0])))
    return None


def _worklist_sweep_flaw(F):
    """A sweep that only re-evaluates the states on a worklist (`if s not in pending: continue`): when the step that puts the
    dependants of a changed state on the worklist comes BEFORE the step that takes the state itself off, a state that depends
    on itself (a self-loop) removes the mark it has just received and is never evaluated again - its value freezes after one
    step.  Returns the explanation, or None when the loop is not of that shape / has the safe order."""
    node = F.node
    if not isinstance(node, ast.For):
        return None
    adds, drops = [], []
    for st in ast.walk(node):
        if isinstance(st, ast.Expr) and isinstance(st.value, ast.Call) and isinstance(st.value.func, ast.Attribute) and isinstance(st.value.func.value, ast.Name):
            m, recv = st.value.func.attr, st.value.func.value.id
            if m in ("update", "add", "extend", "append"):
                adds.append((recv, st))
            elif m in ("discard", "remove"):
                drops.append((recv, st))
    for recv, d in drops:
        same = [a for r_, a in adds if r_ == recv]
        # the set is also what decides whether a state is skipped
        tested = any(isinstance(c, ast.Compare) and any(isinstance(o, (ast.In, ast.NotIn)) for o in c.ops) and any(isinstance(x, ast.Name) and x.id == recv for x in c.comparators)
                     for c in ast.walk(node))
        if same and tested and all((a.lineno, a.col_offset) < (d.lineno, d.col_offset) for a in same):
            return ("the sweep re-evaluates only the states in `%s`; within one step the dependants of a changed state are put on it (`%s`) BEFORE the state itself is taken off (`%s`): "
                    "a state with a transition to itself loses the mark it has just received and is never evaluated again, so its value stops after one step" % (
                        recv, norm_stmt(same[0]), norm_stmt(d)))
    return None


def _subterms(t):
    out = []

    def walk(x):
        if isinstance(x, tuple):
            if is_term(x):
                out.append(x)
            for y in x:
                walk(y)
    walk(t)
    return out


def r4_sweep(ctx, chk, rule="C01.4"):
    from . import C04
    C04.threshold_chain(ctx)   # fills ctx.cache["threshold_value"]
    r = sweep_nf(ctx, chk, rule, SOLVER_VIR, None, None, True)
    if r is None:
        return
    f, sx, W, F, fo, where = r["f"], r["sx"], r["W"], r["F"], r["fold"], r["where"]
    dom_param = f.params[1]
    if strip_perm(F.source) != ("v", dom_param) and (strip_perm(F.source)[0] in ("res", "compr", "apply", "mcall") or (
            strip_perm(F.source)[0] == "call" and strip_perm(F.source)[1] in ("map", "zip", "enumerate", "filter", "itertools.chain") and mentions(F.source, lambda x: x == ("v", dom_param)))):
        # a list computed beforehand (a sweep plan, a pre-resolved table): how it derives from the search result is not followed
        chk.undecided(rule, where, "the sweep iterates `%s`; its relation to the search result `%s` is not resolved" % (show(F.source)[:80], dom_param))
        return
    if strip_perm(F.source) != ("v", dom_param):      # the order of a Gauss-Seidel sweep does not change its limit
        chk.violation(rule, where, "the sweep iterates `%s`, not the search result `%s`" % (show(F.source), dom_param),
                      expected="for s in %s" % dom_param, found=show(F.source), construct="value_iteration_reachability sweep domain")
        return
    slist = shared.SLIST(ctx)
    state = simp(("idx", slist, ("elem", F.id)))
    new = ("mcall", state, "value_iteration_reach", (slist,), ())
    old = ("attr", state, REACH)
    want_term = simp(("call", "abs", (mk_add(new, negate(old)),), ()))
    if fo.term != want_term:
        chk.violation(rule, where, "the per-state change is `%s`, specification: |value_iteration_reach(state) - state.reach_probability| with the old value read before the store" % show(fo.term),
                      expected=show(want_term), found=show(fo.term), construct="value_iteration_reachability per-state change")
        return
    stores = [e for e in F.effects if e[1] == "store" and e[3] == REACH]
    good = [e for e in stores if e[0] == TRUE and e[2] == state and e[4] == new]
    if len(stores) != 1 or len(good) != 1:
        e = stores[0] if stores else None
        chk.violation(rule, where, "the sweep's store is not `state.reach_probability := value_iteration_reach(state)` for every state of the domain: %s" % (
            "none" if e is None else "%s.%s := %s if %s" % (show(e[2]), e[3], show(e[4]), show(e[0]))),
            expected="unconditional store of the kernel's value", found="none" if e is None else show(e[4]) + " if " + show(e[0]),
            construct="value_iteration_reachability store")
        return
    chk.ok(rule, where, "SWEEP(domain=%s whole; R[s] := dispatch value_iteration_reach(s) unconditionally; change = MAX(0, |new - old|) reset per sweep)" % dom_param)


def r5_flag(ctx, chk, rule="C01.5"):
    """The pruning flag may be forwarded and may guard a raise; nothing else may depend on it."""
    n_inst = 0
    validated = set()
    for q in (SOLVER_SR, SOLVER_VIR):
        f = ctx.func(q)
        flag = f.params[-1]
        if "prune" not in flag:
            cands = [p for p in f.params if "prune" in p]
            if not cands:
                chk.ok(rule, f.where(), "%s takes no pruning flag at all" % f.short)
                continue
            flag = cands[0]
        for n in walk_no_nested_defs(f.node):
            if isinstance(n, ast.Name) and n.id == flag and isinstance(n.ctx, ast.Load):
                n_inst += 1
                p = n.parent
                # (a) forwarded as a call argument
                if isinstance(p, ast.Call) and (n in p.args or any(k.value is n for k in p.keywords)):
                    cs = ctx.cg.resolve(p, f)
                    if cs and all(c.qual in (SOLVER_VIR, SOLVER_SR) for c in cs):
                        chk.ok(rule, f.where(n), "flag `%s` forwarded to %s" % (flag, cs[0].short))
                        continue
                    # forwarded to a helper that uses it for nothing but the guard of a raise (the no-solution test, moved out)
                    if cs and len(cs) == 1 and q == SOLVER_VIR and _guard_only_helper(ctx, cs[0], p, n):
                        validated.add(cs[0].qual)
                        chk.ok(rule, f.where(n), "flag `%s` forwarded to %s, where it only guards a raise (its exact condition is judged by C06.2)" % (flag, cs[0].short))
                        continue
                    chk.violation(rule, f.where(n), "the pruning flag is passed to `%s`: reachability results may depend on it" % call_name(p),
                                  expected="flag only forwarded to the reachability sweep or guarding the 'no solution' raise",
                                  found=norm_stmt(ctx.cfg(f).stmt_of(n)), construct="%s flag passed to %s" % (f.short, call_name(p)))
                    continue
                # (b) in the test of an `if` whose body only raises
                st = ctx.cfg(f).stmt_of(n)
                # (b') the test is first stored in a local that is used as nothing but such a test
                if isinstance(st, ast.Assign) and len(st.targets) == 1 and isinstance(st.targets[0], ast.Name) and q == SOLVER_VIR:
                    tname = st.targets[0].id
                    uses = [u for u in ctx.cfg(f).uses_of(tname)]
                    ifs = [ctx.cfg(f).stmt_of(u) for u in uses]
                    stores_t = [x for x in walk_no_nested_defs(f.node) if isinstance(x, ast.Name) and x.id == tname and isinstance(x.ctx, ast.Store)]
                    if uses and len(stores_t) == 1 and all(isinstance(i, ast.If) and (i.test is u or (isinstance(i.test, ast.UnaryOp) and False)) and not i.orelse
                                                           and all(isinstance(b, ast.Raise) or _is_log(b) for b in i.body) and any(isinstance(b, ast.Raise) for b in i.body)
                                                           for i, u in zip(ifs, uses)):
                        chk.ok(rule, f.where(n), "flag `%s` enters `%s`, which is used only as the test guarding the no-solution raise" % (flag, tname))
                        continue
                if isinstance(st, ast.If) and _in(n, st.test) and all(isinstance(b, ast.Raise) or _is_log(b) for b in st.body) \
                        and any(isinstance(b, ast.Raise) for b in st.body) and not st.orelse:
                    if q == SOLVER_VIR:
                        chk.ok(rule, f.where(n), "flag `%s` guards only the no-solution raise (`if %s`; its exact condition is judged by C06.2)" % (flag, src(st.test)))
                    elif _early_no_solution(ctx, f, st.test):
                        chk.ok(rule, f.where(n), "flag `%s` guards an early no-solution raise: state 0 outside the backward search's result with (initial) value 0 is never swept, "
                               "so the documented test after the sweep gives the same verdict" % flag)
                    else:
                        chk.violation(rule, f.where(n), "`if %s: raise` in %s: with pruning requested the solver fails where without pruning it reports probabilities - "
                                      "the outcome of the reachability phase depends on the flag beyond the documented no-solution test" % (src(st.test), f.short),
                                      expected="the flag guards only the no-solution raise after the sweep", found=norm_stmt(st), construct="%s extra flag-guarded raise" % f.short)
                    continue
                # (b'') the inverted guard clause at the end of the sweep: `if <all is well>: return i` / `raise ...`
                if q == SOLVER_VIR and isinstance(st, ast.If) and _in(n, st.test) and not st.orelse and st.body and isinstance(st.body[-1], ast.Return) \
                        and all(_is_log(b) for b in st.body[:-1]) and not any(isinstance(x, ast.Name) and x.id == flag for x in ast.walk(st.body[-1])):
                    blk = getattr(st, "parent", None)
                    rest = []
                    if blk is not None:
                        for fld in ("body", "orelse", "finalbody"):
                            seq = getattr(blk, fld, None)
                            if isinstance(seq, list) and st in seq:
                                rest = seq[seq.index(st) + 1:]
                    if rest and all(isinstance(b, ast.Raise) or _is_log(b) for b in rest) and isinstance(rest[-1], ast.Raise) and blk is f.node:
                        chk.ok(rule, f.where(n), "flag `%s` decides only between `return` and the no-solution raise that follows (`if %s: return`; the exact condition is judged by C06.2)" % (flag, src(st.test)))
                        continue
                    # ... or between `return X` now and "raise or `return X`" later: the same value either way, only the raise depends on it
                    def _raise_or_same_return(b, ret=st.body[-1]):
                        if isinstance(b, ast.Raise) or _is_log(b):
                            return True
                        if isinstance(b, ast.Return):
                            return ast.dump(b) == ast.dump(ret)
                        if isinstance(b, ast.If):
                            return all(_raise_or_same_return(x) for x in b.body + b.orelse)
                        return False
                    if rest and blk is f.node and all(_raise_or_same_return(b) for b in rest) and any(isinstance(x, ast.Raise) for b in rest for x in ast.walk(b)) \
                            and isinstance(st.body[-1].value, (ast.Name, ast.Constant, type(None))):
                        chk.ok(rule, f.where(n), "flag `%s` decides only between `return %s` at once and the no-solution test followed by the same `return` (the exact condition is judged by C06.2)"
                               % (flag, src(st.body[-1].value) if st.body[-1].value is not None else ""))
                        continue
                chk.violation(rule, f.where(n), "`%s` depends on the pruning flag: the reported probabilities / strategies are not the same with pruning on and off" % norm_stmt(st),
                              expected="flag only forwarded or guarding the 'no solution' raise", found=norm_stmt(st),
                              construct="%s flag use in `%s`" % (f.short, norm_stmt(st)))
    # kernels and strategy extraction must not see the flag: they have no such parameter and no access path
    scope = ctx.cg.reachable([ctx.func(SOLVER_SR)])
    for g in scope:
        if g.qual in (SOLVER_SR, SOLVER_VIR) or g.qual in validated:
            continue
        for n in walk_no_nested_defs(g.node):
            nm = shared.solver_names(ctx)
            if (isinstance(n, ast.Attribute) and isinstance(n.ctx, ast.Load) and n.attr == nm["flag_field"] and not isinstance(getattr(n, "parent", None), ast.Call)) or \
                    (isinstance(n, ast.Name) and n.id in (nm["flag_param"], nm["flag_field"]) and isinstance(n.ctx, ast.Load)):
                chk.violation(rule, g.where(n), "%s reads the pruning flag: reachability depends on it" % g.short,
                              expected="no access to prune_states below solve_reachability", found=norm_stmt(ctx.cfg(g).stmt_of(n)),
                              construct="%s reads prune_states" % g.short)
    if n_inst < 2:
        chk.undecided(rule, "-", "fewer than two uses of the pruning flag found in the reachability functions")


def _guard_only_helper(ctx, g, call, arg):
    """g receives the flag as the parameter matching `arg` and every use of that parameter is in the test of an `if` without else
    whose body only raises (and logs); g returns nothing and stores nothing."""
    params = [a.arg for a in g.node.args.args]
    if params and params[0] == "self" and isinstance(call.func, ast.Attribute):
        params = params[1:]
    if arg in call.args:
        i = call.args.index(arg)
        if i >= len(params):
            return False
        pname = params[i]
    else:
        pname = next((k.arg for k in call.keywords if k.value is arg), None)
        if pname not in params:
            return False
    uses = [x for x in walk_no_nested_defs(g.node) if isinstance(x, ast.Name) and x.id == pname]
    if not uses or any(not isinstance(x.ctx, ast.Load) for x in uses):
        return False
    cfg = ctx.cfg(g)
    for x in uses:
        st = cfg.stmt_of(x)
        if not (isinstance(st, ast.If) and _in(x, st.test) and not st.orelse and any(isinstance(b, ast.Raise) for b in st.body)
                and all(isinstance(b, ast.Raise) or _is_log(b) for b in st.body)):
            return False
    # nothing else happens in the helper: tests, raises, logging, locals read from the solver's state
    for st in g.node.body:
        if isinstance(st, ast.Expr) and isinstance(st.value, ast.Constant):
            continue
        if isinstance(st, ast.Assign) and all(isinstance(t, ast.Name) for t in st.targets) and \
                not any(isinstance(x, (ast.Call, ast.Lambda, ast.NamedExpr, ast.Await)) for x in ast.walk(st.value)):
            continue
        if isinstance(st, ast.If) or _is_log(st) or (isinstance(st, ast.Return) and st.value is None):
            if isinstance(st, ast.If) and not all(isinstance(b, ast.Raise) or _is_log(b) for b in st.body + st.orelse):
                return False
            continue
        return False
    return True


def _in(n, tree):
    return any(x is n for x in ast.walk(tree))


_PURE_CALLS = {"max", "min", "round", "len", "sorted", "sum", "abs", "str", "int", "float", "list", "tuple", "set", "repr", "format", "enumerate", "zip", "range",
               "ValueError", "any", "all", "isinstance", "bool"}


def _is_log(st):
    """a statement of a raise-only block that cannot influence anything but the error that is raised: a log call, or the preparation
    of the error's diagnostics in locals (pure builtins only; attributes set on the freshly built exception object)"""
    if isinstance(st, ast.Expr) and isinstance(st.value, ast.Call) and call_name(st.value).startswith("logging."):
        return True

    def pure(e):
        for x in ast.walk(e):
            if isinstance(x, ast.Call) and not (call_name(x) in _PURE_CALLS or call_name(x).startswith("logging.")):
                return False
            if isinstance(x, (ast.Yield, ast.YieldFrom, ast.Await, ast.NamedExpr)):
                return False
        return True
    if isinstance(st, ast.Assign) and pure(st.value) and all(
            isinstance(t, ast.Name) or (isinstance(t, ast.Attribute) and isinstance(t.value, ast.Name) and t.value.id not in ("self", "state", "cls")) for t in st.targets):
        # attribute targets: only on a local that this block itself bound to a new exception object
        for t in st.targets:
            if isinstance(t, ast.Attribute):
                blk = getattr(st, "parent", None)
                made = [a for a in ast.walk(blk) if isinstance(a, ast.Assign) and any(isinstance(y, ast.Name) and y.id == t.value.id for y in a.targets)
                        and isinstance(a.value, ast.Call) and call_name(a.value) in ("ValueError",)] if blk is not None else []
                if not made:
                    return False
        return True
    if isinstance(st, ast.If) and pure(st.test) and all(_is_log(b) for b in st.body + st.orelse):
        return True
    return False


def run(ctx, chk):
    shared.rule_no_keyed_collapse(ctx, chk, "C01.0:keyed", ("value_iteration_reach",))      # parallel transitions are separate transitions
    # observed through the batch driver: run_games()[name]['probabilities'] must be this game's, this mode's value
    from . import C12 as _C12
    _C12.observe(ctx, chk, "C01.obs", ['probabilities'])
    # the property speaks of every solve: nothing computed by one solve (a memo on the game object, on a class, in a module)
    # may be handed to the next one - a second solve of the same object, or of another game, would report stale values
    from . import C10 as _C10
    _C10.r2_no_carried_state(ctx, chk, "C01.pre:C10.2")
    r1_kernels(ctx, chk)
    r2_start(ctx, chk)
    shared.rule_node_keeps_transitions(ctx, chk, "C01.2")
    r3_writers(ctx, chk)
    r4_sweep(ctx, chk)
    r5_flag(ctx, chk)
    from . import C02
    C02.solve_slot(ctx, chk, "C01.6", 3, REACH, "solve_reachability", "reachability probabilities")
    # prerequisites: the sweep domain is complete and final-free
    C07.r2_roots(ctx, chk, "C01.pre:C07.2")
    C07.r4_result(ctx, chk, "C01.pre:C07.4", order_matters=False)
    C07.r35_worklist(ctx, chk, "C01.pre:C07.3", "C01.pre:C07.5")
    chk.require_instances("C01.1", 3)
    chk.require_instances("C01.3", 4)
    chk.require_instances("C01.4", 3)
