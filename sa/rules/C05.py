"""C05 - final strategies are reward-optimal among reachability-optimal actions."""
import ast

from ..loader import AnalysisError, attr_path, src, walk_no_nested_defs, norm_stmt, call_name
from ..symx import SymX, classify, show, C, TRUE, FALSE, simp, is_const
from ..nf import SELF_NEXT, SF
from . import kernels as K
from . import C02, C03, C04, shared

EXPLANATION = (
    "The inclusion 'final strategy is a subset of the reachability strategy' is decided as a chain of static facts "
    "valid for every game: (a) the restriction by the *reported* reachability strategies dominates the reward solve "
    "(C02.1/C02.4 re-evaluated); (b) PlayerOne.prune_paths_reachability keeps exactly FILTER(S, action in best); (c) "
    "no later write to next_states can add a transition (C03.6); (d) the labels returned by the final-strategy "
    "extractor are drawn from the state's own (restricted) successor list; (e) the extractor runs after the reward "
    "sweep. The optimal-set clause is decided as normal forms ARGSET_MAX / ARGSET_MIN over round(E[t], d) with the "
    "role table P1->best, P2->worst, else None. Numerical optimality of the listed actions is NOT decided."
    ' Also: nothing computed by one solve is handed to the next (pre:C10.2), and no selection kernel funnels its transitions through a dictionary keyed by a part of the transition (0:keyed).'
    ' Tied actions are listed in transition order, never ordered by their labels (pre:C13.3).')
ASSUMPTIONS = ["expected rewards are >= 0", "action labels of one state are distinct (restriction is by label)"]
TECHNIQUE = "CFG dominance chain + symbolic arg-set / filter normal forms (ast)"

ER = "expected_rewards"


def r1_inclusion(ctx, chk, rule="C05.1"):
    roles = K.role_classes(ctx)
    p1 = roles["max"]
    # (b) restriction = FILTER(S, action in best)
    k = K.kernel(ctx, p1, "prune_paths_reachability")
    where = k.func.where()
    stores = [e for e in k.sx.final.effects if e[1] == "store" and e[3] == "next_states" and e[2] == ("v", "self")]
    param = ("v", [p for p in k.func.params if p != "self"][0])
    if len(stores) != 1 or stores[0][0] != TRUE:
        chk.undecided(rule, where, "prune_paths_reachability does not assign next_states exactly once, unconditionally")
    else:
        kf = k.kfold(stores[0][4])
        want_f = simp(("cmp", "in", ("p",), param))
        if kf is None or kf.kind != "COMPR":
            chk.undecided(rule, where, "restricted list `%s` is not a comprehension" % show(stores[0][4]))
        elif kf.source != SELF_NEXT or not kf.whole:
            chk.violation(rule, where, "restriction draws from `%s`, not the state's own successor list" % show(kf.source), expected="self.next_states",
                          found=kf.text(), construct="prune_paths_reachability source")
        elif kf.term not in (("e",), ("tup", (("p",), ("t",)))):
            chk.violation(rule, where, "restriction rewrites transitions as `%s`" % show(kf.term), expected="the transition itself", found=show(kf.term),
                          construct="prune_paths_reachability map")
        elif kf.filter != want_f:
            chk.violation(rule, where, "restriction keeps transitions where `%s`, specification: action in %s (and nothing else, no fallback)" % (show(kf.filter), param[1]),
                          expected=show(want_f), found=show(kf.filter), construct="prune_paths_reachability filter")
        else:
            chk.ok(rule, where, "(b) next_states := FILTER(self.next_states, action in %s), order kept, no fallback" % param[1])
        # a value-level fallback (`... or self.next_states`) shows up as boolval
        if any(t[0] == "boolval" for t in C02._sub(stores[0][4])):
            chk.violation(rule, where, "the restricted list has a fallback (`or`): when no listed action survives the whole list is kept",
                          expected="plain filter", found=show(stores[0][4]), construct="prune_paths_reachability fallback")
    # (d) labels drawn from S  + C05.2 normal forms
    # (e) extractor runs after the sweep
    f = ctx.func("tad.py::Solver.solve_total_rewards")
    cfg = ctx.cfg(f)
    sweep = C02.calls_of(f, "value_iteration_total_rewards")
    extr = C02.calls_of(f, "_get_total_rewards_strategies")
    if len(sweep) == 1 and len(extr) == 1 and cfg.dominates(sweep[0], extr[0]) and cfg.stmt_of(sweep[0]) is not cfg.stmt_of(extr[0]):
        chk.ok(rule, f.where(extr[0]), "(e) final strategies are extracted after the reward sweep has converged")
    else:
        chk.violation(rule, f.where(), "final strategies are not extracted after the reward sweep on every path", expected="sweep dominates extraction",
                      found="sweep calls %d, extraction calls %d" % (len(sweep), len(extr)), construct="solve_total_rewards order")
    # solve() returns slot 0 of solve_total_rewards as the final strategies
    g = ctx.func("tad.py::StochasticGame.solve")
    sx = SymX(ctx, g, "StochasticGame", inline_depth=0).run()
    ret = sx.ret
    fs = ret[1][0] if ret[0] == "tup" and ret[1] else None
    if fs is not None and fs[0] == "idx" and fs[2] == C(0) and fs[1][0] == "mcall" and fs[1][2] == "solve_total_rewards":
        chk.ok(rule, g.where(), "solve()[0] = solve_total_rewards()[0], unmodified")
    elif fs is not None and ((fs[0] == "idx" and fs[1][0] == "mcall" and fs[1][2] in ("solve_total_rewards", "solve_reachability")) or fs[0] in ("c", "list")):
        # another slot / the other phase's result / a constant: positively not the final strategies
        chk.violation(rule, g.where(), "solve()[0] is `%s`" % show(fs), expected="solve_total_rewards()[0]", found=show(fs), construct="solve() final strategies slot")
    else:
        chk.undecided(rule, g.where(), "solve() slot 0 is `%s`: not traced back to solve_total_rewards()[0]" % (show(fs) if fs is not None else show(ret))[:120])
    h = ctx.func("tad.py::Solver.solve_total_rewards")
    sh = SymX(ctx, h, "Solver", inline_depth=0).run()
    r0 = sh.ret[1][0] if sh.ret[0] == "tup" and sh.ret[1] else None
    if r0 == ("mcall", ("v", "self"), "_get_total_rewards_strategies", (), ()):
        chk.ok(rule, h.where(), "solve_total_rewards()[0] = self._get_total_rewards_strategies()")
    else:
        chk.violation(rule, h.where(), "solve_total_rewards()[0] is `%s`" % show(r0), expected="self._get_total_rewards_strategies()", found=show(r0),
                      construct="solve_total_rewards strategies slot")


def r2_argsets(ctx, chk, rule="C05.2"):
    roles = K.role_classes(ctx)
    # Player 1
    k = K.kernel(ctx, roles["max"], "get_best_strategies_total_rewards")
    ps = [p for p in k.func.params if p != "self"]
    key = K.ROUND(SF(ER), ("v", ps[1]))
    K.check_fold(chk, rule, k.func.where(), k.kfold(k.ret), "%s.get_best_strategies_total_rewards" % roles["max"], kind="ARGSET", sense="max",
                 term=key, init_ok=K.INIT_LE0, label=("p",), found_text=show(k.ret))
    # Player 2: [] if no successors else ARGSET_MIN(first)
    k = K.kernel(ctx, roles["min"], "get_worst_strategies_total_rewards")
    ps = [p for p in k.func.params if p != "self"]
    key = K.ROUND(SF(ER), ("v", ps[1]))
    r = k.ret
    where = k.func.where()
    empty_conds = (simp(("cmp", "==", C(0), ("call", "len", (SELF_NEXT,), ()))), simp(("not", ("truthy", SELF_NEXT))))
    body = None

    def says_empty(c):
        """c <=> the successor list is empty (directly, or through a list with one entry per successor)"""
        if c in empty_conds:
            return True
        if c[0] == "not" and c[1][0] == "truthy":
            le = k.listexpr(c[1][1])
            return le is not None and le[0] == SELF_NEXT and le[1] == TRUE and le[3]
        if c[0] == "cmp" and c[1] == "==" and C(0) in (c[2], c[3]):
            o = c[3] if c[2] == C(0) else c[2]
            if o[0] == "call" and o[1] == "len" and len(o[2]) == 1:
                le = k.listexpr(o[2][0])
                return le is not None and le[0] == SELF_NEXT and le[1] == TRUE and le[3]
        return False
    if r[0] == "ite" and says_empty(r[1]) and r[2] == ("list", ()):
        body = r[3]
    elif r[0] == "ite" and says_empty(simp(("not", r[1]))) and r[3] == ("list", ()):
        body = r[2]
    elif r[0] == "res":
        body = r
    if body is None:
        chk.undecided(rule, where, "get_worst_strategies_total_rewards return value not recognised: %s" % show(r))
        return
    kf = k.kfold(body)
    K.check_fold(chk, rule, where, kf, "%s.get_worst_strategies_total_rewards" % roles["min"], kind="ARGSET", sense="min", term=key,
                 init_ok=K.INIT_FIRST_OR_INF, label=("p",), found_text=show(body))
    if body is r and kf is not None and kf.of is not None and kf.of.init == ("first",):
        chk.violation(rule, where, "the minimum is seeded from next_states[0] without a guard for an empty successor list (a pruned Player-2 state raises IndexError)",
                      expected="[] for an empty list", found=show(r), construct="get_worst_strategies_total_rewards empty guard")


def r3_roles(ctx, chk, rule="C05.3"):
    C04.role_table(ctx, chk, rule, "tad.py::Solver._get_total_rewards_strategies",
                   "get_best_strategies_total_rewards", "get_worst_strategies_total_rewards")
    C04._call_sites_pass_floor(ctx, chk, rule, "tad.py::Solver._get_total_rewards_strategies",
                               ("get_best_strategies_total_rewards", "get_worst_strategies_total_rewards"))


def run(ctx, chk):
    from . import C13 as _C13
    _C13.r34_opacity(ctx, chk, "C05.pre:C13.3", "C05.pre:C13.4")      # tied actions are listed in transition order, never ordered by their labels
    shared.rule_no_keyed_collapse(ctx, chk, "C05.0:keyed", ("get_best_strategies_total_rewards", "get_worst_strategies_total_rewards", "prune_paths_reachability"))      # parallel transitions are separate transitions
    # observed through the batch driver: run_games()[name]['final_strategies', 'reachability_strategies'] must be this game's, this mode's value
    from . import C12 as _C12
    _C12.observe(ctx, chk, "C05.obs", ['final_strategies', 'reachability_strategies'])
    # (a) pipeline order and restriction argument
    # the property speaks of every solve: nothing computed by one solve (a memo on the game object, on a class, in a module)
    # may be handed to the next one - a second solve of the same object, or of another game, would report stale values
    from . import C10 as _C10
    _C10.r2_no_carried_state(ctx, chk, "C05.pre:C10.2")
    C02.r1_pipeline(ctx, chk, "C05.pre:C02.1")
    C02.r4_restriction_argument(ctx, chk, "C05.pre:C02.4")
    C03.r1(ctx, chk, "C05.pre:C03.1")      # the restriction must not skip elements of the list it rewrites
    C03.r23(ctx, chk, "C05.pre:C03.2", "C05.pre:C03.3")     # "permitted actions" are those of the conditioned game: exactly the dead branches are cut
    C02.r3_sweep(ctx, chk, "C05.pre:C02.3")    # the strategies are read off the rewards the sweep left behind: it must run to the threshold over every state
    r1_inclusion(ctx, chk)
    # (c) nothing adds to next_states afterwards
    C03.r6_monotone(ctx, chk, "C05.1c:C03.6")
    r2_argsets(ctx, chk)
    r3_roles(ctx, chk)
    C04.r2_precision(ctx, chk, "C05.2:precision")
    chk.require_instances("C05.1", 4)
    chk.require_instances("C05.2", 2)
