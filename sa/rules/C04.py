"""C04 - reachability strategies list exactly the value-optimal actions (selection rule)."""
import ast
import math

from ..loader import AnalysisError, NotConst, attr_path, src, walk_no_nested_defs, norm_stmt, call_name
from ..symx import SymX, classify, show, C, TRUE, FALSE, simp, is_const, is_term, mentions
from ..nf import SELF_NEXT, SF
from . import kernels as K, shared

EXPLANATION = (
    "Decides the selection rule, not float tie behaviour: the two strategy extractors are ARGSET_MAX / ARGSET_MIN "
    "over the whole successor list with key round(R[t], d), reset on a strictly better key and append on an equal "
    "key, listing action labels in list order; d is derived from the solver threshold (folded through "
    "Solver.__init__ from the literal passed in StochasticGame.solve) and 10^-d matches the threshold; the role "
    "table stores best for Player 1, worst for Player 2, None otherwise, at the state's own index for the whole "
    "state list; strategies are computed before and independently of any pruning. Whether two mathematically equal "
    "values computed along different float paths round to the same key is NOT decided."
    ' Also: the digits formula is folded for eight thresholds, not only the default (C04.2); nothing computed by one solve is handed to the next (pre:C10.2); no selection kernel funnels its transitions through a dictionary keyed by a part of the transition (0:keyed).')
ASSUMPTIONS = ["reach probabilities lie in [0,1]", "action labels are compared only for equality"]
TECHNIQUE = "symbolic arg-set normal forms + constant folding of the precision chain (ast)"

REACH = "reach_probability"


def threshold_chain(ctx):
    """(threshold value T, digits d, detail) folded from StochasticGame.solve -> Solver.__init__."""
    if "threshold_chain" in ctx.cache:
        return ctx.cache["threshold_chain"]
    prog = ctx.prog
    solve = ctx.func("tad.py::StochasticGame.solve")
    init = ctx.func("tad.py::Solver.__init__")
    T = None
    ctor = None
    for n in walk_no_nested_defs(solve.node):
        if isinstance(n, ast.Call) and isinstance(n.func, ast.Name) and n.func.id == "Solver":
            ctor = n
    if ctor is None:
        raise AnalysisError("Solver(...) construction not found in StochasticGame.solve")
    targ = None
    for k in ctor.keywords:
        if k.arg == "threshold":
            targ = k.value
    pos = [p for p in init.params if p != "self"]
    if targ is None and "threshold" in pos and len(ctor.args) > pos.index("threshold"):
        targ = ctor.args[pos.index("threshold")]
    if targ is None:
        targ = init.defaults.get("threshold")
    if targ is None:
        raise AnalysisError("no threshold value reaches Solver.__init__")
    configurable = None
    try:
        T = prog.const_eval(targ, solve.mod)
    except NotConst as e:
        # `Solver(threshold=self.threshold)`: a setting of the game object; its value is the constructor default unless a caller
        # passes another one - the rules below are evaluated for the default
        T = None
        p_ = attr_path(targ)
        ginit = prog.resolve_method(solve.cls.name, "__init__") if solve.cls is not None else None
        if p_ and p_.startswith("self.") and ginit is not None:
            for st in walk_no_nested_defs(ginit.node):
                if isinstance(st, ast.Assign) and len(st.targets) == 1 and attr_path(st.targets[0]) == p_ and isinstance(st.value, ast.Name) and st.value.id in ginit.defaults:
                    ok_, v_ = prog.try_const(ginit.defaults[st.value.id], ginit.mod)
                    if ok_ and isinstance(v_, (int, float)):
                        T, configurable = v_, st.value.id
        if T is None:
            raise AnalysisError("threshold expression `%s` is not a constant: %s" % (src(targ), e))
    d = None
    floor_expr = None
    thr_store = None
    for n in walk_no_nested_defs(init.node):
        if isinstance(n, ast.Assign) and len(n.targets) == 1:
            p = attr_path(n.targets[0])
            if p == "self.floor":
                floor_expr = n.value
            if p == "self.threshold":
                thr_store = n.value
    if floor_expr is None:
        raise AnalysisError("Solver.__init__ no longer derives self.floor")
    floor_expr0 = floor_expr

    def digits_for(tv):
        """self.floor for the threshold value tv: the expression folded with the constructor's parameter in place; a formula that
        lives in a straight-line helper of the solver (`self.precision_digits(threshold)`, a static method, a module function) is
        followed into it."""
        fe, env_ = floor_expr0, {"threshold": tv}
        if isinstance(fe, ast.Call) and isinstance(fe.func, ast.Attribute) and isinstance(fe.func.value, ast.Name) \
                and fe.func.value.id in ("self", "cls", init.cls.name if init.cls else "") and init.cls is not None:
            h = prog.resolve_method(init.cls.name, fe.func.attr)
            if h is not None and not fe.keywords:
                hp = [p_ for p_ in h.params if p_ not in ("self", "cls")]
                if len(hp) == len(fe.args):
                    env2 = {p_: prog.const_eval(a_, init.mod, env=env_) for p_, a_ in zip(hp, fe.args)}
                    return prog.eval_straightline(h, env2)
        return prog.const_eval(fe, init.mod, env=env_)
    try:
        d = digits_for(T)
    except NotConst as e:
        raise AnalysisError("self.floor expression `%s` does not fold: %s" % (src(floor_expr), e))
    # the same derivation for other thresholds a caller may construct the solver with (the property holds whatever the solver's
    # threshold is): a formula that agrees with the specification at the default only is found here
    others = {}
    for tv in (1e-6, 1e-3, 5e-4, 4e-5, 2e-6, 0.5, 1e-9, 3e-2):
        try:
            others[tv] = digits_for(tv)
        except NotConst:
            others[tv] = None
    out = dict(T=T, d=d, others=others, configurable=configurable, floor_src=src(floor_expr), thr_src=src(targ), thr_store=src(thr_store) if thr_store is not None else None,
               floor_uses_threshold=any(isinstance(x, ast.Name) and x.id == "threshold" for x in ast.walk(floor_expr)),
               where=init.where(), ctor_where=solve.where(ctor))
    ctx.cache["threshold_chain"] = out
    ctx.cache["threshold_value"] = T
    return out


def r1_argsets(ctx, chk, rule="C04.1"):
    roles = K.role_classes(ctx)
    for role, meth, sense, init_ok in (("max", "get_best_strategies_reachability", "max", K.INIT_LE0),
                                       ("min", "get_worst_strategies_reachability", "min", K.INIT_GE1)):
        cls = roles[role]
        k = K.kernel(ctx, cls, meth)
        ps = [p for p in k.func.params if p != "self"]
        if len(ps) < 2:
            chk.undecided(rule, k.func.where(), "%s no longer takes (state_list, digits)" % meth)
            continue
        key = K.ROUND(SF(REACH), ("v", ps[1]))
        K.check_fold(chk, rule, k.func.where(), k.kfold(k.ret), "%s.%s" % (cls, meth), kind="ARGSET", sense=sense, term=key,
                     init_ok=init_ok, label=("p",), found_text=show(k.ret))


def _dead_state_shortcut(ctx, f, sx, st, cond, entry_t):
    """`if state is not final and state.idx not in <backward search result>: strategy = [all actions]`.
    True: exactly that (a state from which no final state is reachable has value 0 and so has every successor: all actions tie);
    False: the shortcut also covers final states (whose own value is 1 but whose successors can have any value) or lists
    something else than all actions; None: not in this shape."""
    # `False if self.<result> is None else <test>`: "before the search has run nothing is short-cut" - on the path the rules judge
    # (the strategies are taken after the search) it is <test>
    if cond[0] == "ite" and len(cond) == 4 and cond[2] == FALSE and cond[1][0] == "cmp" and cond[1][1] in ("is", "==") and C(None) in (cond[1][2], cond[1][3]):
        cond = cond[3]
    elif cond[0] == "ite" and len(cond) == 4 and cond[3] == FALSE and cond[1][0] == "cmp" and cond[1][1] in ("isnot", "!=") and C(None) in (cond[1][2], cond[1][3]):
        cond = cond[2]
    conj = list(cond[1]) if cond[0] == "and" else [cond]
    fin = [c for c in conj if c in (simp(("not", ("truthy", ("attr", st, "is_final_node")))), ("cmp", "==", ("attr", st, "is_final_node"), C(False)))]
    reach_f, _final_f = shared.solver_search_fields(ctx)
    outside = [c for c in conj if c[0] == "cmp" and c[1] == "notin" and c[2] in (("attr", st, "idx"),) and mentions(c[3], lambda x: x[0] == "v" and x[1] in f.params and x[1] != "self")]
    by_field = [c for c in conj if c[0] == "cmp" and c[1] == "notin" and c[2] in (("attr", st, "idx"),)
                and mentions(c[3], lambda x: x[0] == "attr" and x[1] == ("v", "self") and x[2] in reach_f)]
    if not outside and not by_field:
        return None
    # the entry: every action label of the state, in order
    all_actions = False
    if entry_t[0] == "compr" and entry_t[1] in sx.loops:
        Lc = sx.loops[entry_t[1]]
        all_actions = Lc.source == ("attr", st, "next_states") and not Lc.filters and Lc.whole and Lc.elt == simp(("idx", ("elem", Lc.id), C(0)))
    if not all_actions:
        return None
    if by_field and not outside:
        others = [c for c in conj if c not in fin and c not in by_field and not (c[0] == "cmp" and c[1] in ("isnot", "!=") and c[3] == C(None))]
        if others:
            return None
        return True if fin else False
    # the parameter is the backward search's result at the (only) call site
    par = [x[1] for x in _sub(outside[0][3]) if x[0] == "v" and x[1] in f.params and x[1] != "self"][0]
    ok_site = False
    for g in ctx.prog.all_funcs(("tad.py",)):
        for call, cs in ctx.cg.call_sites(g):
            if f in cs or any(c_.qual == f.qual for c_ in cs):
                ps = [p_ for p_ in f.params if p_ != "self"]
                arg = None
                if par in ps and ps.index(par) < len(call.args):
                    arg = call.args[ps.index(par)]
                for k in call.keywords:
                    if k.arg == par:
                        arg = k.value
                if arg is None:
                    continue            # default None: the shortcut is off there
                if isinstance(arg, ast.Name):
                    defs = ctx.cfg(g).defs_reaching(ctx.cfg(g).stmt_of(call), arg.id)
                    ok_site = len(defs) == 1 and isinstance(next(iter(defs)), ast.Assign) and isinstance(next(iter(defs)).value, ast.Call) \
                        and call_name(next(iter(defs)).value) == "reverse_dfs"
                    if not ok_site:
                        return None
                else:
                    return None
    if not ok_site:
        return None
    others = [c for c in conj if c not in fin and c not in outside and not (c[0] == "cmp" and c[1] in ("isnot", "!=") and c[3] == C(None))]
    if others:
        return None
    return True if fin else False


def r2_precision(ctx, chk, rule="C04.2"):
    tc = threshold_chain(ctx)
    T, d = tc["T"], tc["d"]
    if not isinstance(d, int) or isinstance(d, bool) or not isinstance(T, (int, float)) or T <= 0:
        chk.violation(rule, tc["where"], "rounding digits fold to %r for threshold %r" % (d, T), expected="an integer number of digits",
                      found=tc["floor_src"], construct="Solver.__init__ floor")
        return
    if not tc["floor_uses_threshold"]:
        chk.violation(rule, tc["where"], "self.floor = %s does not depend on the threshold" % tc["floor_src"],
                      expected="digits derived from the threshold", found=tc["floor_src"], construct="Solver.__init__ floor constant")
    elif not (10.0 ** -d <= T * (1 + 1e-9) and 10.0 ** -d > (T / 10) * (1 + 1e-9)) or d < 1:
        chk.violation(rule, tc["where"], "rounding to %d digits does not match the threshold %g (10^-%d = %g)" % (d, T, d, 10.0 ** -d),
                      expected="threshold/10 < 10^-d <= threshold", found="d=%d from `%s`" % (d, tc["floor_src"]),
                      construct="Solver.__init__ floor mismatch")
    else:
        def _fits(tv, dv):
            return isinstance(dv, int) and not isinstance(dv, bool) and dv >= 1 and 10.0 ** -dv <= tv * (1 + 1e-9) and 10.0 ** -dv > (tv / 10) * (1 + 1e-9)
        bad = [(tv, dv) for tv, dv in sorted(tc.get("others", {}).items()) if dv is not None and not _fits(tv, dv)]
        if bad:
            tv, dv = bad[0]
            chk.violation(rule, tc["where"], "self.floor = %s matches the default threshold but gives %r digits for a solver constructed with threshold %g (10^-d must lie in "
                          "(threshold/10, threshold]): values that differ by more than the threshold are rounded together, or equal values apart" % (tc["floor_src"], dv, tv),
                          expected="threshold/10 < 10^-d <= threshold for every threshold", found="d=%r for threshold %g" % (dv, tv), construct="Solver.__init__ floor formula")
        else:
            chk.ok(rule, tc["where"], "threshold %g (from `%s` at %s) -> self.floor = %s = %d; 10^-%d matches the threshold (and the formula does for %d other thresholds)" % (
                T, tc["thr_src"], tc["ctor_where"], tc["floor_src"], d, d, sum(1 for v in tc.get("others", {}).values() if v is not None)))
    if tc["thr_store"] != "threshold":
        chk.violation(rule, tc["where"], "self.threshold is `%s`, not the constructor's threshold" % tc["thr_store"],
                      expected="self.threshold = threshold", found=tc["thr_store"], construct="Solver.__init__ threshold store")
    # the precision / threshold / state list of a solver are fixed at construction
    for fld in ("floor", "threshold", shared.solver_names(ctx)["field"]):
        from .C01 import field_writers
        fw = [w for w in field_writers(ctx, fld) if len(w) == 2 and isinstance(w[1], (ast.Assign, ast.AugAssign, ast.AnnAssign))]
        ws = [(g, n) for g, n in fw if attr_path(n.targets[0] if isinstance(n, ast.Assign) else n.target) == "self." + fld
              and g.cls is not None and g.cls.name == "Solver"]
        outside = [(g, n) for g, n in ws if g.name != "__init__"]
        if outside:
            g, n = outside[0]
            chk.violation(rule, g.where(n), "`%s` changes the solver's %s after construction: strategy extraction and value iteration no longer use one precision / state list" % (norm_stmt(n), fld),
                          expected="Solver.%s assigned only in __init__" % fld, found=g.short, construct="%s writes Solver.%s" % (g.short, fld))
    # both call sites pass self.floor (and the solver's own state list)
    for q in ("tad.py::Solver._get_reachability_strategies",):
        _call_sites_pass_floor(ctx, chk, rule, q, ("get_best_strategies_reachability", "get_worst_strategies_reachability"))


def _through_locals(f, text, depth=0):
    """Source text of an argument with plain local names replaced by what they were assigned (once) in f; None when a name is
    assigned more than once or from something that is not an expression of self's fields / constants."""
    try:
        e = ast.parse(text, mode="eval").body
    except SyntaxError:
        return None
    if not isinstance(e, ast.Name) or depth > 4:
        return text
    vals = []
    for n in walk_no_nested_defs(f.node):
        if isinstance(n, ast.Assign):
            for t in n.targets:
                if isinstance(t, ast.Name) and t.id == e.id:
                    vals.append(n.value)
                elif isinstance(t, (ast.Tuple, ast.List)) and isinstance(n.value, (ast.Tuple, ast.List)) and len(t.elts) == len(n.value.elts):
                    for a, b in zip(t.elts, n.value.elts):
                        if isinstance(a, ast.Name) and a.id == e.id:
                            vals.append(b)
                elif any(isinstance(x, ast.Name) and x.id == e.id for x in ast.walk(t)):
                    vals.append(None)
        elif isinstance(n, (ast.AugAssign, ast.AnnAssign, ast.For, ast.comprehension, ast.NamedExpr, ast.withitem)):
            tgt = getattr(n, "target", None) or getattr(n, "optional_vars", None)
            if tgt is not None and any(isinstance(x, ast.Name) and x.id == e.id for x in ast.walk(tgt)):
                vals.append(None)
    if e.id in f.params:
        return None
    if len(vals) != 1 or vals[0] is None:
        return None
    return _through_locals(f, src(vals[0]), depth + 1)


def _call_sites_pass_floor(ctx, chk, rule, q, meths):
    f = ctx.func(q)
    n = 0
    for c in walk_no_nested_defs(f.node):
        if isinstance(c, ast.Call) and isinstance(c.func, ast.Attribute) and c.func.attr in meths:
            n += 1
            args = [src(a) for a in c.args] + ["%s=%s" % (k.arg, src(k.value)) for k in c.keywords]
            callee = ctx.cg.resolve(c, f)
            ps = [p for p in callee[0].params if p != "self"] if callee else ["state_list", "floor"]
            amap = dict(zip(ps, [src(a) for a in c.args]))
            amap.update({k.arg: src(k.value) for k in c.keywords})
            amap = {k_: _through_locals(f, v_) for k_, v_ in amap.items()}
            want = {ps[1]: "self.floor", ps[0]: "self." + shared.solver_names(ctx)["field"]}
            if all(amap.get(k_) == v_ for k_, v_ in want.items()):
                chk.ok(rule, f.where(c), "%s(self.%s, self.floor)" % (c.func.attr, shared.solver_names(ctx)["field"]))
            elif any(amap.get(k_) is None for k_ in want):
                chk.undecided(rule, f.where(c), "%s is called with (%s): where the precision / state list argument comes from is not resolved" % (c.func.attr, ", ".join(args)))
            else:
                chk.violation(rule, f.where(c), "%s is called with (%s)" % (c.func.attr, ", ".join(args)),
                              expected="(self.state_list, self.floor)", found=", ".join(args),
                              construct="%s precision argument of %s" % (f.short, c.func.attr))
    if n == 0:
        # no syntactic call site (e.g. dispatch through a helper / operator.methodcaller): the role-table rule compares the
        # symbolic call, including its (state_list, floor) arguments
        chk.note("%s: no syntactic call site of %s in %s; arguments are judged by the role-table normal form" % (rule, meths, f.short))
    elif n < len(meths):
        chk.undecided(rule, f.where(), "expected call sites of %s in %s, found %d" % (meths, f.short, n))


GETTERS = ("get_best_strategies_reachability", "get_worst_strategies_reachability", "get_best_strategies_total_rewards", "get_worst_strategies_total_rewards")


def role_table(ctx, chk, rule, q, best, worst):
    """strategies = [None]*n; P1 -> best, P2 -> worst, stored at state.idx for the whole list."""
    f = ctx.func(q)
    sx = SymX(ctx, f, "Solver", inline_depth=2, unroll_literals=True).run()      # a shared private helper / a (player, method) table is judged by its content
    ret = sx.ret
    where = f.where()
    if ret[0] != "res":
        chk.undecided(rule, where, "return value `%s` is not the result of the dispatch loop" % show(ret))
        return
    L = sx.loops[ret[1]]
    v = ret[2]
    slist = shared.SLIST(ctx)
    init = L.init.get(v)
    want_init = ("repeat", ("list", (C(None),)), ("call", "len", (slist,), ()))
    if init not in (want_init, ("repeat", want_init[2], want_init[1])):
        chk.violation(rule, where, "the strategy table starts as `%s`" % show(init), expected="[None] * len(self.state_list)",
                      found=show(init), construct="%s table init" % f.short)
        return
    if L.source != slist or not L.whole or L.has_break or L.has_return:
        # (a `continue` skips the rest of one iteration, not a state: what it skips shows in the update term below)
        chk.violation(rule, f.where(L.node), "the dispatch loop does not visit the whole state list (`%s`%s)" % (
            show(L.source), ", early exit" if (L.has_break or L.has_return) else ""),
            expected="for state in self.state_list", found=norm_stmt(L.node), construct="%s loop coverage" % f.short)
        return
    acc = ("acc", L.id, v)
    st = ("elem", L.id)
    fl = ("attr", ("v", "self"), "floor")

    def entry(meth):
        return ("setitem", acc, ("attr", st, "idx"), ("mcall", st, meth, (slist, fl), ()))

    def cond(player):
        return simp(("cmp", "==", ("attr", st, "player"), C(player)))
    from ..symx import path_simp
    u = path_simp(L.update[v])
    want1 = simp(("ite", cond("Player 1"), entry(best), simp(("ite", cond("Player 2"), entry(worst), acc))))
    want2 = simp(("ite", cond("Player 2"), entry(worst), simp(("ite", cond("Player 1"), entry(best), acc))))
    if u in (want1, want2):
        chk.ok(rule, f.where(L.node), "Player 1 -> %s, Player 2 -> %s, probabilistic -> None; stored at state.idx; whole state list" % (best, worst))
        return
    # the same table written differently (guard clauses with `continue`, a method picked first and called afterwards): compare
    # the update case by case on the owner of the state
    from ..symx import subst, deep_simp
    pl = ("attr", st, "player")

    def norm(t):
        # a bound method that is called is a method call; so is Class.method(obj, ...) when no subclass overrides the method
        def g(x):
            if x[0] == "apply" and len(x) == 4 and x[1][0] == "call" and x[1][1] == "getattr" and len(x[1][2]) == 2 and is_const(x[1][2][1]) and isinstance(x[1][2][1][1], str):
                return ("mcall", x[1][2][0], x[1][2][1][1], x[2], x[3])          # getattr(obj, "name")(...) is obj.name(...)
            if x[0] == "apply" and len(x) == 4 and x[1][0] == "attr":
                if x[1][1][0] == "v" and x[1][1][1] in ctx.prog.classes:
                    cname, m = x[1][1][1], x[1][2]
                    if x[2] and not any(m in ctx.prog.classes[c].methods for c in ctx.prog.subclasses(cname, strict=True)):
                        return ("mcall", x[2][0], m, tuple(x[2][1:]), x[3])
                    return None
                return ("mcall", x[1][1], x[1][2], x[2], x[3])
            return None
        t = subst(t, g)

        def h(x):
            # further arguments that fill optional parameters of the node method (a table computed once per call): what the method
            # does with them is judged with the method (rule 1, in this call context); the role table is about who gets which method
            if x[0] == "mcall" and x[1] == st and x[2] in (best, worst) and (len(x[3]) > 2 or x[4]) and x[3][:2] == (slist, fl):
                ms = [ctx.prog.resolve_method(c, x[2]) for c in K.role_classes(ctx).values()]
                ms = [m for m in ms if m is not None]
                if ms and all(all(p in m.defaults for p in [q for q in m.params if q != "self"][2:]) for m in ms):
                    return ("mcall", x[1], x[2], x[3][:2], ())
            return None
        return subst(t, h)
    cases = {"Player 1": entry(best), "Player 2": entry(worst), "<any other owner>": acc}
    rc = K.role_classes(ctx)
    owner_class = {"Player 1": rc.get("max"), "Player 2": rc.get("min"), "<any other owner>": rc.get("avg")}

    def poly(t, owner):
        """`state.m(...)` where every node class has its own m (one method name, the class of the state picks the body): for a state
        of this owner the call is the call of its class's m - another name of the spec method, a one-line forwarder to it, or a stub
        that returns None."""
        cn = owner_class.get(owner)

        def g(x):
            if x[0] == "mcall" and x[1] == st and x[2] not in (best, worst) and cn in ctx.prog.classes:
                m = ctx.prog.resolve_method(cn, x[2])
                if m is None:
                    return None
                if m.name != x[2] and m.name in (best, worst):
                    return ("mcall", st, m.name, x[3], x[4])
                body = [s_ for s_ in m.node.body if not (isinstance(s_, ast.Expr) and isinstance(s_.value, ast.Constant))]
                if not body or all(isinstance(s_, ast.Pass) for s_ in body) or (len(body) == 1 and isinstance(body[0], ast.Return) and (
                        body[0].value is None or (isinstance(body[0].value, ast.Constant) and body[0].value.value is None))):
                    return C(None)
                if len(body) == 1 and isinstance(body[0], ast.Return) and isinstance(body[0].value, ast.Call) and isinstance(body[0].value.func, ast.Attribute) \
                        and isinstance(body[0].value.func.value, ast.Name) and body[0].value.func.value.id == "self" and not body[0].value.keywords:
                    ps = [p_ for p_ in m.params if p_ != "self"]
                    if [a_.id if isinstance(a_, ast.Name) else None for a_ in body[0].value.args] == ps and len(ps) == len(x[3]) and not x[4]:
                        return ("mcall", st, body[0].value.func.attr, x[3], ())
            # a method looked up on its class (`PlayerOne.get_best...`) is an object, not None
            if x[0] == "cmp" and x[1] in ("isnot", "is", "!=", "==") and x[3] == C(None) and x[2][0] == "attr" and x[2][1][0] == "v" and x[2][1][1] in ctx.prog.classes \
                    and ctx.prog.resolve_method(x[2][1][1], x[2][2]) is not None:
                return C(x[1] in ("isnot", "!="))
            # the spec methods return a list on every path: `is not None` of their result is settled
            if x[0] == "cmp" and x[1] in ("isnot", "is", "!=", "==") and x[3] == C(None) and x[2][0] == "mcall" and x[2][1] == st and x[2][2] in (best, worst) \
                    and cn in ctx.prog.classes and _never_none(ctx.prog.resolve_method(cn, x[2][2])):
                return C(x[1] in ("isnot", "!="))
            return None
        for _ in range(3):
            t2 = deep_simp(subst(t, g))
            if t2 == t:
                break
            t = t2
        return t
    same = True
    for owner, want in cases.items():
        got = norm(poly(norm(deep_simp(subst(u, lambda x: C(owner) if x == pl else None))), owner))
        if got != want:
            same = False
            import os
            if os.environ.get("SA_DEBUG"): print("ROLE", owner, show(got), "WANT", show(want))
    if same and not any(t == pl for t in _sub(init)):
        chk.ok(rule, f.where(L.node), "Player 1 -> %s, Player 2 -> %s, any other owner -> None (case by case on state.player); stored at state.idx; whole state list" % (best, worst))
        return
    # a player state that gets the result of ANOTHER method of its node (the table of the other phase, the other player's getter)
    for owner, want in list(cases.items())[:2]:
        got = norm(poly(norm(deep_simp(subst(u, lambda x: C(owner) if x == pl else None))), owner))
        if got[0] == "setitem" and got[1] == acc and got[2] == want[2] and got[3][0] == "mcall" and got[3][1] == st and got[3][2] != want[3][2] \
                and got[3][2] in GETTERS:
            chk.violation(rule, f.where(L.node), "a %s state is given `%s(...)`, specification: `%s(...)` - the reported strategy is read off another quantity / another player's rule" % (
                owner, got[3][2], want[3][2]), expected=show(want), found=show(got)[:200], construct="%s wrong getter for %s" % (f.short, owner))
            return
    # a player state whose entry is, under some further condition, something else than what its node method returns
    accepted = 0
    for owner, want in list(cases.items())[:2]:
        got = norm(poly(norm(deep_simp(subst(u, lambda x: C(owner) if x == pl else None))), owner))
        if got[0] == "ite" and want in (got[2], got[3]):
            other = got[3] if got[2] == want else got[2]
            if other[0] == "setitem" and other[1] == acc and other[3] != want[3] and not (other[3][0] == "mcall" and other[3][1] == st):
                oc = got[1] if got[3] == want else simp(("not", got[1]))
                lemma = _dead_state_shortcut(ctx, f, sx, st, oc, other[3])
                if lemma is True:
                    chk.ok(rule, f.where(L.node), "a non-final %s state outside the backward search's result lists all its actions directly: such a state and all its successors have value 0, "
                           "so every action attains the optimum (the node method would return the same list)" % owner)
                    accepted += 1
                    continue
                if lemma is None:
                    chk.undecided(rule, f.where(L.node), "the entry of a %s state is `%s` under `%s`: whether that equals the node's optimal-action set there is not decided" % (
                        owner, show(other[3])[:60], show(oc)[:100]))
                    return
                chk.violation(rule, f.where(L.node), "the entry of a %s state is `%s` instead of %s(...) when `%s`: the reported strategy is not the node's optimal-action set" % (
                    owner, show(other[3])[:80], want[3][2], show(got[1] if got[3] == want else simp(("not", got[1])))[:120]),
                    expected=show(want), found=show(got)[:200], construct="%s conditional entry" % f.short)
                return
    if accepted == 2:
        rest = list(cases.items())[2:]
        if all(norm(poly(norm(deep_simp(subst(u, lambda x: C(o_) if x == pl else None))), o_)) == w_ for o_, w_ in rest) and not any(t == pl for t in _sub(init)):
            chk.ok(rule, f.where(L.node), "otherwise Player 1 -> %s, Player 2 -> %s, any other owner -> None; stored at state.idx; whole state list" % (best, worst))
            return
    # diagnose: which part differs
    calls = [t for t in _sub(u) if t[0] == "mcall" and t[2] in (best, worst)]
    conds = [t for t in _sub(u) if t[0] == "cmp" and t[1] == "=="]
    swapped = simp(("ite", cond("Player 1"), entry(worst), simp(("ite", cond("Player 2"), entry(best), acc))))
    if any(t[0] in ("res", "apply", "compr") or (t[0] == "acc" and t[1] != L.id) or (t[0] == "mcall" and t[1] == st and t[2] not in GETTERS) for t in _sub(u)):
        chk.undecided(rule, f.where(L.node), "the dispatch goes through a nested loop / table / function value that is not resolved: %s" % show(u)[:160])
    elif u == swapped:
        chk.violation(rule, f.where(L.node), "roles exchanged: Player 1 gets %s, Player 2 gets %s" % (worst, best),
                      expected=show(want1), found=show(u), construct="%s roles" % f.short)
    elif len(calls) == 2 and len(conds) == 2:
        chk.violation(rule, f.where(L.node), "role table differs from the specification (index, arguments or condition)",
                      expected=show(want1), found=show(u), construct="%s role table" % f.short)
    elif len(calls) < 2:
        chk.violation(rule, f.where(L.node), "a role is missing from the table: only %s" % [c[2] for c in calls],
                      expected=show(want1), found=show(u), construct="%s role missing" % f.short)
    else:
        chk.undecided(rule, f.where(L.node), "dispatch loop update not recognised: %s" % show(u))


def _never_none(m):
    """Every exit of the method returns a list it built (a display, a comprehension, a local that only ever holds one)."""
    if m is None:
        return False
    fn = m.node
    lists = (ast.List, ast.ListComp)
    holds = {}
    for x in ast.walk(fn):
        if isinstance(x, ast.Assign):
            for t in x.targets:
                for n in ast.walk(t):
                    if isinstance(n, ast.Name):
                        holds.setdefault(n.id, []).append(x.value if n is t else None)
        elif isinstance(x, (ast.AugAssign, ast.AnnAssign, ast.For, ast.With, ast.NamedExpr)):
            t = x.target if not isinstance(x, ast.With) else None
            for n in ast.walk(t) if t is not None else ():
                if isinstance(n, ast.Name):
                    holds.setdefault(n.id, []).append(getattr(x, "value", None) if isinstance(x, ast.AnnAssign) and n is t else None)
    rets = [x for x in ast.walk(fn) if isinstance(x, ast.Return)]
    if not rets or not isinstance(fn.body[-1], ast.Return):
        return False
    for r in rets:
        v = r.value
        if isinstance(v, lists):
            continue
        if isinstance(v, ast.Name) and v.id not in m.params and holds.get(v.id) and all(isinstance(h, lists) for h in holds[v.id]):
            continue
        return False
    return True


def _sub(t):
    out = []

    def walk(x):
        if isinstance(x, tuple):
            if is_term(x):
                out.append(x)
            for y in x:
                walk(y)
    walk(t)
    return out


def r3_roles(ctx, chk, rule="C04.3"):
    role_table(ctx, chk, rule, "tad.py::Solver._get_reachability_strategies",
               "get_best_strategies_reachability", "get_worst_strategies_reachability")


def next_states_writers(ctx):
    """Functions that assign or mutate a node's next_states (constructor excluded)."""
    from . import shared
    pt = shared.solver_pointsto(ctx)
    ws = set()
    from .C13 import _construction_only
    for s in pt.field_stores:
        if s.field == "next_states" and s.func.name != "__init__" and not _construction_only(ctx, s.func, 0):
            ws.add(s.func)
    ns_objs = pt.get(("field", "next_states"))
    for e in pt.effects:
        if e.recv & ns_objs and e.func.name != "__init__":
            # filling a list that this very invocation has just created (and that only later becomes a next_states value)
            # builds a new value, it does not rewrite an existing transition list
            if shared.is_fresh_local(ctx, e.func, e.node, e.recv_expr):
                continue
            ws.add(e.func)
    rest = {g_.qual for g_ in shared.restorers(ctx)}
    return {w for w in ws if w.qual not in rest}        # (a `reset` that restores the constructor's list rewrites nothing)


def r4_before_pruning(ctx, chk, rule="C04.4"):
    sr = ctx.func("tad.py::Solver.solve_reachability")
    scope = ctx.cg.reachable([sr])
    ws = next_states_writers(ctx)
    bad = [g for g in scope if g in ws]
    if bad:
        for g in bad:
            chk.violation(rule, g.where(), "%s modifies next_states and is reachable from solve_reachability: strategies are extracted from a pruned game" % g.short,
                          expected="no pruning inside the reachability phase", found=" -> ".join(x.short for x in (ctx.cg.path(sr, g) or [g])),
                          construct="%s pruning inside reachability" % g.short)
    else:
        chk.ok(rule, sr.where(), "no function reachable from solve_reachability (%d) writes next_states (writers: %s)" % (
            len(scope), sorted(g.short for g in ws)))
    # strategies returned by solve() are the ones computed there
    f = ctx.func("tad.py::StochasticGame.solve")
    sx = SymX(ctx, f, "StochasticGame", inline_depth=2).run()      # private phase helpers of solve() are looked through
    ret = sx.ret
    if ret[0] == "tup" and len(ret[1]) >= 2:
        rs = ret[1][1]
        srcall = [t for t in _sub(rs) if t[0] == "mcall" and t[2] == "solve_reachability"]
        if not srcall and any(t[0] == "mcall" and t[1] == ("v", "self") for t in _sub(rs)):
            chk.undecided(rule, f.where(), "solve()[1] is `%s`: produced by a helper that was not resolved" % show(rs)[:120])
        elif rs[0] == "idx" and rs[2] == C(0) and srcall:
            chk.ok(rule, f.where(), "solve() returns slot 0 of solve_reachability(...) as the reachability strategies, unmodified")
        else:
            chk.violation(rule, f.where(), "solve()[1] is `%s`, not the strategies returned by solve_reachability" % show(rs),
                          expected="solve_reachability(...)[0]", found=show(rs), construct="solve() reachability strategies slot")
    else:
        chk.undecided(rule, f.where(), "solve() return value not a tuple: %s" % show(ret))


def run(ctx, chk):
    shared.rule_no_keyed_collapse(ctx, chk, "C04.0:keyed", ("get_best_strategies_reachability", "get_worst_strategies_reachability"))      # parallel transitions are separate transitions
    # observed through the batch driver: run_games()[name]['reachability_strategies'] must be this game's, this mode's value
    from . import C12 as _C12
    _C12.observe(ctx, chk, "C04.obs", ['reachability_strategies'])
    from . import C01
    # the property speaks of every solve: nothing computed by one solve (a memo on the game object, on a class, in a module)
    # may be handed to the next one - a second solve of the same object, or of another game, would report stale values
    from . import C10 as _C10
    _C10.r2_no_carried_state(ctx, chk, "C04.pre:C10.2")
    r1_argsets(ctx, chk)
    r2_precision(ctx, chk)
    r3_roles(ctx, chk)
    shared.rule_node_keeps_transitions(ctx, chk, "C04.pre:C01.2")
    r4_before_pruning(ctx, chk)
    C01.r5_flag(ctx, chk, "C04.4:flag")
    # the strategies are extracted from the values the sweep left behind: they are the value-optimal actions only if the sweep
    # runs to the threshold over every state that can reach a final state
    from . import C07
    C01.r4_sweep(ctx, chk, "C04.pre:C01.4")
    C01.r3_writers(ctx, chk, "C04.pre:C01.3")
    C07.r2_roots(ctx, chk, "C04.pre:C07.2")
    C07.r4_result(ctx, chk, "C04.pre:C07.4", order_matters=False)
    C07.r35_worklist(ctx, chk, "C04.pre:C07.3", "C04.pre:C07.5")
    chk.require_instances("C04.1", 2)
    chk.require_instances("C04.2", 1)
