"""Specification-side helpers for kernel normal forms (used by C01, C02, C03, C04, C05, C13, C14)."""
from ..loader import AnalysisError
from ..nf import Kernel, KFold, SELF_NEXT, SF, const_value
from ..symx import show, simp, C, TRUE, FALSE, is_const, mk_mul, mk_add, key, mentions

ROLES = {"Player 1": "max", "Player 2": "min", "Probabilistic": "avg"}


def role_classes(ctx):
    """role -> class name, from the repository's own dispatch (init_states)."""
    pc = ctx.cg.player_class
    if len(pc) != 3 or len(set(pc.values())) != 3:
        raise AnalysisError("init_states dispatches %d player kinds to %d node classes (%s); the specification knows exactly the three documented kinds" % (
            len(pc), len(set(pc.values())), sorted(pc)))
    out = {}
    for player, role in ROLES.items():
        if player not in pc:
            raise AnalysisError("init_states no longer maps %r to a node class" % player)
        out[role] = pc[player]
    return out


def kernel(ctx, cls, meth):
    f = ctx.prog.resolve_method(cls, meth)
    if f is None:
        raise AnalysisError("anchor method missing: %s.%s" % (cls, meth))
    k = ctx.cache.get(("kernel", f.qual, cls))
    if k is None:
        k = Kernel(ctx, f.qual, cls, inline_foreign=True)
        ctx.cache[("kernel", f.qual, cls)] = k
    return k


def neutral_sum_filter(flt, term):
    """A SUM may skip an element under a test that one factor of its term is non-zero."""
    if flt == TRUE:
        return True
    factors = term[1] if term[0] == "mul" else (term,)
    for x in factors:
        if flt in (simp(("cmp", "!=", x, C(0))), simp(("cmp", "<", C(0), x)), simp(("cmp", "!=", C(0), x))):
            return True
    return False


def init_is(pred_text, pred):
    pred.text = pred_text
    return pred


def INIT_LE0(i):
    return i is None or i == ("first",) or (is_const(i) and isinstance(i[1], (int, float)) and not isinstance(i[1], bool) and i[1] <= 0)


INIT_LE0.text = "a constant <= 0 (identity of max over values >= 0), or the value at the first element"


def INIT_GE1(i):
    return i is None or i == ("first",) or (is_const(i) and isinstance(i[1], (int, float)) and not isinstance(i[1], bool) and i[1] >= 1)


INIT_GE1.text = "a constant >= 1 (identity of min over probabilities), or the value at the first element"


def INIT_FIRST_OR_INF(i):
    return i is None or i == ("first",) or (is_const(i) and isinstance(i[1], float) and i[1] == float("inf"))


INIT_FIRST_OR_INF.text = "the value at the first element (or +inf)"


def INIT_CONST(c):
    def p(i):
        return is_const(i) and i[1] == c and not isinstance(i[1], bool)
    p.text = "the constant %r" % (c,)
    return p


def INIT_TERM(t):
    def p(i):
        return i == t
    p.text = show(t)
    return p


KNOWN_PURE = {"round", "abs", "len", "max", "min", "int", "float", "sum", "str", "bool", "math.floor", "math.log", "math.ceil", "math.log10", "pow", "divmod"}


def opaque(t):
    """The term contains the result of a call that was not resolved (unknown function value, helper that was not inlined,
    method of another object): a mismatch with the specification proves nothing."""
    return mentions(t, lambda x: x[0] in ("apply", "mcall") or (x[0] == "call" and x[1] not in KNOWN_PURE)
                    # a table handed in by the caller and not resolved (`rounded[k]`), a list value in the middle of a key, an unknown
                    # call context: the term is not the method's own arithmetic
                    or (x[0] == "idx" and x[1][0] in ("v", "ite", "compr", "res"))
                    or (x[0] == "v" and isinstance(x[1], str) and x[1].startswith("__ctx_")))


def _foreign_list(src_t):
    """the iterated list is (possibly) a parameter or the unresolved result of a call: not one of the node's own lists
    (for a conditional between lists: one of the alternatives is - the condition itself does not matter)"""
    if src_t[0] == "ite":
        return _foreign_list(src_t[2]) or _foreign_list(src_t[3])
    return mentions(src_t, lambda x: (x[0] == "v" and x[1] != "self") or x[0] == "apply"
                    or (x[0] == "attr" and x[1] == ("v", "self") and x[2] != "next_states")          # a memo kept on the node: what it holds is not known here
                    or (x[0] == "mcall" and not (x[2] in ("items", "values", "keys") and x[1][0] in ("compr", "dict")))   # a view of a dictionary built here is the node's own doing
                    or (x[0] == "call" and x[1] not in KNOWN_PURE))


def check_fold(chk, rule, where, kf, what, *, kind, term=None, sense=None, init_ok=None, source=SELF_NEXT,
               filt=TRUE, allow_neutral_filter=False, found_text=None, label=None, need_ties=True, strict_must=None):
    """Compare a canonical fold with a specification row. Returns True if discharged."""
    expected = spec_text(kind, sense, term, init_ok, source, filt, label)
    if kf is None:
        chk.undecided(rule, where, "%s: not brought to a fold normal form (%s)" % (what, found_text or "unrecognised construct"))
        return False
    found = kf.text()
    if "__ctx_" in found:
        # alternatives that agree in every call context fold away
        from ..symx import deep_simp, path_simp
        for o in (kf, getattr(kf, "of", None)):
            if o is not None and isinstance(getattr(o, "term", None), tuple):
                o.term = path_simp(deep_simp(o.term))
            if o is not None and isinstance(getattr(o, "filter", None), tuple):
                o.filter = path_simp(deep_simp(o.filter))
        found = kf.text()
    if "__ctx_" in found:
        # the fold still depends on which call context holds: it was not brought to one form for all of them
        chk.undecided(rule, where, "%s: built as %s, which differs between the call contexts of the method; equivalence with %s not established" % (what, found[:200], expected))
        return False
    if kind == "ARGSET" and kf.kind in ("OTHER", "ARGSET") and (kf.has_break or kf.has_return) and kf.source == source:
        # whatever the stop test is: an action further down the list that ties with the optimum is never looked at
        chk.violation(rule, where, "%s: the loop is left early (%s): successors after that point are never examined, so an action that ties with the optimum there is not listed" % (
            what, "break" if kf.has_break else "return inside the loop"), expected=expected, found=found, construct="%s %s" % (where.split(" ", 1)[-1], what))
        return False
    if kf.kind in ("OTHER", "LAST", "UNCHANGED", None) or (kf.kind == "ARGSET" and kf.of is None):
        why = _broken_fold(kf, kind)
        if why:
            chk.violation(rule, where, "%s: %s" % (what, why), expected=expected, found=found, construct="%s %s" % (where.split(" ", 1)[-1], what))
            return False
        chk.undecided(rule, where, "%s: loop not recognised as a fold: %s" % (what, found))
        return False
    probs = []
    if kf.kind != kind:
        scalar = ("SUM", "EXT")
        if kf.kind in scalar and kind in scalar or (kind in ("ARGSET",) and kf.kind in scalar) or (kind in scalar and kf.kind == "ARGSET"):
            probs.append("is a %s fold, specification requires %s" % (kf.kind, kind))
        elif kind == "EXT" and kf.kind == "ARG" and kf.of is not None and kf.of.kind == "EXT" and isinstance(kf.term, tuple) and kf.term != kf.of.term \
                and not opaque(kf.term) and not opaque(kf.of.term):
            # the value of one quantity at the successor that is extreme in ANOTHER quantity is not the extremum of the first
            probs.append("takes `%s` at the successor with the %s `%s`, specification: the %s of `%s` itself" % (
                show(kf.term), "smallest" if kf.of.sense == "min" else "largest", show(kf.of.term), sense or kf.of.sense, show(term) if term is not None else show(kf.term)))
        else:
            # a different but possibly equivalent construction (comprehension, collect...): cannot decide
            chk.undecided(rule, where, "%s: built as %s; equivalence with %s not established" % (what, found, expected))
            return False
    else:
        ext = kf.of if kind in ("ARGSET", "ARG") else kf
        if getattr(ext, "band", None) is not None:
            probs.append("the running optimum is replaced under `%s`, a comparison within a tolerance band rather than an exact comparison of keys: "
                         "such a relation is not transitive, so the selected set depends on the order of the transitions" % show(ext.band))
        if getattr(ext, "truthy_seed", False):
            probs.append("the running optimum counts as 'not set yet' whenever it is falsy (`not best`): a legitimate best value of 0 is thrown away at every step, "
                         "so with all-zero successors only the last action is listed (and a zero minimum is never kept)")
        if sense and ext.sense != sense:
            probs.append("takes the %s where the %s is required" % (ext.sense, sense))
        t = ext.term if kind in ("ARGSET", "ARG") else kf.term
        if term is not None and t != term and isinstance(t, tuple):
            from ..symx import deep_simp, path_simp
            t2 = path_simp(deep_simp(t))
            if t2 == term:
                t = t2                # the same key once conditionals that agree on both branches are folded away
        if term is not None and t != term and opaque(t):
            chk.undecided(rule, where, "%s: the folded term `%s` goes through a call that is not resolved statically; equivalence with `%s` not established" % (what, show(t), show(term)))
            return False
        if term is not None and t != term:
            probs.append("folds `%s`, specification folds `%s`" % (show(t), show(term)))
        if init_ok is not None and not init_ok(ext.init if kind in ("ARGSET", "ARG") else kf.init):
            i = ext.init if kind in ("ARGSET", "ARG") else kf.init
            probs.append("starts from %s, specification requires %s" % ("value at first element" if i == ("first",) else show(i) if i is not None else "nothing", init_ok.text))
        if kind == "ARGSET":
            if getattr(kf, "key_mismatch", None):
                probs.append("the optimum is taken over `%s` but an action is listed when its `%s` equals it: two different quantities are compared "
                             "(the list is empty or wrong whenever they differ)" % (show(kf.key_mismatch[0]), show(kf.key_mismatch[1])))
            if label is not None and kf.label != label:
                probs.append("lists `%s`, specification lists `%s`" % (show(kf.label), show(label)))
            if kf.ties == "band":
                probs.append("ties are judged by `%s`, a comparison within a tolerance, while a better key resets the list by an exact comparison: 'equal within tolerance' is not "
                             "transitive, so which actions end up listed together depends on the order of the transitions (and on float noise in the values)" % show(kf.tie_cond))
            elif kf.ties == "inconsistent":
                probs.append("the list is reset when `%s` is strictly better but ties are judged by `%s`: values that round to the same key do not tie consistently "
                             "(an equally optimal earlier action is dropped)" % (show(ext.term), show(kf.tie_cond)))
            elif need_ties and not kf.ties:
                probs.append("the tie branch (append on equal key) is missing: only the first optimal action is listed")
            if not ext.strict:
                probs.append("resets the list on a non-strictly better key (ties overwrite instead of accumulate)")
            if kf.init != ("list", ()):
                probs.append("the result list starts from %s, not []" % show(kf.init))
        if strict_must is not None and ext.strict is not None and ext.strict != strict_must:
            probs.append("comparison is %s, must be %s" % ("strict" if ext.strict else "non-strict", "strict" if strict_must else "non-strict"))
    if kf.source != source and isinstance(kf.source, tuple) and _foreign_list(kf.source):
        chk.undecided(rule, where, "%s: iterates `%s`, a list that is handed in / computed elsewhere and not resolved to the successor list; equivalence with %s not established" % (
            what, show(kf.source)[:120], expected))
        return False
    if kf.source != source:
        probs.append("iterates `%s`, specification iterates `%s`" % (show(kf.source), show(source)))
    if not kf.whole:
        probs.append("iterates a slice of the successor list")
    if kf.filter != filt:
        if not (allow_neutral_filter and kf.kind == "SUM" and neutral_sum_filter(kf.filter, kf.term)):
            probs.append("skips elements unless `%s` (specification: %s)" % (show(kf.filter), "no filter" if filt == TRUE else show(filt)))
    if kf.has_break:
        probs.append("leaves the loop early (break): later successors are never examined")
    if kf.has_return:
        probs.append("returns from inside the loop: later successors are never examined")
    if probs:
        chk.violation(rule, where, "%s: %s" % (what, "; ".join(probs)), expected=expected, found=found,
                      construct="%s %s" % (where.split(" ", 1)[-1], what))
        return False
    chk.ok(rule, where, "%s = %s" % (what, found), expected=expected)
    return True


def _broken_fold(kf, kind):
    """Recognisable ways in which a selection loop is *not* the specified fold (as opposed to merely written differently)."""
    u = getattr(kf, "term", None)
    if kind == "EXT" and kf.kind == "UNCHANGED":
        return "the accumulator is never updated inside the loop: the result is its start value, whatever the successors are"
    if not isinstance(u, tuple) or not u:
        return None
    if kind == "ARGSET" and u[0] == "ite":
        c1, a, rest = u[1], u[2], u[3]
        def is_acc(x):
            return isinstance(x, tuple) and x and x[0] == "acc"
        single = a[0] == "list" and len(a[1]) == 1
        # reset on `key < CONSTANT`: the running optimum is compared but never updated
        if single and c1[0] == "cmp" and c1[1] in ("<", "<=") and (is_const(c1[2]) or is_const(c1[3])) and not mentions(c1, is_acc):
            return ("the list is reset whenever the key is better than the constant `%s`: the running optimum is compared but never updated, so later, worse "
                    "successors replace the list" % show(c1[2] if is_const(c1[2]) else c1[3]))
        if single and rest[0] == "ite" and is_acc(rest[3]) and rest[2][0] == "cat" and is_acc(rest[2][1]):
            t = rest[1]
            if t[0] == "cmp" and t[1] == "!=":
                return "an action is appended when its key DIFFERS from the running optimum (`%s`): the tie test is negated" % show(t)
        # the 'strictly better' branch leaves the list as it is: ite(better, acc, ite(tie, acc ++ [l], acc))
        if is_acc(a) and rest[0] == "ite" and is_acc(rest[3]) and rest[2][0] == "cat" and is_acc(rest[2][1]) and c1[0] == "cmp" and c1[1] in ("<", "<=") and mentions(c1, is_acc):
            return "when a strictly better key is found the list is left as it is (not reset to the new action): actions of worse successors stay listed and the better one is missing"
        # no reset branch at all: ite(tie, acc ++ [l], acc)
        if a[0] == "cat" and is_acc(a[1]) and is_acc(rest) and c1[0] == "cmp" and c1[1] == "==":
            return "actions are appended on a tie but the list is never reset when a strictly better key is found: actions of worse successors stay listed"
    return None


def spec_text(kind, sense, term, init_ok, source, filt, label):
    s = kind
    if sense:
        s += "_" + sense.upper()
    parts = []
    if init_ok is not None:
        parts.append("init: " + init_ok.text)
    if term is not None:
        parts.append(("key " if kind in ("ARGSET", "ARG") else "") + show(term))
    if label is not None:
        parts.append("label " + show(label))
    s += "(" + "; ".join(parts) + ") over " + show(source)
    if filt != TRUE:
        s += " where " + show(filt)
    return s


def ROUND(x, d):
    return ("call", "round", (x, d), ())
