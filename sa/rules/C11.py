"""C11 - every accepted parameter set yields a loadable, proper three-game file."""
import ast

from ..loader import AnalysisError, attr_path, src, walk_no_nested_defs, norm_stmt, call_name
from ..symx import SymX, show, C, TRUE, FALSE, simp, is_const
from ..genabs import Game, Poly, Undecided, WrongRowCount, position_cases, CaseEval, FRESH, P1, P2, PR
from . import C08, C02, shared

EXPLANATION = (
    "(1) output template: the text written by write_preamble / write_robot_A/B/C in call order is reconstructed "
    "symbolically; outside the dictionary every line starts with '#' or is empty for every number of rows and "
    "columns (interpolated pieces are newline-free), and with each game expression replaced by a placeholder the "
    "text parses (ast.parse of the template, not of repository code) as one dict display with exactly the keys "
    "game_a, game_b, game_c; (2) the .replace chain applied to str(game) is whitespace-only and no string constant "
    "that can occur inside a game contains a pattern; (3) well-formedness of the abstract games for every case of "
    "the exact partition: len(rewards) = len(players) = len(transition_list) = total*n_tiles + 2, every block "
    "appends exactly one non-empty entry per tile, every target index lies in [0, n-1], label slots are strings on "
    "player blocks and numbers on probabilistic blocks, probabilities of every probabilistic entry sum to 1 as "
    "polynomials and each is one of 1, p, 1-p with p a parameter that check_input confines to (0,1); final state = "
    "the absorbing winning state, losing state absorbing (C08.2); (4) the reader evaluates the unmodified file text "
    "and rejects non-dicts. 'Then solved or reported unsolvable' is C06/C09's claim, not decided here."
    ' Also: the game writers keep no module-level state between calls (0:state) and change no mutable default argument (0:defaults).'
    ' No one-shot iterator is walked twice or kept at module level (0:iter); no dictionary is keyed by a probability and its complement (0:keys).')
ASSUMPTIONS = [
    "moves in {0,1,2,3}, loose flags in {0,1}, length x width tables (C15.4/5 for generated boards; an assumption for boards passed in by hand)",
    "the manual entry point performs no parameter validation: positivity of probabilities there is the caller's obligation",
]
TECHNIQUE = "symbolic output-template reconstruction + abstract game well-formedness over polynomial index domain (ast)"

GAME_STRINGS_EXTRA = ["rewards", "players", "transition_list", "final_states"]


def _writes(sx, effects, out, loop_ctx=()):
    for e in effects:
        if e[1] == "call" and e[2][0] == "mcall" and e[2][2] == "write":
            out.append((loop_ctx, e[0], e[2][3][0]))
        elif e[1] == "loop":
            L = sx.loops[e[2]]
            _writes(sx, L.effects, out, loop_ctx + (L.id,))
    return out


def _no_exception(cond):
    """a path condition with its "nothing in the enclosing try has raised so far" conjuncts removed: every statement of a try body
    carries them, they say nothing about whether the statement is meant to run"""
    def is_exc(c):
        return c[0] == "not" and c[1][0] == "raised"
    if is_exc(cond):
        return TRUE
    if cond[0] == "and":
        rest = tuple(c for c in cond[1] if not is_exc(c))
        if len(rest) != len(cond[1]):
            return simp(("and", rest)) if rest else TRUE
    return cond


def r1b_writes_unconditional(ctx, chk, rule="C11.1"):
    """write_robots writes the three games on every call: a condition on the writes that looks at the file system (or at an
    `overwrite`-style switch) means that the file of that name can hold the games of another board, or nothing."""
    f = ctx.func("roberta_generator.py::write_robots")
    sx = SymX(ctx, f, inline_depth=3, no_inline=("player_two_transitions",)).run()
    ws = _writes(sx, sx.final.effects, [])
    conds = []
    seen_brace = False
    n_pre_cond = 0
    for loops, cond, t in ws:
        cond = _no_exception(cond)
        if not seen_brace and is_const(t) and isinstance(t[1], str) and t[1].lstrip().startswith("{"):
            seen_brace = True
        if not seen_brace:
            # the comment in front of the dictionary may have optional lines (their line discipline is judged with and without them)
            n_pre_cond += cond != TRUE
            continue
        if cond != TRUE and cond not in conds:
            conds.append(cond)
    if not ws:
        chk.undecided(rule, f.where(), "no write() reconstructed from write_robots")
        return
    if not conds:
        chk.ok(rule, f.where(), "all %d writes of the dictionary of games are unconditional: every call (re)writes the three games%s" % (
            len(ws), " (%d optional comment pieces in the preamble)" % n_pre_cond if n_pre_cond else ""))
        return
    for c in conds:
        fs = [t for t in C02._sub(c) if (t[0] == "call" and (t[1] == "open" or t[1].startswith("os.path.") or t[1].startswith("os.")))
              or (t[0] == "mcall" and t[2] in ("exists", "is_file", "isfile", "stat"))]
        switches = [t for t in C02._sub(c) if t[0] == "v" and t[1] in f.params and t[1] not in f.params[:9]]
        if fs or switches:
            chk.violation(rule, f.where(), "the games are written only if `%s`: when a file of that name is already there (or the switch is off) nothing is written, so the file can "
                          "hold the games of another board with the same name - the name does not determine the content" % show(c)[:160],
                          expected="every call writes the three games of the board it was given", found=show(c)[:160], construct="write_robots conditional writes")
        else:
            chk.undecided(rule, f.where(), "a write is conditional: %s" % show(c)[:160])


def r1_template(ctx, chk, rule="C11.1"):
    f = ctx.func("roberta_generator.py::write_robots")
    sx = SymX(ctx, f, inline_depth=3, no_inline=("player_two_transitions",)).run()
    ws = _writes(sx, sx.final.effects, [])
    if len(ws) < 8:
        chk.undecided(rule, f.where(), "only %d write() calls reconstructed from write_robots" % len(ws))
        return None
    # the file that is written is the one named by the caller, opened for (over)writing
    recvs = set()

    def _recv(effects):
        for e in effects:
            if e[1] == "call" and e[2][0] == "mcall" and e[2][2] == "write":
                recvs.add(e[2][1])
            elif e[1] == "loop":
                _recv(sx.loops[e[2]].effects)
    _recv(sx.final.effects)
    fname_t = ("v", f.params[0])
    if len(recvs) == 1:
        fo = next(iter(recvs))
        opened = fo[0] == "call" and fo[1] == "open" and fo[2] and fo[2][0] == fname_t
        mode = (fo[2][1] if len(fo[2]) > 1 else dict(fo[3]).get("mode", C("r"))) if fo[0] == "call" and fo[1] == "open" else None
        renamed = None
        if not opened and fo[0] == "call" and fo[1] == "open" and fo[2] and fo[2][0][0] in ("strcat", "fstr") and any(x == fname_t for x in C02._sub(fo[2][0])):
            # written next to the target under a temporary name and moved over it when complete (os.replace / os.rename / shutil.move)
            tmp = fo[2][0]
            moves = [e for e in sx.final.effects if e[1] == "call" and e[2][0] == "call" and e[2][1] in ("os.replace", "os.rename", "shutil.move")
                     and len(e[2][2]) == 2 and e[2][2][0] == tmp and e[2][2][1] == fname_t]
            if moves and _no_exception(moves[0][0]) == TRUE:
                renamed = e_text = "%s(%s, %s)" % (moves[0][2][1], show(tmp), f.params[0])
        if renamed and mode in (C("w"), C("wt")):
            chk.ok(rule, f.where(), "every write goes to a temporary file next to the target, which is moved over %s when complete: %s" % (f.params[0], renamed))
        elif opened and mode in (C("w"), C("wt")):
            chk.ok(rule, f.where(), "every write goes to open(%s, 'w'): the file named by the caller, truncated first" % f.params[0])
        elif fo[0] == "call" and fo[1] == "open":
            chk.violation(rule, f.where(), "the games are written to `%s`: not the file named by the caller opened for writing (mode 'w')" % show(fo)[:100],
                          expected="open(%s, 'w')" % f.params[0], found=show(fo)[:120], construct="write_robots open call")
        else:
            chk.undecided(rule, f.where(), "file object `%s` not recognised as open(<file name>, 'w')" % show(fo)[:100])
    else:
        chk.undecided(rule, f.where(), "the writes go to %d different file objects" % len(recvs))
    # split: preamble = writes before the first one containing a dict / 'game_'
    def is_game_expr(t):
        return any(x[0] == "dict" for x in C02._sub(t))
    texts = []
    game_terms = []
    # --- preamble line discipline: unroll the loops 0,1,2 times
    pre = []
    rest = []
    pre_cond = {}           # index in pre -> condition of an optional piece
    seen_brace = False
    for loops, cond, t in ws:
        cond = _no_exception(cond)
        if not seen_brace and ((is_const(t) and isinstance(t[1], str) and t[1].lstrip().startswith("{")) or (not loops and is_game_expr(t))):
            seen_brace = True           # the dictionary starts here (at the latest with the first game that is written)
        if cond != TRUE:
            if seen_brace:
                chk.undecided(rule, f.where(), "a write of the dictionary is conditional: %s" % show(cond))
                return None
            pre_cond[len(pre)] = cond
        texts.append((loops, t))
        (rest if seen_brace else pre).append((loops, t))
    opt_conds = []
    for c in pre_cond.values():
        if c not in opt_conds:
            opt_conds.append(c)
    if len(opt_conds) > 3:
        chk.undecided(rule, f.where(), "%d different conditions on preamble pieces" % len(opt_conds))
        return None
    hole_ok = True

    def piece_text(t):
        """Concrete text of a written piece with newline-free holes replaced by 'X'; None if a hole may contain a newline."""
        nonlocal hole_ok
        if is_const(t) and isinstance(t[1], str):
            return t[1]
        if t[0] == "strcat":
            a, b = piece_text(t[1]), piece_text(t[2])
            return None if a is None or b is None else a + b
        if t[0] == "fstr":
            parts = [piece_text(x) for x in t[1]]
            return None if any(x is None for x in parts) else "".join(parts)
        if t[0] == "fmt" and t[2] == -1 and t[3] is None:
            inner = t[1]
            if inner[0] == "call" and inner[1] in ("int", "float", "round", "len"):
                return "7"
            return piece_text(inner)
        if t[0] == "call" and t[1] == "str" and t[2] and t[2][0][0] == "call" and t[2][0][1] in ("int", "float", "round"):
            return "7"
        if t[0] == "call" and t[1] == "str" and len(t[2]) == 1 and not t[3]:
            return piece_text(t[2][0])          # str() of a piece that is already text (a look-up in a table of strings)
        if t[0] == "mcall" and t[2] == "join" and is_const(t[1]) and isinstance(t[1][1], str) and len(t[3]) == 1:
            # sep.join(pieces): shown with two pieces, so that a separator that breaks the line is seen
            arg = t[3][0]
            el = None
            if arg[0] == "mcall" and arg[2] == "split" and not arg[3] and not arg[4] and "\n" not in t[1][1]:
                return "X" + t[1][1] + "X"          # the words of any text, joined by a newline-free separator: one line whatever the text was
            if arg[0] == "compr" and arg[1] in sx.loops:
                before = hole_ok
                el = piece_text(sx.loops[arg[1]].elt)
                if el is None:
                    el = "X"        # an element built from slices / nested joins of other pieces; the separator is what is judged here
                    hole_ok = before
            elif arg[0] in ("list", "tup"):
                parts = [piece_text(x) for x in arg[1]]
                return None if any(x is None for x in parts) else t[1][1].join(parts)
            if el is None:
                return None
            return el + t[1][1] + el
        if t[0] == "idx" and t[1][0] in ("list", "tup") and all(is_const(x) and isinstance(x[1], str) and "\n" not in x[1] for x in t[1][1]):
            return "X"
        if t[0] == "idx" and t[1][0] == "v":
            # look-up in a module-level table of strings
            ok, val = ctx.prog.try_const(ast.Name(id=t[1][1], ctx=ast.Load()), f.mod)
            if ok and isinstance(val, (list, tuple)) and all(isinstance(x, str) and "\n" not in x for x in val):
                return "X"
        if t[0] == "mod" and is_const(t[1]) and isinstance(t[1][1], str):
            t = ("binop", "Mod", t[1], t[2])
        if t[0] == "binop" and t[1] == "Mod" and is_const(t[2]) and isinstance(t[2][1], str):
            # "...%d..." % (a, b): numeric conversions are newline-free whatever the argument; %s shows its argument
            import re as _re
            args = list(t[3][1]) if t[3][0] == "tup" else [t[3]]
            out_, pos_, ai = [], 0, 0
            for m_ in _re.finditer(r"%[-+0 #]*\d*(?:\.\d+)?([diouxXeEfFgGsr%])", t[2][1]):
                out_.append(t[2][1][pos_:m_.start()])
                pos_ = m_.end()
                conv = m_.group(1)
                if conv == "%":
                    out_.append("%")
                    continue
                if ai >= len(args):
                    return None
                if conv in "diouxXeEfFgG":
                    out_.append("7")
                else:
                    sub = piece_text(args[ai])
                    if sub is None:
                        return None
                    out_.append(sub)
                ai += 1
            out_.append(t[2][1][pos_:])
            return "".join(out_)
        if t[0] == "repeat" or (t[0] == "mul"):
            return None
        hole_ok = False
        return None
    lines_ok = True
    bad_text = None
    loop_ids = []
    for loops, t in pre:
        for l in loops:
            if l not in loop_ids:
                loop_ids.append(l)
    import itertools
    variants = 0
    pre_all = pre
    for counts_on in itertools.product(itertools.product((0, 1, 2), repeat=len(loop_ids)), itertools.product((False, True), repeat=len(opt_conds))):
        counts, on = counts_on
        reps = dict(zip(loop_ids, counts))
        # optional pieces: all pieces under one condition are present or absent together (a condition and its negation are
        # two conditions here: that only adds combinations that cannot happen, never removes one that can)
        live = dict(zip([repr(c) for c in opt_conds], on))
        pre = [x for i, x in enumerate(pre_all) if i not in pre_cond or live[repr(pre_cond[i])]]
        out = []

        def emit(items, depth_loops):
            i = 0
            while i < len(items):
                loops, t = items[i]
                if loops[:len(depth_loops)] != depth_loops:
                    i += 1
                    continue
                if len(loops) == len(depth_loops):
                    out.append(piece_text(t))
                    i += 1
                else:
                    lid = loops[len(depth_loops)]
                    group = []
                    while i < len(items) and len(items[i][0]) > len(depth_loops) and items[i][0][len(depth_loops)] == lid:
                        group.append(items[i])
                        i += 1
                    for _ in range(reps.get(lid, 1)):
                        emit(group, depth_loops + (lid,))
        emit(pre, ())
        if any(p is None for p in out):
            lines_ok = None
            break
        text = "".join(out)
        variants += 1
        for line in text.split("\n"):
            if line and not line.startswith("#"):
                lines_ok = False
                bad_text = line
    if lines_ok is None or not hole_ok:
        chk.undecided(rule, f.where(), "a preamble piece could not be shown newline-free")
    elif lines_ok:
        chk.ok(rule, "roberta_generator.py write_preamble", "preamble: for 0/1/2 rows x 0/1/2 columns (%d unrollings, covers every adjacency of pieces) every line is empty or starts with '#'; "
               "interpolated pieces (str(int(.)), MOVE_SINTAX[.], TILE_SYNTAX[.]) are newline-free" % variants)
    else:
        chk.violation(rule, "roberta_generator.py write_preamble", "the preamble can emit the line %r, which is neither empty nor a comment: the file no longer evaluates to a dict" % bad_text,
                      expected="comment lines only", found=bad_text, construct="write_preamble line discipline")
    # --- dictionary skeleton
    skeleton = []
    for loops, t in rest:
        if loops:
            chk.undecided(rule, f.where(), "a game is written inside a loop")
            return None
        if is_const(t) and isinstance(t[1], str):
            skeleton.append(t[1])
        elif is_game_expr(t):
            skeleton.append("{}")
            game_terms.append(t)
        else:
            chk.undecided(rule, f.where(), "written piece `%s` not recognised" % show(t)[:80])
            return None
    text = "".join(skeleton)
    if not game_terms:
        # nothing recognised as a written game: the writer has another shape (a serialiser of its own, writelines, ...)
        chk.undecided(rule, f.where(), "no written piece was recognised as a game (skeleton `%s`): the writer is not in a recognised form" % text.replace("\n", "\\n")[:60])
        return None
    try:
        tree = ast.parse(text.strip(), mode="eval")
    except SyntaxError as e:
        chk.violation(rule, f.where(), "with each game replaced by a placeholder the written text is `%s`, which is not a Python expression (%s): the reader's eval fails for every parameter set" % (text.replace("\n", "\\n"), e.msg),
                      expected="{'game_a': G, 'game_b': G, 'game_c': G}", found=text.replace("\n", "\\n"), construct="write_robots dictionary skeleton")
        return game_terms
    body = tree.body
    if not isinstance(body, ast.Dict):
        chk.violation(rule, f.where(), "the written text `%s` is not a dict display" % text.replace("\n", "\\n"), expected="a dict", found=type(body).__name__, construct="write_robots skeleton kind")
        return game_terms
    keys = [k.value if isinstance(k, ast.Constant) else None for k in body.keys]
    if keys == ["game_a", "game_b", "game_c"]:
        chk.ok(rule, f.where(), "dictionary skeleton `%s` parses to a dict with exactly the keys game_a, game_b, game_c (each once)" % text.replace("\n", "\\n"))
    else:
        chk.violation(rule, f.where(), "the file's dictionary has keys %s; the reader and the batch runner expect exactly game_a, game_b, game_c (a repeated key silently drops a game)" % keys,
                      expected=["game_a", "game_b", "game_c"], found=keys, construct="write_robots keys")
    # each game is written by its own writer, in order A, B, C
    return game_terms


def _dict_items_entry(G, ce, entry, case):
    """`[(p, s) for s, p in {s1: p1, s2: p2}.items()]`: a distribution written as a dictionary keyed by the successor.  Keys that
    coincide in this case (the tile and its wrap-around neighbour on a one-column board) are ONE entry - the later value
    replaces the earlier one - which is exactly what the dictionary does at run time.  None when not of that shape / not decided."""
    from ..symx import subst as _subst
    L = G.sx.loops.get(entry[1])
    if L is None or L.filters or not L.whole:
        return None
    src_t = L.source
    if not (src_t[0] == "mcall" and src_t[2] == "items" and not src_t[3]):
        return None
    d = ce.ev(src_t[1])
    if d[0] != "dict":
        return None
    items = []
    try:
        for k, v in d[1]:
            kp = ce.poly(ce.ev(k))
            hit = None
            for i_, (kp0, _, _) in enumerate(items):
                sg = (kp - kp0).sign(FRESH)
                if sg == "0":
                    hit = i_
                elif sg not in ("+", "-"):
                    return None
            if hit is None:
                items.append((kp, k, v))
            else:
                items[hit] = (items[hit][0], items[hit][1], v)
    except Undecided:
        return None
    out = []
    for kp, k, v in items:
        el = _subst(L.elt, lambda x: ("tup", (("polyval", kp), v)) if x == ("elem", L.id) else None)
        from ..symx import deep_simp as _ds
        out.append(_ds(el))
    return ("list", tuple(out))


def r2_replace_chain(ctx, chk, game_terms, rule="C11.2"):
    if not game_terms:
        chk.undecided(rule, "roberta_generator.py", "no game expressions found")
        return
    strings = set(GAME_STRINGS_EXTRA) | {P1, P2, PR}
    for t in game_terms:
        cur = t
        while cur[0] == "mcall" and cur[2] == "replace":
            cur = cur[1]
        for x in C02._sub(cur):      # only what is inside str(game), not the replace arguments
            if x[0] == "c" and isinstance(x[1], str):
                strings.add(x[1])
    for gi, t in enumerate(game_terms):
        chain = []
        cur = t
        while cur[0] == "mcall" and cur[2] == "replace":
            chain.append(cur[3])
            cur = cur[1]
        chain.reverse()
        where = "roberta_generator.py write_robot_%s" % "ABC"[gi]
        if not (cur[0] == "call" and cur[1] == "str" and cur[2] and cur[2][0][0] == "dict"):
            chk.undecided(rule, where, "formatted text is not str(game).replace(...)...: `%s`" % show(cur)[:80])
            continue
        ok = True
        pats = []
        for args in chain:
            if len(args) != 2:
                chk.undecided(rule, where, "replace with %d arguments" % len(args))
                ok = False
                continue
            pat, rep = args
            ps, rs = _const_str(pat), _const_str(rep)
            if ps is None or rs is None:
                chk.undecided(rule, where, "replace arguments not constant strings: %s -> %s" % (show(pat), show(rep)))
                ok = False
                continue
            pats.append(ps)
            if "".join(ps.split()) != "".join(rs.split()):
                ok = False
                chk.violation(rule, where, "replace(%r, %r) changes non-whitespace characters of the game's text: the file no longer denotes the game that was built" % (ps, rs),
                              expected="whitespace-only rewrite", found="%r -> %r" % (ps, rs), construct="write_robot_%s replace %r" % ("ABC"[gi], ps))
        lab_strings = set(strings)
        for ps in pats:
            hit = [s for s in lab_strings if ps in s or ps.strip() and ps.strip() in s and len(ps.strip()) > 1]
            if hit:
                ok = False
                chk.violation(rule, where, "the pattern %r occurs inside the string constant %r that is part of the game: the rewrite would alter data, not layout" % (ps, hit[0]),
                              expected="patterns occur only between structural tokens", found=hit[0], construct="write_robot_%s pattern inside string" % "ABC"[gi])
        if ok:
            chk.ok(rule, where, "str(game) passes through %d whitespace-only replacements %s; none of the %d string constants of a game contains a pattern" % (len(chain), pats, len(lab_strings)))


def _const_str(t):
    if is_const(t) and isinstance(t[1], str):
        return t[1]
    if t[0] == "strcat":
        a, b = _const_str(t[1]), _const_str(t[2])
        return None if a is None or b is None else a + b
    return None


def r3_wellformed(ctx, chk, rule="C11.3"):
    prob_params = None
    for gname in "ABC":
        try:
            G = C08.game(ctx, gname)
        except (Undecided, AnalysisError) as e:
            chk.undecided(rule, C08.GAMES[gname], str(e))
            continue
        where = "roberta_generator.py %s" % G.func.name
        nb = len(G.blocks)
        cases = position_cases(getattr(G, "post", None) is not None)
        # lengths
        case = position_cases()[-1]
        try:
            lens = {}
            for key in ("rewards", "players"):
                total = Poly()
                for val, ln in G.segments(key, case):
                    total = total + ln
                lens[key] = total
            lens["transition_list"] = nb * case.n + len(G.tail)
        except Undecided as e:
            chk.undecided(rule, where, str(e))
            continue
        want = nb * case.n + 2
        bad = [k for k, v in lens.items() if not (v - want).is_zero()]
        if bad:
            chk.violation(rule, where, "game %s: len(%s) = %r but the game has %r states (%d blocks of L*W tiles + 2): check_game rejects every generated game (or rewards/owners are shifted)" % (
                gname, bad[0], lens[bad[0]], want, nb), expected=repr(want), found=repr(lens[bad[0]]), construct="%s length of %s" % (gname, bad[0]))
        else:
            chk.ok(rule, where, "game %s: len(rewards) = len(players) = len(transition_list) = %d*L*W + 2 (as polynomials)" % (gname, nb))
        # owners per block for label typing
        pseg = G.segments("players", case)
        n_ent = n_bad = 0
        pnames = [p for p in G.func.params if p.startswith("prob_")]
        allowed_p = {Poly.sym(p) for p in pnames}
        seen_rows = set()
        for b, block in enumerate(G.blocks):
            owner = _owner_at(pseg, b, case)
            for cs in cases:
                N = nb * cs.n + 2
                for m in (0, 1, 2, 3):
                    for lt in (0, 1):
                        try:
                            ce, entry = G.entry(block, cs, m, lt)
                        except WrongRowCount as e:
                            if ("rows", gname, b) not in seen_rows:
                                seen_rows.add(("rows", gname, b))
                                chk.violation(rule, where, "block %d: %s" % (b, e), expected="one state per tile", found="several entries for one tile",
                                              construct="%s block %d several entries per tile" % (gname, b))
                            n_bad += 1
                            continue
                        except Undecided as e:
                            chk.undecided(rule, where, "block %d: %s" % (b, e))
                            n_bad += 1
                            continue
                        n_ent += 1
                        ctxt = "game %s block %d (%s), case %s, arrows %d, loose %d" % (gname, b, block.builder, cs.name, m, lt)
                        if entry is not None and entry[0] == "pyentry":
                            # post-processed entry: back to terms for the checks below
                            entry = ("list", tuple(("tup", ((C(k) if isinstance(k, str) else ("polyval", k)), ("polyval", tp))) for k, tp in entry[1]))
                        if entry is not None and entry[0] == "compr":
                            entry = _dict_items_entry(G, ce, entry, cs) or entry
                        if entry is not None and entry[0] != "list":
                            n_bad += 1
                            chk.undecided(rule, where, "%s: entry `%s` is not resolved to a list of transitions in this case" % (ctxt, show(entry)[:80]))
                            continue
                        if entry is None or entry[0] != "list" or len(entry[1]) == 0:
                            n_bad += 1
                            chk.violation(rule, where, "%s: no transition is emitted for this tile (a state without transitions is rejected as 'Missing transitions', or the lists go out of step)" % ctxt,
                                          expected="one non-empty entry per tile", found=show(entry) if entry else "nothing appended", construct="%s block %d empty entry" % (gname, b))
                            continue
                        total_p = Poly()
                        for t in entry[1]:
                            t = ce.ev(t)
                            if t[0] != "tup" or len(t[1]) != 2:
                                n_bad += 1
                                chk.violation(rule, where, "%s: transition `%s` is not a 2-tuple" % (ctxt, show(t)), expected="(label|probability, successor)", found=show(t),
                                              construct="%s block %d tuple shape" % (gname, b))
                                continue
                            k, tgt = t[1]
                            try:
                                tp = ce.poly(tgt)
                            except Undecided as e:
                                chk.undecided(rule, where, "%s: %s" % (ctxt, e))
                                n_bad += 1
                                continue
                            lo, hi = tp.sign(FRESH), (N - 1 - tp).sign(FRESH)
                            if not (lo in ("0", "+", ">=0") and hi in ("0", "+", ">=0")):
                                n_bad += 1
                                if lo in ("-",) or hi in ("-",):
                                    chk.violation(rule, where, "%s: successor index %r lies outside 0..n-1 (n = %r)" % (ctxt, tp, N), expected="0 <= index <= n-1", found=repr(tp),
                                                  construct="%s block %d target range" % (gname, b))
                                else:
                                    chk.undecided(rule, where, "%s: range of successor index %r not decided" % (ctxt, tp))
                            is_str = is_const(k) and isinstance(k[1], str)
                            if owner in (P1, P2) and not is_str:
                                n_bad += 1
                                chk.violation(rule, where, "%s: a %s state has the non-string action `%s`" % (ctxt, owner, show(k)), expected="string", found=show(k),
                                              construct="%s block %d label type" % (gname, b))
                            if owner == PR:
                                if is_str:
                                    n_bad += 1
                                    chk.violation(rule, where, "%s: a probabilistic state has the string `%s` where a probability is required" % (ctxt, k[1]), expected="number", found=k[1],
                                                  construct="%s block %d probability type" % (gname, b))
                                    continue
                                try:
                                    kp = ce.poly(k)
                                except Undecided:
                                    n_bad += 1
                                    chk.violation(rule, where, "%s: probability `%s` is not 1, p or 1-p for a validated parameter p: it need not be positive / the entry need not sum to 1" % (ctxt, show(k)),
                                                  expected="1 | p | 1-p", found=show(k), construct="%s block %d probability form" % (gname, b))
                                    continue
                                forms = {Poly.const(1)} | allowed_p | {Poly.const(1) - p for p in allowed_p}
                                if kp not in forms:
                                    n_bad += 1
                                    chk.violation(rule, where, "%s: probability %r is not one of 1, p, 1-p with p a validated probability parameter %s" % (ctxt, kp, pnames),
                                                  expected="1 | p | 1-p", found=repr(kp), construct="%s block %d probability form" % (gname, b))
                                total_p = total_p + kp
                        if owner == PR and not (total_p - 1).is_zero() and not n_bad:
                            n_bad += 1
                            chk.violation(rule, where, "%s: the probabilities of the entry sum to %r, not 1" % (ctxt, total_p), expected="1", found=repr(total_p),
                                          construct="%s block %d probability sum" % (gname, b))
        if not n_bad:
            chk.ok(rule, where, "game %s: %d entries (10 blocks max x 12 cases x 4 arrows x 2 loose) each non-empty, 2-tuples, successor indices within [0, n-1], labels typed by owner, "
                   "probabilities in {1, p, 1-p} summing to 1" % (gname, n_ent))
        chk.extra.setdefault("entries_checked", {})[gname] = n_ent
        # group counts
        k = {P2: 0, P1: 0, PR: 0}
        for b in range(nb):
            o = _owner_at(pseg, b, case)
            if o in k:
                k[o] += 1
        if sum(k.values()) != nb:
            chk.violation(rule, where, "game %s: owner groups cover %d blocks but %d blocks are emitted" % (gname, sum(k.values()), nb), expected=nb, found=sum(k.values()),
                          construct="%s group count" % gname)


def _owner_at(segs, b, case):
    start = Poly()
    n = case.n
    for val, ln in segs:
        end = start + ln
        if (b * n - start).sign(FRESH) in ("0", "+", ">=0") and (end - (b + 1) * n).sign(FRESH) in ("0", "+", ">=0"):
            return val[1] if is_const(val) else None
        start = end
    return None


def r4_reader(ctx, chk, rule="C11.4"):
    f = ctx.func("conditionalrewards.py::read_dict_from_file")
    sx = SymX(ctx, f, inline_depth=2).run()
    ret = sx.ret
    fname = ("v", f.params[0])
    evals = [t for t in C02._sub(ret) + [x for e in sx.final.effects for x in C02._sub(e)] if t[0] == "call" and t[1] == "eval"]
    if not evals:
        chk.undecided(rule, f.where(), "no eval() in the reader")
        return
    arg = evals[0][2][0]
    ok_read = arg[0] == "mcall" and arg[2] == "read" and not arg[3] and arg[1][0] == "call" and arg[1][1] == "open" and arg[1][2][0] == fname
    if ok_read:
        chk.ok(rule, f.where(), "reader evaluates open(file_name).read() - the whole, unmodified text of the named file")
    else:
        chk.violation(rule, f.where(), "the reader evaluates `%s`, not the unmodified content of the named file" % show(arg)[:120], expected="eval(open(file_name).read())",
                      found=show(arg)[:160], construct="read_dict_from_file eval argument")
    raises = [e for e in sx.final.effects if e[1] == "raise"]
    want = simp(("not", ("call", "isinstance", (evals[0], ("v", "dict")), ())))
    good = [e for e in raises if e[0] == want and e[2][0] == "call" and ctx.prog.exc_is_a(e[2][1], "ValueError")]
    if good:
        chk.ok(rule, f.where(), "non-dict content => ValueError")
    else:
        chk.violation(rule, f.where(), "the reader does not reject non-dict content with ValueError (raises: %s)" % [show(e[0]) for e in raises], expected="if not isinstance(d, dict): raise ValueError",
                      found=[show(e[0]) for e in raises], construct="read_dict_from_file dict check")
    returned = ret
    if ret[0] == "ite" and ret[3][0] == "raise":
        returned = ret[2]
    elif ret[0] == "ite" and ret[2][0] == "raise":
        returned = ret[3]
    ret = returned
    if ret != evals[0]:
        chk.violation(rule, f.where(), "the reader returns `%s`, not the evaluated dictionary" % show(ret)[:100], expected="the dict", found=show(ret)[:100], construct="read_dict_from_file return")


def r5_manual_entry(ctx, chk, rule="C11.5"):
    """create_sg_from_board hands write_robots length = number of rows and width = number of columns of the tables it passes."""
    q = "stochastic_game_from_roborta_board.py::create_sg_from_board"
    if not ctx.prog.has_func(q):
        chk.undecided(rule, q, "manual entry point missing")
        return
    f = ctx.func(q)
    sx = SymX(ctx, f, inline_depth=3, no_inline=("write_robots", "prob_to_str")).run()
    wr = [e for e in sx.final.effects if e[1] == "call" and e[2][0] == "call" and e[2][1] == "write_robots"]
    if len(wr) != 1:
        chk.undecided(rule, f.where(), "write_robots call not found")
        return
    g = ctx.func("roberta_generator.py::write_robots")
    pos = []
    for a in wr[0][2][2]:
        if a[0] == "star" and a[1][0] in ("tup", "list"):
            pos.extend(a[1][1])          # write_robots(..., *probs) with a literal tuple
        elif a[0] == "star":
            chk.undecided(rule, f.where(), "write_robots is called with `*%s`, whose elements are not statically known" % show(a[1])[:60])
            return
        else:
            pos.append(a)
    args = dict(zip(g.params, pos))
    args.update({k: v for k, v in wr[0][2][3] if k})
    tables = [("v", p) for p in f.params if p in ("moves", "rewards", "loose_tiles")]
    rows = [("call", "len", (t,), ()) for t in tables]
    cols = [("call", "len", (simp(("idx", t, C(0))),), ()) for t in tables]
    L, W = args.get("length"), args.get("width")
    if L in rows and W in cols:
        chk.ok(rule, f.where(), "write_robots(length=%s, width=%s): rows and columns of the board that is passed" % (show(L), show(W)))
    elif L in cols and W in rows:
        chk.violation(rule, f.where(), "the board's dimensions are transposed: write_robots receives length=%s (the number of columns) and width=%s (the number of rows); "
                      "non-square boards index out of range or are written wrongly" % (show(L), show(W)), expected="length=len(moves), width=len(moves[0])",
                      found="length=%s, width=%s" % (show(L), show(W)), construct="create_sg_from_board transposed dimensions")
    else:
        chk.undecided(rule, f.where(), "dimensions passed to write_robots not recognised: length=%s, width=%s" % (show(L) if L else None, show(W) if W else None))
    for pr in ("prob_tile_break", "prob_robot_break", "prob_light_break"):
        if pr in f.params and args.get(pr) != ("v", pr):
            chk.violation(rule, f.where(), "write_robots receives `%s` as %s: the emitted games use the wrong break probability" % (show(args.get(pr)) if args.get(pr) else None, pr),
                          expected=pr, found=show(args.get(pr)) if args.get(pr) else "none", construct="create_sg_from_board probability %s" % pr)
        elif pr in f.params:
            chk.ok(rule, f.where(), "write_robots(%s=%s)" % (pr, pr))
    for t in ("moves", "rewards", "loose_tiles"):
        if args.get(t) != ("v", t):
            chk.violation(rule, f.where(), "write_robots receives `%s` as %s" % (show(args.get(t)) if args.get(t) else None, t), expected=t, found=show(args.get(t)) if args.get(t) else "none",
                          construct="create_sg_from_board table %s" % t)


def r6_writer_reader_agreement(ctx, chk, rule="C11.6"):
    """The generator's vocabulary agrees with the solver's: owner strings are the solver's player constants and the
    keys of an emitted game are exactly the keyword parameters StochasticGame(**game) takes (run_games adds prune_states)."""
    tad = ctx.prog.mod("tad.py")
    players = set()
    for name in ("PLAYER_1", "PLAYER_2", "PROBABILISTIC"):
        ok, v = ctx.prog.try_const(ast.Name(id=name, ctx=ast.Load()), tad)
        if not ok:
            chk.undecided(rule, "tad.py", "constant %s missing" % name)
            return
        players.add(v)
    init = ctx.func("tad.py::StochasticGame.__init__")
    params = [p for p in init.params if p != "self"]
    required = [p for p in params if p not in init.defaults]
    for gname in "ABC":
        try:
            G = C08.game(ctx, gname)
        except (Undecided, AnalysisError) as e:
            chk.undecided(rule, C08.GAMES[gname], str(e))
            continue
        where = "roberta_generator.py %s" % G.func.name
        keys = sorted(G.dict)
        missing = [p for p in required if p not in keys]
        unknown = [k for k in keys if k not in params]
        if missing or unknown:
            chk.violation(rule, where, "game %s is emitted with keys %s; StochasticGame(**game) requires %s and accepts %s: %s" % (
                gname, keys, required, params, ("missing %s" % missing) if missing else ("unknown %s raises TypeError in the batch runner" % unknown)),
                expected=required, found=keys, construct="%s game keys" % gname)
        else:
            chk.ok(rule, where, "game %s: keys %s are the constructor's required keyword parameters" % (gname, keys))
        case = position_cases()[-1]
        try:
            owners = {v[1] for v, _ in G.segments("players", case) if is_const(v)}
            nonconst = [v for v, _ in G.segments("players", case) if not is_const(v)]
        except Undecided as e:
            chk.undecided(rule, where, str(e))
            continue
        bad = sorted(o for o in owners if o not in players)
        if bad or nonconst:
            chk.violation(rule, where, "game %s names the owners %s; the solver only accepts %s" % (gname, bad or [show(x) for x in nonconst], sorted(players)),
                          expected=sorted(players), found=sorted(owners, key=str), construct="%s owner names" % gname)
        else:
            chk.ok(rule, where, "game %s: owner names %s are the solver's player constants" % (gname, sorted(owners)))


def r7_board_untouched(ctx, chk, rule="C11.5b"):
    """The manual entry point receives the board from its caller: writing the file must not change it (a flattening that
    extends the first row in place, a pop while laying out the tiles) - the same board written again, with other probabilities,
    would describe games of another shape, which the solver's validation refuses."""
    from ..pointsto import PointsTo
    roots = [f for f in ctx.prog.all_funcs(("stochastic_game_from_roborta_board.py",)) if not f.cls and f.name == "create_sg_from_board"] + \
            [f for f in ctx.prog.all_funcs(("roberta_generator.py",)) if not f.cls and f.name == "write_robots"]
    if not roots:
        chk.undecided(rule, "-", "entry points create_sg_from_board / write_robots not found")
        return
    for g in roots:
        board = [p for p in g.params if p in ("moves", "rewards", "loose_tiles")]
        if len(board) != 3:
            chk.undecided(rule, g.where(), "%s does not take the board as moves / rewards / loose_tiles" % g.short)
            continue
        scope = [h for h in ctx.cg.reachable([g])]
        pt = PointsTo(ctx, {g: {p: (p, 2) for p in board}}, funcs=scope)
        hits = [e for e in pt.effects if any(pt.is_input(o) for o in e.recv)]
        if hits:
            for e in hits[:3]:
                chk.violation(rule, e.func.where(e.node), "`%s` (reached from %s) modifies the caller's board in place: a second file written from the same board "
                              "has lists of another length" % (norm_stmt(e.node), g.short), expected="the board is only read while the file is written",
                              found=norm_stmt(e.node), construct="%s mutates the board" % e.func.short)
        else:
            chk.ok(rule, g.where(), "%s and the %d functions it reaches only read the board (%s)" % (g.short, len(scope), ", ".join(board)))


def run(ctx, chk):
    shared.rule_no_complement_keys(ctx, chk, "C11.0:keys", shared.GENERATOR_MODULES)
    shared.rule_no_module_level_iterators(ctx, chk, "C11.0:iter", shared.GENERATOR_MODULES)
    shared.rule_single_use_iterators(ctx, chk, "C11.0:iter", shared.GENERATOR_MODULES)
    shared.rule_no_module_state(ctx, chk, "C11.0:state", [ctx.func("roberta_generator.py::write_robots")] + [f_ for f_ in ctx.prog.all_funcs(("stochastic_game_from_roborta_board.py",)) if f_.name == "create_sg_from_board"], "a game file is written")
    shared.rule_mutable_defaults(ctx, chk, "C11.0:defaults", shared.GENERATOR_MODULES)      # a call must not depend on the calls made before it
    r7_board_untouched(ctx, chk)
    r1b_writes_unconditional(ctx, chk)
    r5_manual_entry(ctx, chk)
    r6_writer_reader_agreement(ctx, chk)
    gts = r1_template(ctx, chk)
    r2_replace_chain(ctx, chk, gts)
    r3_wellformed(ctx, chk)
    r4_reader(ctx, chk)
    # prerequisites: structure (tails / final state) and parameter confinement
    ps = C08.run_pairings(ctx, chk, rule="C11.pre:C08.1")
    for gname, p in ps.items():
        C08.structure_rules(ctx, chk, p.G, gname, p, "C11.pre:C08.2")
    from . import C15, C09
    C09.r123_check_game(ctx, chk, "C11.pre:C09.1")          # the solver's validation accepts every well-formed game
    C09.r4_check_next_states(ctx, chk, "C11.pre:C09.1")
    # "each game is then either solved or reported as having no solution": no stray exception on a game whose states lose their
    # transitions by pruning (generated boards have such states: an arrow pair pointing at each other)
    from . import C06
    C06.r3e_builtin_on_empty(ctx, chk, "C11.pre:C06.3e")
    C06.r3b_constant_subscripts(ctx, chk, "C11.pre:C06.3b")
    # ... on boards of any accepted size: nothing on the way from the file to the report recurses on the game graph
    # (a board of a few hundred rows is a chain of that many states; the interpreter allows about 1000 frames)
    drv = [f for f in ctx.prog.all_funcs(("conditionalrewards.py",)) if not f.cls and f.name in ("main", "run_games")]
    if not drv:
        chk.undecided("C11.pre:C06.3d", "-", "driver entry points main / run_games not found")
    else:
        shared.rule_no_recursion(ctx, chk, "C11.pre:C06.3d", drv, "the batch driver")
    C15.r1_ranges(ctx, chk, "C11.pre:C15.1")
    C15.r2_order(ctx, chk, "C11.pre:C15.2")
    chk.require_instances("C11.1", 2)
    chk.require_instances("C11.3", 6)
