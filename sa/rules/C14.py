"""C14 - cross-objective diagnostics match the reported strategies (definitional part)."""
import ast

from ..loader import AnalysisError, attr_path, src, walk_no_nested_defs, norm_stmt, call_name
from ..symx import SymX, classify, show, C, TRUE, FALSE, simp, is_const, mk_mul, UNBOUND
from ..nf import SELF_NEXT, SF
from . import kernels as K, shared
from . import C02, C03, C04

EXPLANATION = (
    "Decides that the two auxiliary outputs are *defined* as evaluations along the reported choices, not their "
    "numerical agreement with an independent policy evaluation: Player 1 follows the arg-max successor of expected "
    "rewards for both quantities; Player 2 follows its arg-min successor of expected rewards for 'probability under "
    "minimal reward' and, for 'reward under minimal reachability', takes reward + MIN of the successors' values over "
    "exactly the actions in ARGSET_MIN(round(R[t], d)) (0 if that set is empty), with d equal to the solver's "
    "rounding digits; probabilistic states average; 'probability under minimal reward' is seeded with the "
    "reachability value for every state after the reachability sweep; the reward sweep's stop rule includes both "
    "auxiliary changes (C02.3 re-evaluated). The conditioning (C03.1-3) and the precision chain (C04.2) are "
    "re-evaluated as prerequisites."
    ' Also: nothing computed by one solve is handed to the next (pre:C10.2), and no kernel funnels its transitions through a dictionary keyed by a part of the transition (0:keyed).')
ASSUMPTIONS = ["no reward ties at states reachable from the initial state (the property's own domain)"]
TECHNIQUE = "symbolic kernel normal forms with arg-successor tracking (ast)"

ER, EMR, ERM, REACH = "expected_rewards", "expected_rewards_min_reach", "expected_reach_min_rewards", "reach_probability"


def arg_successor(k, t, field, sense):
    """Is t == state_list[<arg-sense successor of expected_rewards>].field ?  Returns (verdict, text)."""
    ct = k.canon_top(t)
    if t[0] == "attr" and t[1][0] == "call" and t[1][1] in ("max", "min"):
        kf = k.kfold(t)
        if kf is not None and kf.kind == "ARG" and kf.of is not None:
            if kf.term != SF(field):
                return False, "carries `%s` of the arg successor, specification: %s" % (show(kf.term), field)
            if kf.of.sense != sense or kf.of.term != SF(ER):
                return False, "follows %s, specification: arg-%s of expected_rewards" % (kf.of.text(), sense)
            if kf.source != SELF_NEXT or kf.filter != TRUE or not kf.whole:
                return False, "arg fold is %s" % kf.text()
            return True, kf.text()
        if kf is not None and kf.kind == "EXT":
            return False, "is the %s over all successors of `%s`, not the value at the arg-%s successor of expected_rewards" % (kf.sense, show(kf.term), sense)
    if ct[0] == "res" or (t[0] == "attr" and t[1][0] == "res"):
        # the value itself is carried through the loop, or the successor object is and the field is read afterwards
        kf = k.kfold(ct if ct[0] == "res" else t)
        if kf is not None and kf.kind == "ARG" and kf.of is not None:
            if kf.term != SF(field):
                return False, "carries `%s` of the arg successor, specification: %s" % (show(kf.term), field)
            if kf.of.sense != sense or kf.of.term != SF(ER):
                return False, "follows %s, specification: arg-%s of expected_rewards" % (kf.of.text(), sense)
            if kf.source != SELF_NEXT or kf.filter != TRUE or not kf.whole or kf.has_break:
                return False, "arg fold is %s" % kf.text()
            return True, kf.text()
        if kf is not None and kf.kind == "LAST":
            return False, "is taken from the LAST successor of the list (`%s`), not from the arg-%s successor of expected_rewards" % (show(kf.term), sense)
        if kf is not None and kf.kind == "EXT":
            return False, "is the %s over all successors of `%s`, not the value at the arg-%s successor of expected_rewards" % (kf.sense, show(kf.term), sense)
        return None, "not recognised: %s" % (kf.text() if kf is not None else show(ct))
    if not (ct[0] == "sf" and ct[2] == field):
        if ct[0] == "sf":
            return False, "reads field %s, specification reads %s" % (ct[2], field)
        return None, "not a field of a successor: %s" % show(ct)
    ix = ct[1]
    arg_t = None
    if ix[0] == "idx" and ix[2] == C(1) and ix[1][0] == "res":
        arg_t, want_term = ix[1], ("e",)
    elif ix[0] == "res":
        arg_t, want_term = ix, ("t",)
    elif ix[0] == "idx" and ix[2] == C(1) and ix[1][0] == "idx" and ix[1][2] == C(0):
        return False, "follows the FIRST successor of the list (`%s`), not the arg-%s successor" % (show(ix), sense)
    if arg_t is None:
        return None, "successor index `%s` is not the result of an arg fold" % show(ix)
    kf = k.kfold(arg_t)
    if kf is None or kf.kind != "ARG" or kf.of is None:
        if kf is not None and kf.kind == "LAST":
            return False, "follows the LAST successor visited, not the arg-%s successor" % sense
        if kf is not None and kf.kind == "OTHER" and isinstance(getattr(kf, "term", None), tuple):
            t_ = kf.term
            from ..symx import mentions as _m
            tol = _m(t_, lambda x: (x[0] == "call" and x[1] in ("math.isclose", "isclose")) or
                     (x[0] == "cmp" and x[1] in ("<", "<=") and _m(x, lambda y: y[0] == "call" and y[1] == "abs") and _m(x, lambda y: y[0] == "acc")))
            if t_[0] == "ite" and tol and _m(t_[1], lambda x: x[0] == "acc"):
                return False, ("follows a successor whose value is within a TOLERANCE of the running optimum (`%s`): a successor that is smaller than the optimum by less than the tolerance "
                               "replaces it, while the reported strategy lists the exact optimum only" % show(t_[1])[:120])
        return None, "`%s` is not an ARG fold (%s)" % (show(arg_t), kf)
    if kf.of.sense != sense:
        return False, "follows the arg-%s successor, specification: arg-%s" % (kf.of.sense, sense)
    if kf.of.term != SF(ER):
        return False, "the followed successor optimises `%s`, specification: expected_rewards" % show(kf.of.term)
    if kf.term != want_term or kf.source != SELF_NEXT or kf.filter != TRUE or not kf.whole or kf.has_break:
        return False, "arg fold is %s" % kf.text()
    return True, kf.text()


def r1_forms(ctx, chk, rule="C14.1"):
    roles = K.role_classes(ctx)
    rew = ("attr", ("v", "self"), "reward")
    q = C02._Quiet()
    # probabilistic
    k, slots = C02.reward_slots(ctx, q, rule, roles["avg"])
    if slots is None:
        chk.undecided(rule, k.func.where(), "probabilistic kernel not recognised")
    else:
        K.check_fold(chk, rule, k.func.where(), k.kfold(slots[1]), "%s 'reward under min reachability' (slot 1)" % roles["avg"], kind="SUM",
                     term=mk_mul(("p",), SF(EMR)), init_ok=K.INIT_TERM(rew), allow_neutral_filter=True, found_text=show(slots[1]))
        K.check_fold(chk, rule, k.func.where(), k.kfold(slots[2]), "%s 'probability under min reward' (slot 2)" % roles["avg"], kind="SUM",
                     term=mk_mul(("p",), SF(ERM)), init_ok=K.INIT_CONST(0), allow_neutral_filter=True, found_text=show(slots[2]))
    # Player 1
    k, slots = C02.reward_slots(ctx, q, rule, roles["max"])
    if slots is None:
        chk.undecided(rule, k.func.where(), "Player 1 kernel not recognised")
    else:
        where = k.func.where()
        x = C02.split_reward(slots[1])
        if x is None:
            chk.violation(rule, where, "Player 1 slot 1 `%s` does not add the state's reward" % show(slots[1]), expected="self.reward + Emr[argmax]",
                          found=show(slots[1]), construct="PlayerOne slot 1 reward")
        else:
            _judge(chk, rule, where, "Player 1 'reward under min reachability' (slot 1)", arg_successor(k, x, EMR, "max"), show(x))
        _judge(chk, rule, where, "Player 1 'probability under min reward' (slot 2)", arg_successor(k, slots[2], ERM, "max"), show(slots[2]))
    # Player 2
    k, slots = C02.reward_slots(ctx, q, rule, roles["min"])
    if slots is None:
        chk.undecided(rule, k.func.where(), "Player 2 kernel not recognised")
        return
    where = k.func.where()
    _judge(chk, rule, where, "Player 2 'probability under min reward' (slot 2)", arg_successor(k, slots[2], ERM, "min"), show(slots[2]))
    t = slots[1]
    if any(x[0] == "v" and isinstance(x[1], str) and x[1].startswith("__ctx_") for x in C02._sub(t)):
        # the method is called in several contexts (with the action set handed in / computed on the spot): fold the alternatives
        from ..symx import deep_simp, path_simp
        t = path_simp(deep_simp(t))
        if t[0] == "ite" and t[1][0] == "ite" and t[1][2][0] == "truthy" and t[1][3][0] == "truthy":
            t = ("ite", ("truthy", ("ite", t[1][1], t[1][2][1], t[1][3][1])), t[2], t[3])
    if not (t[0] == "ite" and t[1][0] == "truthy" and t[3] == C(0)):
        if t[0] == "ite" and t[1][0] == "truthy":
            chk.violation(rule, where, "Player 2 slot 1 is `%s` when no reachability-minimising action exists; specification: 0" % show(t[3]),
                          expected="0", found=show(t[3]), construct="PlayerTwo slot 1 empty case")
            return
        # no explicit action set: judge the restriction of the minimum directly
        x = C02.split_reward(t)
        km = k.kfold(x) if x is not None else None
        if km is not None and km.kind == "EXT" and km.source == SELF_NEXT:
            d = C04.threshold_chain(ctx)["d"]
            chk.violation(rule, where, "Player 2 slot 1 restricts its minimum by `%s`, not by membership in the reported reachability strategy "
                          "ARGSET_MIN(round(R[t], %d)): on near-ties the diagnostic follows actions the reported strategy does not contain (or misses some)" % (show(km.filter), d),
                          expected="MIN over actions in ARGSET_MIN(round(R[t], %d))" % d, found=km.text(), construct="PlayerTwo slot 1 restriction criterion")
        else:
            chk.undecided(rule, where, "Player 2 slot 1 `%s` is not `reward + MIN(...) if strategies else 0`" % show(t))
        return
    W = t[1][1]
    x = C02.split_reward(t[2])
    if x is None:
        chk.violation(rule, where, "Player 2 slot 1 does not add the state's reward: `%s`" % show(t[2]), expected="self.reward + MIN(...)",
                      found=show(t[2]), construct="PlayerTwo slot 1 reward")
        return
    kw = k.kfold(W)
    d = C04.threshold_chain(ctx)["d"]
    okw = K.check_fold(chk, rule, where, kw, "Player 2 reachability-minimising action set", kind="ARGSET", sense="min",
                       term=K.ROUND(SF(REACH), C(d)), init_ok=K.INIT_GE1, label=("p",), found_text=show(W))
    km = k.kfold(x)
    want_filter = simp(("cmp", "in", ("p",), W))
    if km is not None and any(y[0] == "v" and isinstance(y[1], str) and y[1].startswith("__ctx_") for y in C02._sub(km.filter) + C02._sub(want_filter)):
        # the action set as seen in the different call contexts of the method: where it is the same fold in each of them, it is that fold
        from ..symx import deep_simp, path_simp, subst

        def collapse(t_):
            t_ = path_simp(deep_simp(t_))

            def g(y):
                if y[0] == "ite" and len(y) == 4:
                    ka, kb = k.kfold(y[2]), k.kfold(y[3])
                    if ka is not None and kb is not None and ka.kind == kb.kind and ka.text() == kb.text():
                        return y[2]
                return None
            return subst(t_, g)
        km.filter = collapse(km.filter)
        want_filter = collapse(want_filter)
        if getattr(km, "first_filter", None) is not None:
            km.first_filter = collapse(km.first_filter)
    if km is None and x[0] == "attr" and x[2] == EMR and x[1][0] == "idx" and x[1][1] == ("v", k.slist) \
            and any(t[0] == "idx" and t[2] == C(0) and t[1][0] in ("compr", "attr") for t in C02._sub(x[1][2])):
        chk.violation(rule, where, "Player 2 slot 1 is the value at the FIRST permitted successor (`%s`): no minimum over the permitted actions is taken" % show(x),
                      expected="MIN over actions in the worst-reachability set", found=show(x), construct="PlayerTwo slot 1 first successor only")
        return
    if km is not None and km.kind == "EXT" and km.filter == TRUE and km.source == SELF_NEXT:
        chk.violation(rule, where, "Player 2 slot 1 minimises over ALL successors, not only over its reachability-minimising actions",
                      expected="MIN over actions in the worst-reachability set", found=km.text(), construct="PlayerTwo slot 1 unrestricted")
        return
    ok = K.check_fold(chk, rule, where, km, "Player 2 'reward under min reachability' (slot 1)", kind="EXT", sense="min", term=SF(EMR),
                      init_ok=K.INIT_FIRST_OR_INF, filt=want_filter, found_text=show(x))
    if ok and km.init == ("first",) and getattr(km, "first_filter", None) not in (None, want_filter):
        chk.violation(rule, where, "the minimum is seeded from the first element of a differently filtered list (`%s`)" % show(km.first_filter),
                      expected=show(want_filter), found=show(km.first_filter), construct="PlayerTwo slot 1 seed filter")
    elif ok and km.init == ("first",) and getattr(km, "first_filter", None) is None:
        chk.violation(rule, where, "the minimum over the restricted actions is seeded from the first successor of the UNRESTRICTED list",
                      expected="seed from the first restricted successor", found=km.text(), construct="PlayerTwo slot 1 seed")


def _judge(chk, rule, where, what, verdict, found):
    v, text = verdict
    if v is True:
        chk.ok(rule, where, "%s follows %s" % (what, text))
    elif v is False:
        chk.violation(rule, where, "%s: %s" % (what, text), expected="value at the arg successor of expected_rewards", found=found,
                      construct=what)
    else:
        chk.undecided(rule, where, "%s: %s" % (what, text))


def r2_precision(ctx, chk, rule="C14.2"):
    tc = C04.threshold_chain(ctx)
    roles = K.role_classes(ctx)
    f0 = ctx.prog.resolve_method(roles["min"], "value_iteration_rewards")
    # the step itself and the helpers of the Player-2 class that it runs (a template method in the base class, `_bellman_rewards`)
    fs, todo = [], [f0]
    while todo:
        g_ = todo.pop()
        if g_ in fs:
            continue
        fs.append(g_)
        for c_ in walk_no_nested_defs(g_.node):
            if isinstance(c_, ast.Call) and isinstance(c_.func, ast.Attribute) and isinstance(c_.func.value, ast.Name) and c_.func.value.id == "self":
                h_ = ctx.prog.resolve_method(roles["min"], c_.func.attr)
                if h_ is not None and h_.name not in ("get_worst_strategies_reachability",) and len(fs) < 8:
                    todo.append(h_)
    n = 0
    for f, c in [(g_, c_) for g_ in fs for c_ in walk_no_nested_defs(g_.node)]:
        if isinstance(c, ast.Call) and isinstance(c.func, ast.Attribute) and c.func.attr == "get_worst_strategies_reachability":
            n += 1
            callee = ctx.cg.resolve(c, f)
            ps = [p for p in callee[0].params if p != "self"] if callee else ["state_list", "floor"]
            amap = dict(zip(ps, c.args))
            amap.update({k.arg: k.value for k in c.keywords})
            darg = amap.get(ps[1])
            ok, val = ctx.prog.try_const(darg, f.mod) if darg is not None else (False, None)
            if not ok and isinstance(darg, ast.Name) and darg.id in f.params and not any(
                    isinstance(x, ast.Name) and x.id == darg.id and isinstance(x.ctx, ast.Store) for x in walk_no_nested_defs(f.node)):
                # the digits are a parameter of the step: what the solver passes for it (its own precision), else the default
                from ..ctxbind import specialise
                bound = getattr(specialise(ctx, f), "bound_params", {}).get(darg.id)
                if bound is not None:
                    try:
                        val = ast.literal_eval(bound)
                        ok = isinstance(val, int) and not isinstance(val, bool)
                    except (ValueError, SyntaxError):
                        ok = False
            if ok and val == tc["d"]:
                chk.ok(rule, f.where(c), "Player 2 rounds reachability values to %r digits = solver precision (threshold %g)" % (val, tc["T"]))
            elif ok:
                chk.violation(rule, f.where(c), "Player 2 rounds reachability values to %r digits but the solver's strategies use %d (threshold %g): the restricted action set differs from the reported reachability strategy" % (val, tc["d"], tc["T"]),
                              expected="%d" % tc["d"], found=repr(val), construct="PlayerTwo rounding digits")
            else:
                chk.undecided(rule, f.where(c), "digits argument `%s` is not a constant" % (src(darg) if darg is not None else None))
    if n == 0:
        chk.undecided(rule, f0.where(), "no call of get_worst_strategies_reachability in Player 2's reward step")


def r3_seeding(ctx, chk, rule="C14.3"):
    f = ctx.func("tad.py::Solver.value_iteration_reachability")
    if not any(isinstance(x, ast.Attribute) and isinstance(x.ctx, ast.Store) and x.attr == ERM for x in walk_no_nested_defs(f.node)):
        # the seeding may have been moved into a helper of the solver: judged in the view with such helpers written out
        f = ctx.prog.pipeline_view(f.qual)
    sx = SymX(ctx, f, "Solver", inline_depth=0).run()
    slist = shared.SLIST(ctx)
    cfg = ctx.cfg(f)
    found = False
    whiles = [l for l in sx.loops.values() if l.kind == "while"]
    for l in sx.loops.values():
        if l.kind != "for":
            continue
        stores = [e for e in l.effects if e[1] == "store" and e[3] == ERM]
        if not stores:
            continue
        found = True
        e = stores[0]
        # `if not converged: raise` in front of the seeding: whenever the function goes on, the seeding runs
        not_raised = {simp(("not", r_[0])) for r_ in sx.final.effects if r_[1] == "raise"}
        if e[0] != TRUE and e[0] in not_raised:
            e = (TRUE,) + tuple(e[1:])
        st = ("elem", l.id)
        inside_while = any(l.id in w.inner for w in whiles)
        if inside_while:
            chk.undecided(rule, f.where(l.node), "seeding happens inside the convergence loop")
            continue
        if l.source != slist or not l.whole or l.has_break or l.cont != FALSE or l.filter_true() is False if hasattr(l, "filter_true") else False:
            pass
        if l.source != slist or not l.whole or l.has_break or l.has_return:
            chk.violation(rule, f.where(l.node), "the seeding loop covers `%s`, not the whole state list" % show(l.source), expected="for state in self.state_list",
                          found=norm_stmt(l.node), construct="seeding coverage")
        elif e[0] != TRUE or e[2] != st or e[4] != ("attr", st, REACH):
            chk.violation(rule, f.where(l.node), "seeding is `state.%s := %s` under `%s`" % (ERM, show(e[4]), show(e[0])),
                          expected="state.expected_reach_min_rewards := state.reach_probability for every state", found=show(e[4]),
                          construct="seeding value")
        elif whiles and not all(cfg.dominates(w.node, l.node) for w in whiles):
            chk.violation(rule, f.where(l.node), "seeding is not after the reachability sweep", expected="after the while loop", found=norm_stmt(l.node),
                          construct="seeding order")
        elif not _reaches_all_returns(cfg, l.node):
            chk.violation(rule, f.where(l.node), "a path returns from value_iteration_reachability without seeding", expected="seeding on every returning path",
                          found=norm_stmt(l.node), construct="seeding skipped")
        else:
            chk.ok(rule, f.where(l.node), "after the sweep, for every state: expected_reach_min_rewards := reach_probability")
    if not found:
        chk.violation(rule, f.where(), "expected_reach_min_rewards is never seeded from the reachability values", expected="seeding loop after the sweep",
                      found="no store", construct="seeding missing")


def _reaches_all_returns(cfg, node):
    return cfg.on_every_normal_path(node)


def run(ctx, chk):
    shared.rule_no_keyed_collapse(ctx, chk, "C14.0:keyed", ("value_iteration_rewards",))      # parallel transitions are separate transitions
    # observed through the batch driver: run_games()[name]['prob_min_rew', 'rew_min_reach'] must be this game's, this mode's value
    from . import C12 as _C12
    _C12.observe(ctx, chk, "C14.obs", ['prob_min_rew', 'rew_min_reach'])
    # the property speaks of every solve: nothing computed by one solve (a memo on the game object, on a class, in a module)
    # may be handed to the next one - a second solve of the same object, or of another game, would report stale values
    from . import C10 as _C10
    _C10.r2_no_carried_state(ctx, chk, "C14.pre:C10.2")
    shared.rule_no_sweep_memo(ctx, chk, "C14.1b")
    r1_forms(ctx, chk)
    r2_precision(ctx, chk)
    r3_seeding(ctx, chk)
    C02.r3_sweep(ctx, chk, "C14.4:C02.3")
    C02.solve_slot(ctx, chk, "C14.5", 6, ERM, "solve_total_rewards", "probabilities under minimal reward")
    C02.solve_slot(ctx, chk, "C14.5", 7, EMR, "solve_total_rewards", "rewards under minimal reachability")
    C03.r1(ctx, chk, "C14.pre:C03.1")
    C03.r23(ctx, chk, "C14.pre:C03.2", "C14.pre:C03.3")
    C04.r2_precision(ctx, chk, "C14.pre:C04.2")
    chk.require_instances("C14.1", 7)
