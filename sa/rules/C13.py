"""C13 - results do not depend on how the game is written down (structural sources of dependence)."""
import ast

from ..loader import AnalysisError, attr_path, src, walk_no_nested_defs, norm_stmt, call_name
from ..symx import SymX, classify, show, C, TRUE, FALSE, simp, is_const, UNBOUND, mentions
from ..nf import SELF_NEXT, SF
from . import kernels as K
from . import C02, C03, shared

EXPLANATION = (
    "Decides the structural sources of presentation dependence, not float effects of sweep / summation order "
    "(within tolerance by the property's own wording): (1) no iterator invalidation (C03.1: the mechanism by which "
    "adjacency of dead successors changed the outcome); (2) every consumer of a successor list in the node classes "
    "is a commutative fold (SUM, MAX, MIN with ARG), an arg-set listing labels in list order, or an order-"
    "preserving filter/map - no first-match break, no slice, no positional subscript other than the fold's "
    "first-element seed; (3) label opacity: an action label is only stored, type-tested, compared for equality with "
    "another label or tested for membership in a strategy list - never compared with a literal, ordered or sliced; "
    "(4) index opacity: a successor index is only used to subscript the per-state list, in ==/in tests, stored, or "
    "range-checked by the validation - never ordered or used arithmetically in a kernel or pruning function; "
    "(pre:C01.4, C02.3) both sweeps leave their loop only through the residual test - the number of sweeps depends on the numbering, so any "
    "other exit (budget, stall counter) makes solvability depend on it; (pre:C10.2) the relation compares two solves, so no state may survive from one solve to the next."
    ' No kernel funnels its transitions through a dictionary keyed by a part of the transition or groups the unsorted list with itertools.groupby (0:keyed).')
ASSUMPTIONS = ["ties between successors are excluded by the property's domain for the auxiliary diagnostics (ARG picks one maximiser)"]
TECHNIQUE = "fold classification of every successor-list consumer + opacity scan over symbolic terms (ast)"

NODE_METHOD_SKIP = {"__init__", "__eq__", "check_next_states"}


def node_kernels(ctx):
    roles = K.role_classes(ctx)
    out = []
    for role, cls in roles.items():
        names = set()
        for c in ctx.prog.mro(cls):
            names |= set(ctx.prog.classes[c].methods)
        for m in sorted(names - NODE_METHOD_SKIP):
            f = ctx.prog.resolve_method(cls, m)
            if _construction_only(ctx, f, 0):
                continue          # a helper of the constructor (validation of the description): not a kernel of the solver
            if _private_helper(ctx, f):
                continue          # judged inside the methods that call it (it is inlined there, with the arguments they pass)
            out.append((role, cls, m, f))
    return out


def _private_helper(ctx, f):
    """a method `_x` with parameters beyond the state list that is only ever called as self._x(...) from methods of the node classes"""
    if f is None or not f.name.startswith("_") or f.name.startswith("__"):
        return False
    if len([p for p in f.params if p != "self"]) < 2:
        return False
    sites = [(g, c) for g, c in ctx.cg.callers_of(f) if not getattr(c, "synthetic", False)]
    return bool(sites) and all(g.cls is not None and isinstance(c.func, ast.Attribute) and isinstance(c.func.value, ast.Name) and c.func.value.id == "self"
                               and g.qual != f.qual for g, c in sites)


def _construction_only(ctx, f, depth):
    """every call of f comes from a constructor / the validation method (or from such a helper)"""
    if depth > 2 or f is None or not f.name.startswith("_") or f.name.startswith("__"):
        return False
    sites = ctx.cg.callers_of(f)
    if not sites:
        return False
    return all(g.name in ("__init__", "check_next_states", "check_game") or _construction_only(ctx, g, depth + 1) for g, _ in sites)


def r2_consumers(ctx, chk, rule="C13.2"):
    n = 0
    for role, cls, m, f in node_kernels(ctx):
        try:
            k = K.kernel(ctx, cls, m)
        except AnalysisError as e:
            chk.undecided(rule, f.where(), "symbolic execution failed: %s" % e)
            continue
        for lid, L in k.sx.loops.items():
            s = L.source
            root = s
            while root[0] == "compr":
                root = k.sx.loops[root[1]].source
            if root != SELF_NEXT:
                continue
            n += 1
            where = f.where(L.node)
            if not L.whole:
                chk.violation(rule, where, "%s.%s consumes a slice of the successor list: the result depends on the order in which transitions are written" % (cls, m),
                              expected="whole-list commutative fold / order-preserving filter", found=norm_stmt(L.node) if isinstance(L.node, ast.stmt) else src(L.node),
                              construct="%s.%s slice consumer" % (cls, m))
                continue
            if L.kind == "compr":
                chk.ok(rule, where, "%s.%s: order-preserving filter/map `%s`" % (cls, m, src(L.node)[:90]))
                continue
            if L.has_break or L.has_return:
                chk.violation(rule, where, "%s.%s leaves the loop over the successor list early (first match wins): the result depends on transition order" % (cls, m),
                              expected="whole-list commutative fold", found="break/return inside the loop", construct="%s.%s first-match" % (cls, m))
                continue
            folds = classify(L)
            banded = [(v, fo) for v, fo in folds.items() if fo is not None and getattr(fo, "band", False)]
            tband = [(v, fo) for v, fo in folds.items() if fo is not None and fo.kind == "ARGSET" and getattr(fo, "ties", None) == "band" and not banded]
            if tband:
                v, fo = tband[0]
                chk.violation(rule, where, "%s.%s lists ties of `%s` by `%s`, a comparison within a tolerance: that relation is not transitive, so which successors are listed together "
                              "depends on the order in which the transitions are written" % (cls, m, v, show(fo.tie_cond)), expected="exact comparison of (rounded) keys",
                              found=show(fo.tie_cond), construct="%s.%s tolerance ties" % (cls, m))
                continue
            if banded:
                v, fo = banded[0]
                chk.violation(rule, where, "%s.%s keeps a running optimum `%s` under the tolerance-band comparison `%s`: the relation is not transitive, so which successors are selected depends on the order in which the transitions are written" % (cls, m, v, show(getattr(fo, "cond_text", fo.cond))),
                              expected="exact comparison of (rounded) keys", found=show(getattr(fo, "cond_text", fo.cond)), construct="%s.%s band comparison" % (cls, m))
                continue
            bad = [(v, fo) for v, fo in folds.items() if fo is not None and fo.kind == "OTHER" and _used(k, ("res", lid, v))]
            if bad:
                v, fo = bad[0]
                # "first one seen wins": `if key(e) not in seen: seen.add(key(e)); kept.append(e)` with a key that is only PART of the
                # element - which of the elements that share the key is kept depends on the order they are written in
                t_ = fo.term
                firstwins = None
                if t_[0] == "ite" and t_[1][0] == "cmp" and t_[1][1] in ("notin", "in") and t_[1][3][0] == "acc" and t_[1][3][1] == lid:
                    seen_v = t_[1][3][2]
                    key_ = t_[1][2]
                    kept_ = t_[2] if t_[1][1] == "notin" else t_[3]
                    dropped_ = t_[3] if t_[1][1] == "notin" else t_[2]
                    acc_v_ = ("acc", lid, v)
                    su = L.update.get(seen_v)
                    if dropped_ != acc_v_ or not (kept_[0] == "cat" and kept_[1] == acc_v_):
                        su = None           # not "an element whose key was seen before is left out"
                    grows = su is not None and mentions(su, lambda x: x[0] == "cat" and x[1] == ("acc", lid, seen_v) and x[2][0] in ("list", "set") and x[2][1] == (key_,))
                    whole_elem = key_ == ("elem", lid) or (kept_[0] == "cat" and kept_[2][0] == "list" and kept_[2][1] == (key_,))
                    if grows and not whole_elem and mentions(key_, lambda x: x == ("elem", lid)):
                        firstwins = key_
                # ties decided by `e >= best - tolerance` / `e > best + tolerance` against a running optimum: "within the tolerance of" is not
                # transitive, so which successors end up listed together depends on the order they are met in
                def _shifted_acc(x):
                    return x[0] == "add" and any(y[0] == "acc" and y[1] == lid for y in x[1]) and any(
                        not (y[0] == "acc") and not (is_const(y) and y[1] == 0) for y in x[1])
                band_c = [x for x in _subterms_of(t_) if x[0] == "cmp" and x[1] in ("<", "<=") and (_shifted_acc(x[2]) or _shifted_acc(x[3]))
                          and not (mentions(x[2], lambda y: y[0] == "acc") and mentions(x[3], lambda y: y[0] == "acc"))]
                # `if key in seen: repeated.add(key)` with `seen` collecting every key: the SET of keys that occur more than once - the same
                # set in whatever order the elements come
                if t_[0] == "ite" and t_[1][0] == "cmp" and t_[1][1] == "in" and t_[1][3][0] == "acc" and t_[1][3][1] == lid and t_[3] == ("acc", lid, v) \
                        and L.init.get(v) in (("set", ()), ("call", "set", (), ())) and t_[2] == simp(("cat", ("acc", lid, v), ("list", (t_[1][2],)))):
                    seen_u = L.update.get(t_[1][3][2])
                    if seen_u is not None and mentions(seen_u, lambda x: x[0] == "cat" and x[1] == t_[1][3] and x[2][0] in ("list", "set") and x[2][1] == (t_[1][2],)):
                        chk.ok(rule, where, "%s.%s: `%s` is the set of keys that occur more than once (order-insensitive)" % (cls, m, v))
                        continue
                if firstwins is None and band_c and t_[0] == "ite":
                    chk.violation(rule, where, "%s.%s decides ties of `%s` by `%s`, a comparison within a tolerance of the running optimum: that relation is not transitive, so which "
                                  "successors are listed together depends on the order in which the transitions are written" % (cls, m, v, show(band_c[0])[:100]),
                                  expected="exact comparison of (rounded) keys", found=show(band_c[0])[:120], construct="%s.%s tolerance ties" % (cls, m))
                    continue
                if firstwins is not None:
                    chk.violation(rule, where, "%s.%s keeps, of the successors that share `%s`, the one written first: which transition (which action label) survives depends on the order in "
                                  "which the transitions are written" % (cls, m, show(firstwins)), expected="whole-list commutative fold / order-preserving filter",
                                  found=show(fo.term)[:140], construct="%s.%s first-seen-wins" % (cls, m))
                    continue
                chk.undecided(rule, where, "%s.%s: `%s` is not a recognised order-insensitive fold: %s" % (cls, m, v, show(fo.term)))
                continue
            kinds = sorted({fo.kind for fo in folds.values() if fo is not None and fo.kind not in ("LAST", "UNCHANGED")})
            last_used = [v for v, fo in folds.items() if fo is not None and fo.kind == "LAST" and _used(k, ("res", lid, v))
                         and L.init.get(v, UNBOUND) == UNBOUND or (fo is not None and fo.kind == "LAST" and _used(k, ("res", lid, v)))]
            if last_used:
                chk.violation(rule, where, "%s.%s uses `%s`, the value from the LAST successor visited: the result depends on transition order" % (cls, m, last_used[0]),
                              expected="commutative fold", found="last-element value %s" % last_used, construct="%s.%s last-element" % (cls, m))
                continue
            chk.ok(rule, where, "%s.%s: %s over the whole list" % (cls, m, "+".join(kinds) or "no accumulation"))
        # positional subscripts S[k]
        for t in _terms(k):
            if t[0] == "idx" and t[1] == SELF_NEXT and is_const(t[2]):
                n += 1
                seeded = False
                for lid, L in k.sx.loops.items():
                    if L.kind == "for":
                        for v, fo in classify(L).items():
                            if fo is not None and fo.kind == "EXT":
                                kf = k.kfold(("res", lid, v))
                                if kf is not None and kf.init == ("first",) and any(x == t for x in C02._sub(L.init.get(v))):
                                    seeded = True
                if not seeded:
                    # the same seed in library form: min([key(S[0])] + keys)
                    for u in _terms(k):
                        if u[0] == "call" and u[1] in ("min", "max") and len(u[2]) == 1 and any(x == t for x in C02._sub(u[2][0])):
                            kf = k.kfold(u)
                            if kf is not None and kf.kind == "EXT" and kf.init == ("first",) and kf.source == SELF_NEXT:
                                seeded = True
                if seeded:
                    chk.ok(rule, f.where(), "%s.%s: `%s` only seeds a MIN/MAX fold with the value at the first element (order-insensitive)" % (cls, m, show(t)))
                elif is_const(t[2]) and t[2][1] in (0, -1) and _only_single_element(k, t):
                    chk.ok(rule, f.where(), "%s.%s: `%s` is read only where the list has exactly one element (its only element, whatever the order)" % (cls, m, show(t)))
                elif not _direct_in_result(k, t) or any(y == t for L_ in k.sx.loops.values() for u_ in list(L_.filters or []) + list(L_.update.values()) for y in C02._sub(u_)):
                    # the value at a fixed position goes into a call / a loop / a fold that is not brought to normal form here (the seed of
                    # `min([first, *keys])`, of a `reduce`, of a helper): whether the result depends on the order is not decided
                    chk.undecided(rule, f.where(), "%s.%s reads `%s` and hands it to a computation that is not brought to a MIN/MAX fold seeded with the first element" % (cls, m, show(t)))
                else:
                    chk.violation(rule, f.where(), "%s.%s reads `%s`: a positional access to the successor list that is not a fold seed" % (cls, m, show(t)),
                                  expected="no positional access", found=show(t), construct="%s.%s positional subscript" % (cls, m))
    chk.extra["successor_list_consumers"] = n


def _used(k, res_term):
    if any(t == res_term for t in C02._sub(k.ret)):
        return True
    for e in k.sx.final.effects:
        if any(t == res_term for t in C02._sub(e)):
            return True
    for L in k.sx.loops.values():
        for u in list(L.init.values()) + list(L.update.values()) + [L.source] + list(L.filters or []) + ([L.elt] if L.elt else []):
            if any(t == res_term for t in C02._sub(u)):
                return True
    return False


def _terms(k):
    out = []
    out += C02._sub(k.ret)
    for e in k.sx.final.effects:
        out += C02._sub(e)
    for L in k.sx.loops.values():
        for u in list(L.init.values()) + list(L.update.values()):
            out += C02._sub(u)
        for e in L.effects:
            out += C02._sub(e)
        if L.elt is not None:
            out += C02._sub(L.elt)
        for c in (L.filters or []):
            out += C02._sub(c)
    return out


def r34_opacity(ctx, chk, rule3="C13.3", rule4="C13.4"):
    roles = K.role_classes(ctx)
    n3 = n4 = 0
    v3 = v4 = 0
    for role, cls, m, f in node_kernels(ctx):
        k = K.kernel(ctx, cls, m)
        elems = {lid for lid, L in k.sx.loops.items()}
        for t in _terms(k):
            if t[0] != "cmp":
                continue
            sides = (t[2], t[3])
            for a, b in (sides, sides[::-1]):
                lab, tgt = _slots(k, a)
                if lab and role in ("max", "min"):
                    n3 += 1
                    if t[1] in ("<", "<="):
                        v3 += 1
                        chk.violation(rule3, f.where(), "%s.%s orders action labels: `%s` - renaming actions changes the result" % (cls, m, show(t)),
                                      expected="labels only compared for equality / membership", found=show(t), construct="%s.%s label ordering" % (cls, m))
                    elif is_const(b) and isinstance(b[1], str):
                        v3 += 1
                        chk.violation(rule3, f.where(), "%s.%s compares an action label with the literal %r: renaming actions changes the result" % (cls, m, b[1]),
                                      expected="labels are opaque", found=show(t), construct="%s.%s label literal" % (cls, m))
                if tgt:
                    n4 += 1
                    if t[1] in ("<", "<="):
                        v4 += 1
                        chk.violation(rule4, f.where(), "%s.%s orders successor indices: `%s` - renumbering states changes the result" % (cls, m, show(t)),
                                      expected="indices only used as subscripts / in == tests", found=show(t), construct="%s.%s index ordering" % (cls, m))
        # implicit ordering: max / min / sorted of TUPLES that carry the transition (or its label / its index) behind the value -
        # when two values tie, Python goes on to compare the next component: the label alphabetically, the index numerically
        for t in _terms(k):
            carried = None
            if t[0] == "call" and t[1] in ("max", "min", "sorted") and len(t[2]) == 1 and "key" not in dict(t[3]):
                carried = t[2][0]
            elif t[0] == "mcall" and t[2] == "sort" and not t[3] and "key" not in dict(t[4] if len(t) > 4 else ()):
                carried = t[1]
            if carried is None:
                continue
            le = k.listexpr(carried)
            if le is None or le[0] != SELF_NEXT or le[2][0] != "tup" or len(le[2][1]) < 2:
                continue
            later = le[2][1][1:]
            has_label = any(any(y in (("e",), ("p",)) for y in C02._sub(x)) for x in later)
            has_index = any(any(y == ("t",) for y in C02._sub(x)) and not any(y[0] == "sf" for y in C02._sub(x)) for x in later)
            if has_label and role in ("max", "min"):
                n3 += 1
                v3 += 1
                chk.violation(rule3, f.where(), "%s.%s takes `%s` of tuples `%s`: when two successors tie on the first component the tuples are compared further, i.e. by the "
                              "action label - which successor is followed on a tie depends on how the actions are named" % (cls, m, t[1] if t[0] == "call" else "sort", show(le[2])[:80]),
                              expected="labels only compared for equality / membership (an explicit key, or a loop over the values)", found=show(t)[:120],
                              construct="%s.%s implicit label ordering" % (cls, m))
            elif has_index or has_label:
                n4 += 1
                v4 += 1
                chk.violation(rule4, f.where(), "%s.%s takes `%s` of tuples `%s`: ties on the first component are decided by comparing the next one - the successor's index (or the "
                              "probability) - so the result depends on how the states are numbered" % (cls, m, t[1] if t[0] == "call" else "sort", show(le[2])[:80]),
                              expected="indices are opaque", found=show(t)[:120], construct="%s.%s implicit index ordering" % (cls, m))
        # arithmetic on a successor index
        for t in _terms(k):
            if t[0] in ("add", "mul") and any(_slots(k, x)[1] for x in t[1]):
                n4 += 1
                v4 += 1
                chk.violation(rule4, f.where(), "%s.%s does arithmetic on a successor index: `%s`" % (cls, m, show(t)),
                              expected="indices are opaque", found=show(t), construct="%s.%s index arithmetic" % (cls, m))
        # string literals compared anywhere in the method (other than player names)
        for node in walk_no_nested_defs(f.node):
            if isinstance(node, ast.Compare):
                for c in [node.left] + node.comparators:
                    if isinstance(c, ast.Constant) and isinstance(c.value, str) and c.value not in K.ROLES:
                        n3 += 1
                        v3 += 1
                        chk.violation(rule3, f.where(node), "%s.%s compares against the string literal %r inside a kernel / pruning method" % (cls, m, c.value),
                                      expected="no action-name literals in the solver", found=src(node), construct="%s.%s string literal compare" % (cls, m))
    if not v3:
        chk.ok(rule3, "tad.py node classes", "label opacity: %d comparisons involving action labels examined, all equality / membership against non-literals; no string literal compared in any kernel" % n3)
    if not v4:
        chk.ok(rule4, "tad.py node classes", "index opacity: %d uses of successor indices in comparisons / arithmetic examined, none ordered or arithmetic" % n4)
    _canary(ctx, chk)


def r6_precision_mix(ctx, chk, rule="C13.6"):
    """A value of a state field compared with a ROUNDED aggregate of the same field (or the other way round): whether
    `raw <= round(min ...)` holds for the minimiser itself depends on float noise of 1 ulp - and that noise depends on the
    order in which a probabilistic state lists its transitions - so the set selected by the test differs between two
    presentations of one game although every reported number agrees within tolerance."""
    FIELDS = ("reach_probability", "expected_rewards", "expected_rewards_min_reach", "expected_reach_min_rewards")
    n = hits = 0
    for f in shared.solver_scope(ctx):
        if f.mod.name != "tad.py":
            continue
        cls = f.cls.name if f.cls else None
        try:
            sx = SymX(ctx, f, cls, inline_depth=1).run()
        except Exception:
            continue

        def reads(t, under_round=False, depth=0, out=None):
            """{(field, rounded?)} read inside t, looking through comprehensions and loop results"""
            out = set() if out is None else out
            if not isinstance(t, tuple) or not t or depth > 6:
                return out
            if t[0] == "call" and t[1] == "round" and t[2]:
                reads(t[2][0], True, depth + 1, out)
                return out
            if t[0] == "attr" and t[2] in FIELDS:
                out.add((t[2], under_round))
            if t[0] == "compr" and t[1] in sx.loops and sx.loops[t[1]].elt is not None:
                reads(sx.loops[t[1]].elt, under_round, depth + 1, out)
            if t[0] == "res" and t[1] in sx.loops:
                u = sx.loops[t[1]].update.get(t[2])
                if u is not None:
                    reads(u, under_round, depth + 1, out)
            for x in t[1:]:
                if isinstance(x, tuple):
                    if x and isinstance(x[0], str):
                        reads(x, under_round, depth + 1, out)
                    else:
                        for y in x:
                            if isinstance(y, tuple):
                                reads(y, under_round, depth + 1, out) if (y and isinstance(y[0], str)) else [reads(z, under_round, depth + 1, out) for z in y if isinstance(z, tuple)]
            return out
        terms = []
        for e in list(sx.final.effects) + [e for l in sx.loops.values() for e in l.effects]:
            terms += C02._sub(e)
        for l in sx.loops.values():
            for u in l.update.values():
                terms += C02._sub(u)
            for c in getattr(l, "filters", []) or []:
                terms += C02._sub(c)
        terms += C02._sub(sx.ret) if sx.ret is not None else []
        seen = set()
        for t in terms:
            if t[0] != "cmp" or t[1] not in ("<", "<=", "==", "!=") or t in seen:
                continue
            seen.add(t)
            a, b = reads(t[2]), reads(t[3])
            if not a or not b:
                continue
            n += 1
            for fld in FIELDS:
                if ((fld, False) in a and (fld, True) in b and (fld, True) not in a) or ((fld, False) in b and (fld, True) in a and (fld, True) not in b):
                    hits += 1
                    chk.violation(rule, f.where(), "%s compares an unrounded `%s` with a rounded value of the same quantity: `%s` - whether the comparison holds for values that agree "
                                  "up to float noise depends on the order in which transitions are summed, i.e. on how the game is written down" % (f.short, fld, show(t)[:120]),
                                  expected="both sides at the same precision", found=show(t)[:160], construct="%s mixed precision on %s" % (f.short, fld))
                    break
    if not hits:
        chk.ok(rule, "tad.py", "%d comparisons between state quantities examined: none compares a raw value with a rounded value of the same quantity" % n)


def r5_pruning_order(ctx, chk, rule="C13.5"):
    """Pruning decisions for one state must not depend on what earlier iterations of the same sweep did
    (that would make the outcome depend on the numbering of the states)."""
    from ..symx import mentions_acc
    n = 0
    for q in ("tad.py::Solver.prune_states", "tad.py::Solver.prune_paths", "tad.py::Solver.prune_reachability"):
        f = ctx.func(q)
        sx = SymX(ctx, f, "Solver", inline_depth=0).run()
        slist = shared.SLIST(ctx)
        for lid, L in sx.loops.items():
            if L.kind != "for" or L.source != slist:
                continue
            for e in L.effects:
                if e[1] not in ("store", "call"):
                    continue
                if e[1] == "call" and not (e[2][0] == "mcall" and ctx.cg.classes_defining_name(e[2][2])):
                    continue
                n += 1
                if mentions_acc(e[0], lid):
                    accs = sorted({t[2] for t in C02._sub(e[0]) if t[0] == "acc" and t[1] == lid})
                    chk.violation(rule, f.where(L.node), "%s: whether `%s` happens for a state depends on `%s`, which earlier iterations of the same sweep over the state list modify: "
                                  "the outcome depends on the numbering of the states" % (f.short, _eff_text(e), ", ".join(accs)),
                                  expected="decisions read only data computed before the sweep (or iterate to a fixed point)", found=show(e[0]),
                                  construct="%s order-dependent decision" % f.short)
                else:
                    chk.ok(rule, f.where(L.node), "%s: `%s` is decided from data fixed before the sweep (`%s`)" % (f.short, _eff_text(e), show(e[0])[:100]))
    chk.extra["pruning_decisions"] = n


def _eff_text(e):
    if e[1] == "store":
        return "%s.%s := %s" % (show(e[2]), e[3], show(e[4]))
    return show(e[2])


def _canary(ctx, chk):
    """The opacity scan must see a literal label comparison and an index ordering in the canary class."""
    import os
    from ..context import Ctx
    from ..report import Check
    here = os.path.join(os.path.dirname(os.path.dirname(os.path.dirname(os.path.abspath(__file__)))), "canaries")
    c2 = Ctx(here, modules=["opacity.py"])
    from ..nf import Kernel
    k = Kernel(c2, "opacity.py::Picky.pick", "Picky")
    lit = idx = 0
    for t in _terms(k):
        if t[0] == "cmp":
            for a, b in ((t[2], t[3]), (t[3], t[2])):
                if any(x[0] == "idx" and x[1][0] == "elem" and x[2] == C(0) for x in C02._sub(a)) and is_const(b) and isinstance(b[1], str):
                    lit += 1
                if _is_target_index(a) and t[1] in ("<", "<="):
                    idx += 1
    chk.canary("opacity.py (label literal + index ordering)", lit >= 1 and idx >= 1, "literal=%d ordering=%d" % (lit, idx))


def _under_state_index(t):
    return False


def _only_single_element(k, t):
    """Every occurrence of the positional term t lies in the returned value, on a path whose condition says that the successor
    list has exactly one element."""
    LEN = ("call", "len", (SELF_NEXT,), ())
    ONE = (simp(("cmp", "==", LEN, C(1))),)
    for L in k.sx.loops.values():
        for u in list(L.init.values()) + list(L.update.values()) + list(L.filters or []) + ([L.elt] if L.elt is not None else []) + list(L.effects):
            if any(y == t for y in C02._sub(u)):
                return False
    if any(y == t for e in k.sx.final.effects for y in C02._sub(e)):
        return False
    found = []

    def walk(x, single):
        if x == t:
            found.append(single)
            return
        if not isinstance(x, tuple):
            return
        if x and x[0] == "ite" and len(x) == 4:
            walk(x[1], single)
            c = simp(x[1])
            cs = c[1] if c[0] == "and" else (c,)
            walk(x[2], single or any(y in ONE for y in cs))
            walk(x[3], single)
            return
        for y in x:
            walk(y, single)
    walk(k.ret, False)
    return bool(found) and all(found)


def _direct_in_result(k, t):
    """The positional value reaches the returned value through nothing but selections and arithmetic (no call, loop result or
    helper in between): the result is read off the successor at that fixed position."""
    def walk(x):
        if x == t:
            return True
        if not isinstance(x, tuple) or not x or not isinstance(x[0], str):
            return False
        if x[0] in ("call", "mcall", "apply", "res", "compr", "acc"):
            return False
        return any(walk(y) for y in x[1:] if isinstance(y, tuple)) or any(walk(z) for y in x[1:] if isinstance(y, tuple) and y and not isinstance(y[0], str) for z in y if isinstance(z, tuple))
    return walk(k.ret)


def _only_inside(k, t, holders):
    """Every occurrence of term t in the kernel's terms lies inside one of the holder terms."""
    def count(x):
        return sum(1 for y in C02._sub(x) if y == t)
    total = count(k.ret) + sum(count(e) for e in k.sx.final.effects) + sum(count(u) for L in k.sx.loops.values() for u in L.update.values())
    inside = 0
    for root in [k.ret] + list(k.sx.final.effects) + [u for L in k.sx.loops.values() for u in L.update.values()]:
        for y in C02._sub(root):
            if y in holders:
                inside += count(y)
    return total > 0 and inside >= total


def _slots(k, a):
    """(mentions an action label, is a successor index) for a term over loop elements.  The slots of a loop element mean
    label / index only when the loop walks transitions: for a loop over values computed from them (zip(S, values), a list
    of (label, value) pairs) the element is first rewritten in terms of the transition it came from."""
    lids = {x[1] for x in C02._sub(a) if x[0] == "elem"}
    if len(lids) != 1:
        return (any(x[0] == "idx" and x[1][0] == "elem" and x[2] == C(0) for x in C02._sub(a)), _is_target_index(a))
    lid = next(iter(lids))
    L = k.sx.loops.get(lid)
    if L is None or L.source is None:
        return (False, False)
    le = k.listexpr(L.source)
    if le is None:
        if L.source[0] == "v" and L.source[1] in getattr(k.func, "params", ()) and "next" not in L.source[1]:
            return (False, False)    # a list handed in by the caller (operands resolved beforehand): what its slots hold is not known here
        if L.source[0] in ("attr", "v"):
            return (any(x[0] == "idx" and x[1][0] == "elem" and x[2] == C(0) for x in C02._sub(a)), _is_target_index(a))
        return (False, False)        # an opaque source: the slots of its elements are not known to be label / index
    ca = k.canon(a, lid)
    if le[2] != ("e",):
        ca = k._rebase(ca, le[2])
    if le[0] != SELF_NEXT:
        return (any(x[0] == "idx" and x[1][0] == "elem" and x[2] == C(0) for x in C02._sub(a)), _is_target_index(a)) if le[2] == ("e",) else (False, False)
    return (any(x == ("p",) for x in C02._sub(ca)), ca == ("t",))


def _is_target_index(t):
    return t[0] == "idx" and t[1][0] == "elem" and t[2] == C(1)


def _subterms_of(t):
    out = []

    def walk(x):
        if isinstance(x, tuple) and x:
            if isinstance(x[0], str):
                out.append(x)
            for y in x:
                walk(y)
    walk(t)
    return out


def run(ctx, chk):
    shared.rule_no_keyed_collapse(ctx, chk, "C13.0:keyed")      # a dictionary keyed by a part of the transition, groupby on the unsorted list: the result depends on the transition order
    # the same game written in another order must be ACCEPTED all the same: a validation that refuses a well-formed description for
    # the order its transitions are written in (a running float sum compared exactly) makes solvability depend on the notation
    from . import C09 as _C09
    _C09.r4_check_next_states(ctx, chk, "C13.pre:C09.1")
    C03.r1(ctx, chk, "C13.1")
    from . import C07
    C07.r6_reversed_table(ctx, chk, "C13.pre:C07.6")        # the backward search must treat labels as opaque (an action named "" is an action)
    # ... and be complete: a search that drops states depending on the order in which predecessors are listed (a `break` at the
    # first visited one) makes the sweep domain - hence every value - depend on how the states are numbered
    C07.r2_roots(ctx, chk, "C13.pre:C07.2")
    C07.r35_worklist(ctx, chk, "C13.pre:C07.3", "C13.pre:C07.5")
    C03.r23(ctx, chk, "C13.pre:C03.2", "C13.pre:C03.3")     # a conditioning that merges or drops transitions depends on their order
    r2_consumers(ctx, chk)
    shared.rule_node_keeps_transitions(ctx, chk, "C13.pre:C01.2")
    r34_opacity(ctx, chk)
    r5_pruning_order(ctx, chk)
    r6_precision_mix(ctx, chk)
    from . import C01, C10
    # "within convergence tolerance" and "never changes whether the game is declared solvable" presume that each sweep runs until
    # its residual is below the threshold and leaves its loop in no other way: how many sweeps that takes depends on the numbering
    # (the in-place update propagates one state per sweep against the numbering, all of them along it), so a second exit - a sweep
    # budget, a no-progress counter that raises - decides differently for two presentations of one game
    C01.r4_sweep(ctx, chk, "C13.pre:C01.4")
    C02.r3_sweep(ctx, chk, "C13.pre:C02.3")
    # the relation is between two solves: it presumes each solve is a function of its own game - state kept from the solve of the
    # first presentation (a cache keyed by less than what the strategies mention) leaks its labels into the second
    C10.r2_no_carried_state(ctx, chk, "C13.pre:C10.2")
    chk.require_instances("C13.1", 20)
    chk.require_instances("C13.2", 10)
