"""C07 - backward search returns exactly the states that can reach a final state."""
import ast

from ..loader import AnalysisError, attr_path, src, walk_no_nested_defs, norm_stmt, call_name
from ..symx import SymX, classify, show, C, TRUE, FALSE, simp, UNBOUND
from . import shared

EXPLANATION = (
    "Static decision of the backward search (reverse_dfs.py): call-graph acyclicity (no recursion on graph depth), "
    "root coverage (every final state starts a search, whole list, no early exit), worklist invariant "
    "(every state marked visited is pushed for expansion in the same step; the guard tests the collection that "
    "receives the marks; every predecessor of every popped state is examined), result typestate (filter "
    "'not in final_states' of the visited collection, sorted on every path to the return, duplicate-free by "
    "construction) and the reversed-table normal forms (one (target, source) pair per transition, grouping keeps "
    "multiplicity, one entry per state). A discharged rule holds for graphs of every size and shape."
    ' Also: nothing is kept between searches in module-level state (pre:C10.2), and a shared set of marks is not replaced when it is still empty (C07.3).')
ASSUMPTIONS = [
    "transition lists are lists of 2-tuples with the successor index in slot 1 (validated by Node.check_next_states)",
    "the recognised search idiom is an explicit worklist with a visited set/list; other shapes are reported undecided",
]
TECHNIQUE = "call-graph SCC + CFG dominance/typestate + symbolic loop normal forms (ast)"

ENTRY = "reverse_dfs.py::reverse_dfs"


def _plain_collection_local(f, name):
    """A local that is only ever bound to a display / comprehension / set() / list() / dict(): a collection of its own."""
    vals = []
    for n in walk_no_nested_defs(f.node):
        if isinstance(n, ast.Assign) and any(isinstance(t, ast.Name) and t.id == name for t in n.targets):
            vals.append(n.value)
        elif isinstance(n, ast.AnnAssign) and isinstance(n.target, ast.Name) and n.target.id == name and n.value is not None:
            vals.append(n.value)
        elif isinstance(n, (ast.For, ast.With, ast.AugAssign, ast.NamedExpr)) and any(isinstance(t, ast.Name) and t.id == name and isinstance(t.ctx, ast.Store) for t in ast.walk(n)
                                                                                       if not isinstance(n, ast.For) or t in ast.walk(n.target)):
            return False
    return bool(vals) and all(isinstance(v, (ast.List, ast.Set, ast.Dict, ast.Tuple, ast.ListComp, ast.SetComp, ast.DictComp)) or (
        isinstance(v, ast.Call) and call_name(v) in ("set", "list", "dict", "frozenset", "tuple", "range", "sorted")) for v in vals)


def _entry(ctx):
    f = ctx.func(ENTRY)
    if len(f.params) < 2:
        raise AnalysisError("reverse_dfs no longer takes (transition_list, final_states)")
    return f


def _contains(node, types):
    return [n for n in ast.walk(node) if isinstance(n, types)]


def _skips_seen_root(j, loop):
    """The `continue` is the body of `if <loop variable> in <collection>:` directly in the loop."""
    p = getattr(j, "parent", None)
    if not (isinstance(p, ast.If) and p in loop.body and not p.orelse and isinstance(loop.target, ast.Name)):
        return False
    t = p.test
    return isinstance(t, ast.Compare) and len(t.ops) == 1 and isinstance(t.ops[0], ast.In) and isinstance(t.left, ast.Name) and t.left.id == loop.target.id \
        and isinstance(t.comparators[0], ast.Name) and all(isinstance(b, (ast.Continue, ast.Expr)) for b in p.body)


def _stmts_with_jumps(body, types):
    """Jump statements of the given kinds that leave / cut short the loop whose body this is: a `break` / `continue` inside a
    nested loop belongs to that loop, a `return` leaves them all; nested function definitions are not entered."""
    out = []

    def walk(n, nested):
        if isinstance(n, (ast.FunctionDef, ast.AsyncFunctionDef, ast.Lambda, ast.ClassDef)):
            return
        if isinstance(n, types) and not (nested and isinstance(n, (ast.Break, ast.Continue))):
            out.append(n)
        inner = nested or isinstance(n, (ast.For, ast.While, ast.AsyncFor))
        for fld, val in ast.iter_fields(n):
            if isinstance(val, list):
                for x in val:
                    if isinstance(x, ast.AST):
                        # the `else:` of a loop runs outside of it
                        walk(x, nested if (isinstance(n, (ast.For, ast.While)) and fld == "orelse") else inner)
            elif isinstance(val, ast.AST):
                walk(val, inner)
    for s in body:
        walk(s, False)
    return out


class Search:
    """Locates the pieces of the search: entry function, visited collection, root loop, search function."""

    def __init__(self, ctx):
        self.ctx = ctx
        self.f = _entry(ctx)
        self.tl, self.finals = self.f.params[0], self.f.params[1]
        self.root_loop = None
        self.search_fn = None
        self.search_call = None
        self.visited_name = None      # name of the visited collection in the entry function
        self.s_visited = None         # its name inside the search function
        self.s_root = None
        self.s_table = None
        self.inline = False
        self.functional = False
        self.union = False
        self.s_known = None
        self._locate()

    def _locate(self):
        f = self.f
        for n in walk_no_nested_defs(f.node):
            if isinstance(n, ast.For):
                it = n.iter
                base = it.value if isinstance(it, ast.Subscript) else it
                if isinstance(base, ast.Name) and base.id == self.finals:
                    self.root_loop = n
                    break
        if self.root_loop is None:
            return
        lv = self.root_loop.target.id if isinstance(self.root_loop.target, ast.Name) else None
        for call, callees in self.ctx.cg.call_sites(f):
            if any(call in ast.walk(s) for s in self.root_loop.body) and callees:
                g = callees[0]
                if g is f:
                    continue
                self.search_fn, self.search_call = g, call
                # map arguments
                amap = {}
                for p, a in zip(g.params, call.args):
                    amap[p] = a
                for k in call.keywords:
                    amap[k.arg] = k.value
                for p, a in amap.items():
                    if isinstance(a, ast.Name) and a.id == lv:
                        self.s_root = p
                # visited: the argument whose parameter receives add/append marks in the search function;
                # the table is the one assigned from reverse_transition_list(...)
                marked = set()
                for n in walk_no_nested_defs(g.node):
                    if isinstance(n, ast.Call) and isinstance(n.func, ast.Attribute) and n.func.attr in ("add", "append") \
                            and isinstance(n.func.value, ast.Name):
                        marked.add(n.func.value.id)
                for p, a in amap.items():
                    if isinstance(a, ast.Name) and a.id != lv and p != self.s_root:
                        if self._is_table(a.id):
                            self.s_table = p
                        elif p in marked and self.s_visited is None:
                            self.visited_name, self.s_visited = a.id, p
                # union style: `V |= search(root, table)` / `V.update(search(root, table))` - every search is independent and
                # the caller accumulates by union
                st0 = call.parent
                union_target = None
                if isinstance(st0, ast.AugAssign) and isinstance(st0.op, ast.BitOr) and isinstance(st0.target, ast.Name) and st0.value is call:
                    union_target = st0.target.id
                elif isinstance(st0, ast.Call) and isinstance(st0.func, ast.Attribute) and st0.func.attr in ("update", "extend") and isinstance(st0.func.value, ast.Name) \
                        and call in st0.args:
                    union_target = st0.func.value.id
                if self.s_visited is None and union_target is not None:
                    self.functional = True
                    self.union = True
                    self.visited_name = union_target
                    pend = set()
                    for n in walk_no_nested_defs(g.node):
                        if isinstance(n, ast.While) and isinstance(n.test, ast.Name):
                            pend.add(n.test.id)
                    local_marked = [m for m in marked if m not in pend and m not in g.params]
                    for n in walk_no_nested_defs(g.node):
                        if isinstance(n, ast.Assign) and len(n.targets) == 1 and isinstance(n.targets[0], ast.Name) and isinstance(n.value, (ast.Set, ast.SetComp)) \
                                and n.targets[0].id not in pend and n.targets[0].id not in local_marked:
                            local_marked.append(n.targets[0].id)
                    if local_marked:
                        self.s_visited = sorted(local_marked)[0]
                # functional style: `V = search(root, table, V)` - the callee returns the accumulated set
                st = call.parent
                if self.s_visited is None and isinstance(st, ast.Assign) and len(st.targets) == 1 and isinstance(st.targets[0], ast.Name):
                    V = st.targets[0].id
                    for p, a in amap.items():
                        if isinstance(a, ast.Name) and a.id == V:
                            self.functional = True
                            self.visited_name, self.s_known = V, p
                            pend = set()
                            for n in walk_no_nested_defs(g.node):
                                if isinstance(n, ast.While) and isinstance(n.test, ast.Name):
                                    pend.add(n.test.id)
                            local_marked = [m for m in marked if m not in pend and m not in g.params]
                            if local_marked:
                                self.s_visited = sorted(local_marked)[0]
                break

    def _is_table(self, name):
        for n in walk_no_nested_defs(self.f.node):
            if isinstance(n, ast.Assign) and any(isinstance(t, ast.Name) and t.id == name for t in n.targets) \
                    and isinstance(n.value, ast.Call):
                cs = self.ctx.cg.resolve(n.value, self.f)
                if cs and "reverse_transition" in cs[0].name:
                    return True
        return False


def _search(ctx):
    if "C07.search" not in ctx.cache:
        ctx.cache["C07.search"] = Search(ctx)
    return ctx.cache["C07.search"]


# ---- C07.1 ---------------------------------------------------------------------------

def r1_no_recursion(ctx, chk, rule="C07.1"):
    f = _entry(ctx)
    shared.rule_no_recursion(ctx, chk, rule, [f], "reverse_dfs()")


# ---- C07.2 ---------------------------------------------------------------------------

class _Rec:
    def __init__(self):
        self.items = []

    def ok(self, rule, where, text, **kw):
        self.items.append(("ok", rule, where, text, kw))

    def violation(self, rule, where, text, **kw):
        self.items.append(("violation", rule, where, text, kw))

    def undecided(self, rule, where, text, **kw):
        self.items.append(("undecided", rule, where, text, kw))


def _generic(ctx):
    """Verdicts of the work-list recogniser (C07g) for designs the pattern rules do not know; None when it does not apply."""
    if "C07.generic" not in ctx.cache:
        from . import C07g
        s = _search(ctx)
        rec = _Rec()
        took = False
        if s.root_loop is None or s.search_fn is None:
            try:
                took = C07g.generic(ctx, rec, s.f, s.finals, "2", "3", "5")
            except AnalysisError:
                took = False
        ctx.cache["C07.generic"] = rec.items if took else None
        if took and s.visited_name is None:
            s.visited_name = took           # the result rule needs to know which collection holds the marked states
    return ctx.cache["C07.generic"]


def _replay(chk, items, mapping):
    n = 0
    for kind, rule, where, text, kw in items:
        if rule in mapping:
            getattr(chk, kind)(mapping[rule], where, text, **kw)
            n += 1
    return n


def r2_roots(ctx, chk, rule="C07.2"):
    s = _search(ctx)
    f = s.f
    g = _generic(ctx)
    if g is not None and _replay(chk, g, {"2": rule}):
        return
    if s.root_loop is None:
        # alternative idiom: worklist seeded with the whole final list
        for n in walk_no_nested_defs(f.node):
            if isinstance(n, ast.Assign) and isinstance(n.value, ast.Call) and call_name(n.value) in ("list", "set", "deque", "collections.deque") \
                    and n.value.args and isinstance(n.value.args[0], ast.Name) and n.value.args[0].id == s.finals:
                chk.undecided(rule, f.where(n), "search seeded from the whole final list at once: idiom not covered by the root-loop rule")
                return
        chk.undecided(rule, f.where(), "no loop over the final-state list found in reverse_dfs: cannot establish that every final state is a search root")
        return
    loop = s.root_loop
    where = f.where(loop)
    if isinstance(loop.iter, ast.Subscript):
        chk.violation(rule, where, "the root loop iterates `%s`, not the whole final-state list: final states outside the slice never start a search" % src(loop.iter),
                      expected="for <f> in %s" % s.finals, found=norm_stmt(loop), construct="reverse_dfs root loop sliced")
        return
    jumps = _stmts_with_jumps(loop.body, (ast.Break, ast.Return, ast.Continue))
    if jumps and all(isinstance(j, ast.Continue) and _skips_seen_root(j, loop) for j in jumps):
        # `if final in seen: continue`: a final state that is already marked is not searched again - right exactly when every marked
        # state is (or will be) expanded, which is the closure rule's business (C07.5), not this one's
        chk.undecided(rule, where, "the root loop skips final states that are already in a collection (`%s`): whether each of those has been or will be expanded "
                      "is the closure rule's question" % norm_stmt(getattr(jumps[0], "parent", jumps[0])))
        return
    if jumps:
        chk.violation(rule, where, "the root loop can skip final states: `%s` at line %d" % (norm_stmt(jumps[0]), jumps[0].lineno),
                      expected="every final state starts a search", found=norm_stmt(jumps[0]), construct="reverse_dfs root loop early exit")
        return
    if s.search_fn is None or s.s_root is None:
        chk.undecided(rule, where, "the root loop does not pass its loop variable to a search function")
        return
    # the search call must be unconditional in the loop body
    cfg = ctx.cfg(f)
    call_stmt = cfg.stmt_of(s.search_call)
    if call_stmt not in loop.body:
        # nested under a condition?
        p = call_stmt
        cond = None
        while p is not None and p is not loop:
            if isinstance(p, ast.If):
                cond = p
            p = getattr(p, "parent", None)
        if cond is not None:
            chk.undecided(rule, where, "the search call is conditional (`if %s`): cannot establish that every final state is searched" % src(cond.test))
            return
    chk.ok(rule, where, "every element of `%s` (whole list, no early exit) is passed as root `%s` to %s" % (s.finals, s.s_root, s.search_fn.short))


# ---- C07.3 / C07.5: worklist invariant ----------------------------------------------

def _block_of(node):
    """(statement list, index) containing the statement `node`."""
    p = node.parent
    for fld in ("body", "orelse", "finalbody"):
        lst = getattr(p, fld, None)
        if isinstance(lst, list) and node in lst:
            return lst, lst.index(node)
    return None, None


def _is_call_stmt(st, recv, meths):
    return isinstance(st, ast.Expr) and isinstance(st.value, ast.Call) and isinstance(st.value.func, ast.Attribute) \
        and isinstance(st.value.func.value, ast.Name) and st.value.func.value.id == recv and st.value.func.attr in meths


def _guarded_by_not_in(node, subj_src, coll, fn):
    """Is `node` only reached when `subj not in coll` holds?  Recognises an enclosing `if subj not in coll`
    (node in body), `if subj in coll: ... else:` (node in orelse) and an earlier `if subj in coll: return/continue`
    in an enclosing block."""
    found = []
    n = node
    while n is not None and n is not fn:
        p = getattr(n, "parent", None)
        if isinstance(p, ast.If):
            t = p.test
            tests = t.values if isinstance(t, ast.BoolOp) and isinstance(t.op, ast.And) else [t]
            for tt in tests:
                if isinstance(tt, ast.Compare) and len(tt.ops) == 1 and src(tt.left) == subj_src \
                        and isinstance(tt.comparators[0], ast.Name):
                    if isinstance(tt.ops[0], ast.NotIn) and n in p.body:
                        found.append(tt.comparators[0].id)
                    if isinstance(tt.ops[0], ast.In) and n in p.orelse and not isinstance(t, ast.BoolOp):
                        found.append(tt.comparators[0].id)
        lst, i = _block_of(n) if isinstance(n, ast.stmt) else (None, None)
        if lst:
            for prev in lst[:i]:
                if isinstance(prev, ast.If) and isinstance(prev.test, ast.Compare) and len(prev.test.ops) == 1 \
                        and isinstance(prev.test.ops[0], ast.In) and src(prev.test.left) == subj_src \
                        and isinstance(prev.test.comparators[0], ast.Name) and prev.body \
                        and isinstance(prev.body[-1], (ast.Return, ast.Continue)) and not prev.orelse:
                    found.append(prev.test.comparators[0].id)
        n = p
    if coll in found:
        return coll
    return found[0] if found else None


def _functional_accumulation(ctx, chk, s, rule):
    """`V = search(root, table, V)`: every value the search returns must contain the set it was given."""
    g = s.search_fn
    K, V = s.s_known, s.s_visited
    cfg = ctx.cfg(g)
    for r in [n for n in walk_no_nested_defs(g.node) if isinstance(n, ast.Return)]:
        v = r.value
        ok = False
        if isinstance(v, ast.Name) and v.id == K:
            ok = True
        elif isinstance(v, ast.BinOp) and isinstance(v.op, ast.BitOr) and K in (src(v.left), src(v.right)):
            ok = True
        elif isinstance(v, ast.Call) and isinstance(v.func, ast.Attribute) and v.func.attr == "union" and (src(v.func.value) == K or any(src(a) == K for a in v.args)):
            ok = True
        elif isinstance(v, ast.Name):
            # local initialised from the known set, or updated with it
            for d in cfg.defs_reaching(r, v.id):
                if isinstance(d, ast.Assign):
                    dv = d.value
                    if (isinstance(dv, ast.Call) and call_name(dv) in ("set", "list") and dv.args and src(dv.args[0]) == K) or \
                            (isinstance(dv, ast.Call) and isinstance(dv.func, ast.Attribute) and dv.func.attr == "copy" and src(dv.func.value) == K) or \
                            (isinstance(dv, ast.BinOp) and isinstance(dv.op, ast.BitOr) and K in (src(dv.left), src(dv.right))):
                        ok = True
            for n in walk_no_nested_defs(g.node):
                if isinstance(n, ast.Call) and isinstance(n.func, ast.Attribute) and n.func.attr in ("update", "extend") and src(n.func.value) == v.id \
                        and n.args and src(n.args[0]) == K and cfg.dominates(n, r):
                    ok = True
                if isinstance(n, ast.AugAssign) and isinstance(n.op, ast.BitOr) and src(n.target) == v.id and src(n.value) == K and cfg.dominates(n, r):
                    ok = True
        if ok:
            chk.ok(rule, g.where(r), "`%s` returns a set that contains the states found for earlier roots (`%s`)" % (norm_stmt(r), K))
        else:
            chk.violation(rule, g.where(r), "`%s`: the search returns only what this root reached and the caller replaces its accumulator with it - "
                          "states found for earlier final states are dropped from the result" % norm_stmt(r), expected="return a set containing `%s`" % K,
                          found=norm_stmt(r), construct="%s drops earlier roots" % g.short)


def _falsy_replaced_marks(ctx, chk, rule):
    """`marks = marks or set()` on a parameter that callers hand in to SHARE (a set of visited states): an empty container is
    falsy, so the caller's still-empty set is replaced by a fresh one and what this call records is lost to the caller - the next
    search starts without the marks of this one.  True if reported."""
    hit = False
    for g in ctx.prog.all_funcs(("reverse_dfs.py",)):
        for st in walk_no_nested_defs(g.node):
            if not (isinstance(st, ast.Assign) and len(st.targets) == 1 and isinstance(st.targets[0], ast.Name) and st.targets[0].id in g.params
                    and isinstance(st.value, ast.BoolOp) and isinstance(st.value.op, ast.Or) and len(st.value.values) == 2
                    and isinstance(st.value.values[0], ast.Name) and st.value.values[0].id == st.targets[0].id):
                continue
            p_ = st.targets[0].id
            fresh = st.value.values[1]
            if not (isinstance(fresh, (ast.List, ast.Set, ast.Dict)) or (isinstance(fresh, ast.Call) and call_name(fresh) in ("set", "list", "dict", "collections.deque", "deque"))):
                continue
            mutated = any(isinstance(c, ast.Call) and isinstance(c.func, ast.Attribute) and isinstance(c.func.value, ast.Name) and c.func.value.id == p_
                          and c.func.attr in ("add", "append", "update", "extend", "appendleft") for c in walk_no_nested_defs(g.node))
            passed = False
            for h in ctx.prog.all_funcs(("reverse_dfs.py", "tad.py")):
                for call, cs in ctx.cg.call_sites(h):
                    if any(c_.qual == g.qual for c_ in cs):
                        ps = [x for x in g.params if x != "self"]
                        if (p_ in ps and ps.index(p_) < len(call.args)) or any(k.arg == p_ for k in call.keywords):
                            passed = True
            if mutated and passed:
                hit = True
                chk.violation(rule, g.where(st), "`%s`: an EMPTY container handed in by the caller is falsy and is replaced by a fresh one, so what %s records in it (the visited marks) never "
                              "reaches the caller's object - the searches no longer share their marks and a state is found once per final state that reaches it" % (norm_stmt(st), g.short),
                              expected="`if %s is None: %s = ...`" % (p_, p_), found=norm_stmt(st), construct="%s falsy container replaced" % g.short)
    return hit


def r35_worklist(ctx, chk, rule3="C07.3", rule5="C07.5"):
    # (the marks lost to the caller cost the exactly-once clause of C07 only: each search still terminates and is complete, so the
    # properties that use the search as a prerequisite - values, strategies - are not touched by it)
    if rule3 == "C07.3" and _falsy_replaced_marks(ctx, chk, rule3):
        return
    s = _search(ctx)
    g = _generic(ctx)
    if g is not None:
        n = _replay(chk, g, {"3": rule3, "5": rule5})
        if n == 0:
            chk.undecided(rule3, s.f.where(), "the work-list search was not judged beyond its roots")
        return
    if s.search_fn is None or s.s_visited is None:
        chk.undecided(rule3, s.f.where(), "search function / visited collection not identified")
        chk.undecided(rule5, s.f.where(), "search function / visited collection not identified")
        return
    g = s.search_fn
    V = s.s_visited
    fn = g.node
    if s.functional and not s.union:
        _functional_accumulation(ctx, chk, s, rule5)
    elif s.union:
        chk.ok(rule5, s.f.where(s.search_call), "every root's search result is accumulated by union into `%s`" % s.visited_name)
    # kind of the visited collection (allocation in the entry function)
    pt = shared.solver_pointsto(ctx)
    vobjs = pt.get(("local", s.f.qual, s.visited_name))
    kinds = {o[4] for o in vobjs if o[0] == "alloc"}
    v_is_set = bool(kinds) and all(k in ("copy:set", "display:set", "comp:set") for k in kinds)

    marks, pushes = [], []
    pend_names = set()
    for n in walk_no_nested_defs(fn):
        if isinstance(n, ast.Expr) and isinstance(n.value, ast.Call) and isinstance(n.value.func, ast.Attribute) \
                and isinstance(n.value.func.value, ast.Name) and len(n.value.args) == 1:
            recv, m = n.value.func.value.id, n.value.func.attr
            if recv == V and m in ("add", "append"):
                marks.append(n)
            elif m in ("append", "appendleft", "add") and recv != V:
                pushes.append(n)
                pend_names.add(recv)
    # worklist loops: `while <pending>`
    wl = [n for n in walk_no_nested_defs(fn) if isinstance(n, ast.While)]
    if not marks or not wl:
        chk.undecided(rule5, g.where(), "no explicit worklist (while loop + visited marks) recognised in %s" % g.short)
        chk.undecided(rule3, g.where(), "no explicit worklist recognised in %s" % g.short)
        return
    W = wl[0]
    pending = None
    if isinstance(W.test, ast.Name):
        pending = W.test.id
    elif isinstance(W.test, ast.Compare) and isinstance(W.test.left, ast.Call) and call_name(W.test.left) == "len" \
            and isinstance(W.test.left.args[0], ast.Name):
        pending = W.test.left.args[0].id
    if pending is None:
        chk.undecided(rule5, g.where(W), "worklist loop test `%s` is not a test of a collection's non-emptiness" % src(W.test))
        return
    # (a) loop runs until the worklist is empty
    jumps = [j for j in _stmts_with_jumps(W.body, (ast.Break, ast.Return))]
    if jumps:
        chk.violation(rule5, g.where(jumps[0]), "the worklist loop can stop before the worklist is empty (`%s`): states still pending are never expanded" % norm_stmt(jumps[0]),
                      expected="while %s: ... until empty" % pending, found=norm_stmt(jumps[0]), construct="%s worklist early exit" % g.short)
    else:
        chk.ok(rule5, g.where(W), "worklist loop `while %s` has no break/return: runs until the worklist is empty" % src(W.test))
    # (b) popped state -> whole predecessor list
    pop_var = None
    for st in W.body:
        if isinstance(st, ast.Assign) and isinstance(st.value, ast.Call) and isinstance(st.value.func, ast.Attribute) \
                and st.value.func.attr in ("pop", "popleft") and isinstance(st.value.func.value, ast.Name) \
                and st.value.func.value.id == pending and isinstance(st.targets[0], ast.Name):
            pop_var = st.targets[0].id
    ploops = [n for st in W.body for n in ast.walk(st) if isinstance(n, ast.For)]
    if ploops and pop_var is None:
        it0 = ploops[0].iter
        if isinstance(it0, ast.Subscript) and isinstance(it0.slice, ast.Call) and isinstance(it0.slice.func, ast.Attribute) \
                and it0.slice.func.attr in ("pop", "popleft") and isinstance(it0.slice.func.value, ast.Name) and it0.slice.func.value.id == pending:
            pop_var = "<inline pop>"
    if pop_var is None or not ploops:
        chk.undecided(rule5, g.where(W), "worklist body does not have the shape `x = %s.pop(); for p in table[x]: ...`" % pending)
        return
    P = ploops[0]
    it = P.iter
    if pop_var == "<inline pop>":
        it = ast.Subscript(value=it.value, slice=ast.Name(id=pop_var, ctx=ast.Load()), ctx=ast.Load())
    if isinstance(it, ast.Subscript) and isinstance(it.slice, ast.Slice):
        chk.violation(rule5, g.where(P), "only a slice of the predecessors is examined: `%s`" % src(it),
                      expected="for p in %s[%s]" % (s.s_table, pop_var), found=norm_stmt(P), construct="%s predecessor loop sliced" % g.short)
        return
    if not (isinstance(it, ast.Subscript) and isinstance(it.value, ast.Name) and it.value.id == s.s_table
            and isinstance(it.slice, ast.Name) and it.slice.id == pop_var):
        chk.undecided(rule5, g.where(P), "predecessor loop iterates `%s`, expected `%s[%s]`" % (src(it), s.s_table, pop_var))
        return
    pj = _stmts_with_jumps(P.body, (ast.Break, ast.Return))
    if pj:
        chk.violation(rule5, g.where(pj[0]), "the predecessor loop stops early (`%s`): remaining predecessors of the state are never examined" % norm_stmt(pj[0]),
                      expected="every predecessor examined", found=norm_stmt(pj[0]), construct="%s predecessor loop early exit" % g.short)
        return
    pvar = P.target.id if isinstance(P.target, ast.Name) else None
    chk.ok(rule5, g.where(P), "every predecessor `%s` in `%s[%s]` of every popped state is examined (whole list, no early exit)" % (pvar, s.s_table, pop_var))
    # (c) marked => pushed, in the same block
    for m in marks:
        arg = src(m.value.args[0])
        lst, i = _block_of(m)
        paired = False
        for st in lst:
            if _is_call_stmt(st, pending, ("append", "appendleft")) and src(st.value.args[0]) == arg:
                paired = True
            if isinstance(st, ast.Assign) and isinstance(st.targets[0], ast.Name) and st.targets[0].id == pending \
                    and isinstance(st.value, (ast.List,)) and len(st.value.elts) == 1 and src(st.value.elts[0]) == arg:
                paired = True
            if isinstance(st, ast.Assign) and isinstance(st.targets[0], ast.Name) and st.targets[0].id == pending \
                    and isinstance(st.value, ast.Call) and call_name(st.value) in ("deque", "collections.deque", "list") \
                    and st.value.args and isinstance(st.value.args[0], ast.List) and len(st.value.args[0].elts) == 1 \
                    and src(st.value.args[0].elts[0]) == arg:
                paired = True
        if not paired:
            chk.violation(rule5, g.where(m), "`%s` marks a state as visited without pushing it on the worklist in the same step: "
                          "the state is never expanded, and the guard will skip it forever (its predecessors are lost)" % norm_stmt(m),
                          expected="%s.add(x) paired with %s.append(x)" % (V, pending), found=norm_stmt(m),
                          construct="%s marks without push" % g.short)
        else:
            chk.ok(rule5, g.where(m), "mark `%s` is paired with a push of the same state in the same block" % norm_stmt(m))
    # (d) every push of a predecessor is guarded by `not in V` and paired with a mark
    for pu in pushes:
        if pu.value.func.value.id != pending:
            continue
        arg = src(pu.value.args[0])
        lst, i = _block_of(pu)
        gcfg = ctx.cfg(g)
        has_mark = any(_is_call_stmt(st, V, ("add", "append")) and src(st.value.args[0]) == arg for st in lst) or \
            any(src(m.value.args[0]) == arg and gcfg.dominates(m, pu) and gcfg.loop_of.get(m) is gcfg.loop_of.get(gcfg.stmt_of(pu))
                for m in marks)
        coll = _guarded_by_not_in(pu, arg, V, fn)
        if coll is None:
            chk.violation(rule3, g.where(pu), "`%s` is not guarded by a `%s not in %s` test: on a cyclic graph states are pushed again and again" % (norm_stmt(pu), arg, V),
                          expected="if %s not in %s: ..." % (arg, V), found=norm_stmt(pu), construct="%s unguarded push" % g.short)
        elif coll != V:
            chk.violation(rule3, g.where(pu), "the guard tests `%s` but visited states are recorded in `%s`: a state reached through two predecessors is taken twice" % (coll, V),
                          expected="guard and accumulator are the same collection", found="%s not in %s" % (arg, coll),
                          construct="%s guard on stale collection" % g.short)
        elif not has_mark:
            chk.violation(rule3, g.where(pu), "`%s` pushes a state that is not marked visited in the same step: it can be pushed once per incoming edge" % norm_stmt(pu),
                          expected="%s.add(x) next to %s.append(x)" % (V, pending), found=norm_stmt(pu), construct="%s push without mark" % g.short)
        else:
            chk.ok(rule3, g.where(pu), "push `%s` is guarded by `%s not in %s` and marks the state in the same block" % (norm_stmt(pu), arg, V))
    # (e) the root is marked + pushed, guarded
    root_marked = [m for m in marks if src(m.value.args[0]) == s.s_root]
    for n in walk_no_nested_defs(fn):
        if isinstance(n, ast.Assign) and len(n.targets) == 1 and isinstance(n.targets[0], ast.Name) and n.targets[0].id == V:
            v = n.value
            elts = v.elts if isinstance(v, (ast.Set, ast.List)) else (v.args[0].elts if isinstance(v, ast.Call) and v.args and isinstance(v.args[0], (ast.List, ast.Set, ast.Tuple)) else [])
            if any(src(e) == s.s_root for e in elts):
                root_marked.append(n)
    if not root_marked:
        chk.undecided(rule5, g.where(), "the search root `%s` is never marked visited" % s.s_root)
    # exactly-once by type
    if v_is_set:
        chk.ok(rule3, s.f.where(), "visited collection `%s` is a set (allocation %s): duplicate-free by construction" % (s.visited_name, sorted(kinds)))
    else:
        for m in marks:
            arg = src(m.value.args[0])
            coll = _guarded_by_not_in(m, arg, V, fn)
            if coll != V:
                chk.violation(rule3, g.where(m), "visited collection `%s` is not a set and `%s` is not guarded by `%s not in %s`: a state can be recorded twice" % (V, norm_stmt(m), arg, V),
                              expected="guarded append or a set", found=norm_stmt(m), construct="%s unguarded mark on list" % g.short)
            else:
                chk.ok(rule3, g.where(m), "append to list `%s` guarded by membership test on the same list" % V)


# ---- C07.4 ------------------------------------------------------------------------------

def _is_set_of(e, name, cfg, at):
    if isinstance(e, ast.Call) and call_name(e) in ("set", "frozenset") and e.args and isinstance(e.args[0], ast.Name) \
            and e.args[0].id == name:
        return True
    if isinstance(e, ast.Name):
        defs = cfg.defs_reaching(at, e.id)
        if len(defs) == 1 and isinstance(next(iter(defs)), ast.Assign):
            return _is_set_of(next(iter(defs)).value, name, cfg, at)
    return False


def r4_result(ctx, chk, rule="C07.4", order_matters=True):
    """order_matters=False when used as a prerequisite of the value iteration: the limit of the sweep does not depend
    on the order of its domain, only C07 itself promises an ascending result."""
    s = _search(ctx)
    _generic(ctx)
    f = s.f
    cfg = ctx.cfg(f)
    rets = [n for n in walk_no_nested_defs(f.node) if isinstance(n, ast.Return)]
    if len(rets) != 1 or rets[0].value is None:
        chk.undecided(rule, f.where(), "reverse_dfs has %d return statements; expected one" % len(rets))
        return
    ret = rets[0]
    val = ret.value
    sorted_by = None
    compr = None
    if isinstance(val, ast.Call) and call_name(val) == "sorted" and val.args:
        sorted_by, inner = "sorted() at the return", val.args[0]
        compr = inner
        if isinstance(inner, ast.Name) and inner.id != s.visited_name:
            defs = cfg.defs_reaching(ret, inner.id)
            if len(defs) == 1 and isinstance(next(iter(defs)), ast.Assign):
                compr = next(iter(defs)).value
    elif isinstance(val, ast.Name):
        R = val.id
        defs = cfg.defs_reaching(ret, R)
        if len(defs) != 1 or not isinstance(next(iter(defs)), ast.Assign):
            chk.undecided(rule, f.where(ret), "the returned variable `%s` has %d reaching definitions" % (R, len(defs)))
            return
        D = next(iter(defs))
        compr = D.value
        if isinstance(compr, ast.Call) and call_name(compr) == "sorted" and compr.args:
            sorted_by, compr = "sorted() in `%s`" % norm_stmt(D), compr.args[0]
        # typestate: mutators applied to R between D and the return
        muts = []
        for n in cfg.statements():
            if isinstance(n, ast.Expr) and isinstance(n.value, ast.Call) and isinstance(n.value.func, ast.Attribute) \
                    and isinstance(n.value.func.value, ast.Name) and n.value.func.value.id == R:
                muts.append(n)
        sorts = [m for m in muts if m.value.func.attr == "sort" and not m.value.args
                 and not any(k.arg in ("reverse", "key") for k in m.value.keywords)]
        rev_sorts = [m for m in muts if m.value.func.attr == "sort" and m not in sorts]
        if not order_matters:
            sorts, rev_sorts = sorts + rev_sorts, []
        for m in rev_sorts:
            chk.violation(rule, f.where(m), "`%s` does not sort ascending by value" % norm_stmt(m), expected="%s.sort()" % R,
                          found=norm_stmt(m), construct="reverse_dfs result not ascending")
            return
        if sorted_by is None:
            good = [m for m in sorts if cfg.dominates(D, m) and cfg.dominates(m, ret)
                    and not any(o is not m and o not in sorts and cfg.path_exists(m, o) and cfg.path_exists(o, ret) for o in muts)]
            if good:
                sorted_by = "`%s` dominates the return and is the last structural operation on `%s`" % (norm_stmt(good[0]), R)
        if sorted_by is None and not order_matters:
            sorted_by = "(order not required by this property)"
        if sorted_by is None:
            chk.violation(rule, f.where(ret), "the returned list `%s` is not sorted on every path to the return" % R,
                          expected="last structural operation before `return %s` is %s.sort()" % (R, R),
                          found="mutators on %s: %s" % (R, [norm_stmt(m) for m in muts]), construct="reverse_dfs result unsorted")
            return
    elif isinstance(val, (ast.ListComp, ast.GeneratorExp, ast.SetComp)) or (isinstance(val, ast.Call) and call_name(val) in ("list", "tuple") and val.args):
        # the collection is returned as built: nothing sorts it
        compr = val if not isinstance(val, ast.Call) else val.args[0]
        by_index = False
        if isinstance(compr, (ast.ListComp, ast.GeneratorExp)) and len(compr.generators) == 1 and isinstance(compr.elt, ast.Name):
            g0 = compr.generators[0]
            if isinstance(g0.iter, ast.Call) and call_name(g0.iter) == "enumerate" and len(g0.iter.args) == 1 and isinstance(g0.target, ast.Tuple) and g0.target.elts \
                    and isinstance(g0.target.elts[0], ast.Name) and g0.target.elts[0].id == compr.elt.id:
                by_index = True         # positions of a list, in order: ascending by construction
            if isinstance(g0.iter, ast.Call) and call_name(g0.iter) == "range" and len(g0.iter.args) <= 2 and isinstance(g0.target, ast.Name) and g0.target.id == compr.elt.id:
                by_index = True
        if by_index:
            sorted_by = "the result lists positions in increasing order (`%s`)" % src(compr.generators[0].iter)[:50]
        elif order_matters:
            chk.violation(rule, f.where(ret), "the result `%s` is returned as it was built: it is not sorted" % src(val)[:80],
                          expected="sorted(...) / .sort() before the return", found=src(val)[:100], construct="reverse_dfs result unsorted")
            return
        if not by_index:
            sorted_by = "(order not required by this property)"
    else:
        chk.undecided(rule, f.where(ret), "return value `%s` not recognised" % src(val))
        return
    chk.ok(rule, f.where(ret), "result is sorted ascending: %s" % sorted_by if order_matters else "result order: %s" % sorted_by)
    # `R = []; for x in V: if <test>: R.append(x)` is the comprehension [x for x in V if <test>]
    if isinstance(compr, ast.List) and not compr.elts and isinstance(val, ast.Name):
        R = val.id
        loops = [n for n in cfg.statements() if isinstance(n, ast.For) and isinstance(n.target, ast.Name)
                 and any(isinstance(c, ast.Call) and isinstance(c.func, ast.Attribute) and c.func.attr == "append" and isinstance(c.func.value, ast.Name) and c.func.value.id == R
                         for c in ast.walk(n))]
        if len(loops) == 1 and not loops[0].orelse:
            lp = loops[0]
            tests, body = [], lp.body
            while len(body) == 1 and isinstance(body[0], ast.If) and not body[0].orelse:
                tests.append(body[0].test)
                body = body[0].body
            if len(body) == 1 and isinstance(body[0], ast.Expr) and isinstance(body[0].value, ast.Call) and isinstance(body[0].value.func, ast.Attribute) \
                    and body[0].value.func.attr == "append" and len(body[0].value.args) == 1:
                compr = ast.ListComp(elt=body[0].value.args[0], generators=[ast.comprehension(target=lp.target, iter=lp.iter, ifs=tests, is_async=0)])
                ast.copy_location(compr, lp)
                ast.fix_missing_locations(compr)
    # filter form
    if isinstance(compr, (ast.ListComp, ast.GeneratorExp, ast.SetComp)) and len(compr.generators) == 1:
        gen = compr.generators[0]
        x = gen.target.id if isinstance(gen.target, ast.Name) else None
        srcname = gen.iter.id if isinstance(gen.iter, ast.Name) else None
        if x is None or src(compr.elt) != x:
            chk.undecided(rule, f.where(compr), "result comprehension maps its elements: `%s`" % src(compr))
            return
        if srcname != s.visited_name and (s.visited_name is None or srcname is None or (srcname not in f.params and not _plain_collection_local(f, srcname))):
            # the elements come from something that is not traced (a lazy stream of discoveries, a helper's result)
            chk.undecided(rule, f.where(compr), "the result is drawn from `%s`; its relation to the visited collection `%s` is not resolved" % (src(gen.iter)[:60], s.visited_name))
            return
        fed_by_search = srcname is not None and s.search_fn is not None and any(
            isinstance(n_, ast.Call) and isinstance(n_.func, ast.Attribute) and n_.func.attr in ("extend", "append", "update") and isinstance(n_.func.value, ast.Name)
            and n_.func.value.id == srcname and any(isinstance(c_, ast.Call) and s.search_fn in ctx.cg.resolve(c_, f) for a_ in n_.args for c_ in ast.walk(a_))
            for n_ in walk_no_nested_defs(f.node))
        if srcname != s.visited_name and fed_by_search:
            chk.undecided(rule, f.where(compr), "the result is drawn from `%s`, which collects what the searches return: its relation to the visited collection `%s` is not resolved" % (
                srcname, s.visited_name))
            return
        if srcname != s.visited_name:
            chk.violation(rule, f.where(compr), "the result is built from `%s`, not from the visited collection `%s`" % (src(gen.iter), s.visited_name),
                          expected="[x for x in %s if x not in %s]" % (s.visited_name, s.finals), found=src(compr), construct="reverse_dfs result source")
            return
        shape = len(gen.ifs) == 1 and isinstance(gen.ifs[0], ast.Compare) and len(gen.ifs[0].ops) == 1 \
            and isinstance(gen.ifs[0].ops[0], ast.NotIn) and src(gen.ifs[0].left) == x
        cont = gen.ifs[0].comparators[0] if shape else None
        # the final states, or a set / tuple made of them once (membership is the same question)
        ok_filter = shape and ((isinstance(cont, ast.Name) and cont.id == s.finals) or _is_set_of(cont, s.finals, cfg, ret)
                               or (isinstance(cont, ast.Call) and call_name(cont) in ("list", "tuple") and len(cont.args) == 1 and isinstance(cont.args[0], ast.Name) and cont.args[0].id == s.finals))
        if shape and not ok_filter and isinstance(cont, ast.Name) and s.root_loop is not None and isinstance(s.root_loop.target, ast.Name):
            # a set of the final states collected by the root loop itself: complete only if every iteration adds its final state
            rl = s.root_loop
            adds = [n_ for n_ in ast.walk(rl) if isinstance(n_, ast.Call) and isinstance(n_.func, ast.Attribute) and n_.func.attr in ("add", "append") and isinstance(n_.func.value, ast.Name)
                    and n_.func.value.id == cont.id and len(n_.args) == 1 and isinstance(n_.args[0], ast.Name) and n_.args[0].id == rl.target.id]
            other_writes = [n_ for n_ in walk_no_nested_defs(f.node) if isinstance(n_, ast.Call) and isinstance(n_.func, ast.Attribute) and isinstance(n_.func.value, ast.Name)
                            and n_.func.value.id == cont.id and n_.func.attr in ("add", "append", "update", "extend", "discard", "remove", "pop", "clear") and n_ not in adds]
            if adds and not other_writes:
                st_add = cfg.stmt_of(adds[0])
                top = st_add in rl.body
                before = rl.body[:rl.body.index(st_add)] if top else []
                skipped = (not top) or any(isinstance(j_, (ast.Continue, ast.Break, ast.Return)) for b_ in before for j_ in ast.walk(b_))
                if skipped:
                    chk.violation(rule, f.where(compr), "the result is filtered by `%s`, which the root loop fills only on some iterations (`%s` is %s): a final state that is skipped "
                                  "there - a repeated one, one already reached from an earlier final state - is not in the set and stays in the result" % (
                                      cont.id, norm_stmt(st_add), "under a condition" if not top else "behind a `continue`"),
                                  expected="every final state filtered out of the result", found=src(compr)[:100], construct="reverse_dfs partial final set")
                    return
                ok_filter = True
        if shape and not ok_filter and not (isinstance(cont, ast.Name) and cont.id in (s.visited_name,)) and not isinstance(cont, (ast.List, ast.Tuple, ast.Set, ast.Constant)):
            chk.undecided(rule, f.where(compr), "the result filter is `%s`: `%s` is not recognised as the final states" % (src(gen.ifs[0]), src(cont)))
            return
        if not gen.ifs:
            chk.violation(rule, f.where(compr), "final states are not filtered out of the result", expected="if x not in %s" % s.finals,
                          found=src(compr), construct="reverse_dfs result filter missing")
        elif not ok_filter:
            chk.violation(rule, f.where(compr), "the result filter is `%s`, not `%s not in %s`" % (" and ".join(src(i) for i in gen.ifs), x, s.finals),
                          expected="if x not in %s" % s.finals, found=src(compr), construct="reverse_dfs result filter")
        else:
            chk.ok(rule, f.where(compr), "result = FILTER(x not in %s) of the visited collection `%s`" % (s.finals, s.visited_name))
    elif isinstance(compr, ast.BinOp) and isinstance(compr.op, ast.Sub) and isinstance(compr.left, ast.Name) \
            and compr.left.id == s.visited_name and _is_set_of(compr.right, s.finals, cfg, ret):
        chk.ok(rule, f.where(compr), "result = %s - set(%s)" % (s.visited_name, s.finals))
    elif isinstance(compr, ast.Call) and isinstance(compr.func, ast.Attribute) and compr.func.attr == "difference" and isinstance(compr.func.value, ast.Name) \
            and compr.func.value.id == s.visited_name and len(compr.args) == 1 and (
                (isinstance(compr.args[0], ast.Name) and compr.args[0].id == s.finals) or _is_set_of(compr.args[0], s.finals, cfg, ret)):
        chk.ok(rule, f.where(compr), "result = %s.difference(%s)" % (s.visited_name, s.finals))
    elif (isinstance(compr, ast.Name) and compr.id == s.visited_name) or \
            (isinstance(compr, ast.Call) and call_name(compr) in ("list", "sorted") and compr.args and isinstance(compr.args[0], ast.Name)
             and compr.args[0].id == s.visited_name):
        # no filter at the result: the final states must have been removed from the visited collection itself,
        # after the last search that can add to it
        removals = []
        for n in cfg.statements():
            if isinstance(n, ast.Expr) and isinstance(n.value, ast.Call) and isinstance(n.value.func, ast.Attribute) \
                    and isinstance(n.value.func.value, ast.Name) and n.value.func.value.id == s.visited_name \
                    and n.value.func.attr in ("discard", "remove", "difference_update"):
                removals.append(n)
            if isinstance(n, ast.AugAssign) and isinstance(n.op, ast.Sub) and isinstance(n.target, ast.Name) and n.target.id == s.visited_name:
                removals.append(n)
        if not removals:
            chk.violation(rule, f.where(ret), "final states are not filtered out of the result: value iteration will overwrite their probability 1",
                          expected="[x for x in %s if x not in %s]" % (s.visited_name, s.finals), found=src(val), construct="reverse_dfs result filter missing")
            return
        search_stmt = cfg.stmt_of(s.search_call) if s.search_call is not None else None
        for r in removals:
            if search_stmt is not None and (cfg.path_exists(r, search_stmt) or r is search_stmt):
                chk.violation(rule, f.where(r), "`%s` removes a final state from the visited collection while later searches can still add to it: "
                              "a final state that is a predecessor of a later root is re-added and stays in the result" % norm_stmt(r),
                              expected="finals removed after the last search (or filtered at the result)", found=norm_stmt(r),
                              construct="reverse_dfs final removed inside the root loop")
                return
        chk.undecided(rule, f.where(ret), "final states are removed from the visited collection by `%s`; coverage of all finals not established" % norm_stmt(removals[0]))
    else:
        # whatever the construction: when the final-state list is used for nothing but starting the searches, nothing can keep a final
        # state out of the result - and a final state that precedes another final state is discovered by that state's search
        uses = [n for n in walk_no_nested_defs(f.node) if isinstance(n, ast.Name) and n.id == s.finals and isinstance(n.ctx, ast.Load)]
        only_roots = bool(uses) and all(isinstance(getattr(n, "parent", None), ast.For) and n.parent.iter is n for n in uses)
        if only_roots and s.root_loop is not None:
            chk.violation(rule, f.where(ret), "`%s` is only ever iterated to start the searches: nothing removes the final states from the result, so a final state from which another "
                          "final state is reachable is returned as if it were non-final (and which ones depends on the order of the list)" % s.finals,
                          expected="[x for x in visited if x not in %s]" % s.finals, found=src(val)[:80], construct="reverse_dfs result filter missing")
            return
        chk.undecided(rule, f.where(ret), "result construction `%s` not recognised as a filter of the visited collection" % src(compr))


# ---- C07.6 ----------------------------------------------------------------------------------

def r6_reversed_table(ctx, chk, rule="C07.6"):
    q = "reverse_dfs.py::reverse_transition_list"
    f = ctx.func(q)
    sx = SymX(ctx, f).run()
    tl = ("v", f.params[0])
    where = f.where()
    ret = sx.ret
    fn_of = lambda name: ctx.prog.funcs.get("reverse_dfs.py::" + name, f)
    n_states = ("call", "len", (tl,), ())
    full_range = (("call", "range", (n_states,), ()), ("call", "range", (C(0), n_states), ()))
    # ---- (1) completion: every state gets an entry ------------------------------------------------------------
    # form C: `for s in range(...): d.setdefault(s, [])` - the dict is completed in place and returned as it is
    formC = None
    for Lc_ in sx.loops.values():
        if Lc_.kind == "for" and Lc_.source[0] == "call" and Lc_.source[1] == "range":
            sd = [x for x in Lc_.effects if x[1] == "call" and x[2][0] == "mcall" and x[2][2] == "setdefault" and x[2][3] == (("elem", Lc_.id), ("list", ()))]
            if sd and sd[0][2][1] == ret:
                formC = (Lc_, sd[0])
    if formC is not None:
        Lm, sd = formC
        cw = fn_of("add_missing_states").where(Lm.node)
        if Lm.has_break or Lm.has_return or sd[0] != TRUE:
            chk.violation(rule, cw, "the completion loop does not reach every state (early exit / conditional)", expected="every state", found=show(sd[0]), construct="add_missing_states early exit")
            return
        if Lm.source not in full_range:
            chk.violation(rule, cw, "the completion loop covers `%s`, not range(len(transition_list)): some state has no entry in the reversed table "
                          "(a state without predecessors numbered above every successor makes the search raise KeyError)" % show(Lm.source),
                          expected="range(len(%s))" % f.params[0], found=show(Lm.source), construct="add_missing_states range")
            return
        chk.ok(rule, cw, "completion: table.setdefault(s, []) for every s in range(len(%s)) (every state has an entry)" % f.params[0])
        base_dict = ret
        v = None
    sp = _single_pass_loops(sx, ret, tl) if formC is None else None
    if sp is not None:
        # the dictionary that the single pass fills is returned as it is: it must have had an entry for every state from the start
        Lo = sp[0]
        init = Lo.init.get(sp[2])
        pre = init is not None and init[0] == "compr" and init[1] in sx.loops and sx.loops[init[1]].ckind == "dict" and not sx.loops[init[1]].filters \
            and sx.loops[init[1]].source in full_range and sx.loops[init[1]].elt == ("tup", (("elem", init[1]), ("list", ())))
        if pre:
            chk.ok(rule, f.where(Lo.node), "completion: the table starts as {s: [] for s in range(len(%s))} (every state has an entry)" % f.params[0])
        elif init is not None and init[0] == "compr":
            chk.violation(rule, f.where(Lo.node), "the table starts as `%s`, which does not give every state in range(len(%s)) an empty entry" % (show(sx.loops[init[1]].source), f.params[0]),
                          expected="{s: [] for s in range(len(%s))}" % f.params[0], found=show(init), construct="reversed table initial entries")
            return
        else:
            chk.violation(rule, f.where(Lo.node), "states without predecessors get no entry in the reversed table: nothing completes it after the grouping pass "
                          "(the search raises KeyError when it expands such a state)", expected="an entry for every state", found="no completion", construct="reversed table not completed")
            return
        _single_pass(ctx, chk, rule, sx, sp, tl, f, where)
        return
    if formC is None and ret[0] != "res":
        chk.undecided(rule, where, "reverse_transition_list does not return the result of the completion loop: %s" % show(ret))
        return
    if formC is None:
        Lm = sx.loops[ret[1]]
        v = ret[2]
    if formC is None:
        _ok = _completion_AB(ctx, chk, rule, sx, Lm, v, full_range, f, fn_of)
        if _ok is None:
            return
        base_dict = _ok
    sp = _single_pass_loops(sx, base_dict, tl)
    if sp is not None:
        if sp[0].init.get(sp[2]) not in (("dict", ()), ("call", "dict", (), ())):
            chk.undecided(rule, where, "the table filled by the grouping pass does not start empty: `%s`" % show(sp[0].init.get(sp[2])))
            return
        _single_pass(ctx, chk, rule, sx, sp, tl, f, where)
        return
    _grouping_and_pairs(ctx, chk, rule, sx, base_dict, tl, f, fn_of, where)


OLD_ENTRY = ("v", "<entry of the key>")


def _single_pass_loops(sx, t, tl):
    """t = the dictionary after `for s, ts in enumerate(tl): for (_, target) in ts: <update of the entry of target>`:
    (outer loop, inner loop, name of the dictionary variable) or None"""
    if t[0] != "res" or t[1] not in sx.loops:
        return None
    Lo = sx.loops[t[1]]
    if Lo.kind != "for" or Lo.source != tl or not Lo.enumerated or len(Lo.inner) != 1:
        return None
    Li = sx.loops[Lo.inner[0]]
    if Li.kind != "for" or Li.source != ("elem", Lo.id) or Lo.update.get(t[2]) != ("res", Li.id, t[2]):
        return None
    return Lo, Li, t[2]


def _entry_after(Li, d, k, present):
    """The entry of key k after one iteration of the inner loop, given that k was present (with the list OLD_ENTRY) / absent before:
    a tuple of appended items following the old content ('OLD', items...) / ('NEW', items...), or None when the iteration does
    something that is not understood.  The membership tests the code may use (`k in d`, `k not in d`, `d.get(k) is None`,
    `d.get(k, default)`, `d.setdefault(k, [])`, `d[k]`) are decided by the case."""
    from ..symx import subst, deep_simp
    D = ("acc", Li.id, d)

    def sigma(t):
        def g(x):
            if x[0] == "cmp" and x[1] in ("in", "notin") and x[2] == k and x[3] in (D, ("mcall", D, "keys", (), ())):
                return C((x[1] == "in") == present)
            if x[0] == "mcall" and x[1] == D and x[2] == "get" and x[3] and x[3][0] == k:
                return OLD_ENTRY if present else (x[3][1] if len(x[3]) > 1 else C(None))
            if x[0] == "idx" and x[1] == D and x[2] == k:
                return OLD_ENTRY if present else ("keyerror",)
            return None
        for _ in range(3):
            t0 = t
            t = subst(t, g)
            t = subst(t, lambda x: C(x[1] in ("isnot", "!=")) if x[0] == "cmp" and x[1] in ("is", "isnot", "==", "!=") and OLD_ENTRY in (x[2], x[3]) and C(None) in (x[2], x[3]) else None)
            t = deep_simp(t)
            # the entry read back right after it was stored in this iteration
            t = subst(t, lambda x: x[1][3] if x[0] == "idx" and x[1][0] == "setitem" and x[1][1] == D and x[1][2] == k and x[2] == k else None)
            if t == t0:
                break
        return t
    state = ("OLD",) if present else None           # None = no entry
    stored = None                                    # the term last stored under k in this iteration (identity of a fresh list)
    for e in Li.effects:
        cond = sigma(e[0])
        if cond == FALSE:
            continue
        if cond != TRUE:
            return None
        if e[1] == "setitem":
            base, key, val = e[2], sigma(e[3]), sigma(e[4])
            if key != k:
                return None
            if val[0] == "list":
                state, stored = ("NEW",) + tuple(val[1]), val
            elif val[0] == "cat" and val[1] == OLD_ENTRY and val[2][0] == "list" and state is not None and state[0] == "OLD" and len(state) == 1:
                state = ("OLD",) + tuple(val[2][1])
            else:
                return None
        elif e[1] == "call":
            t = sigma(e[2])
            if t[0] != "mcall":
                return None
            recv, m, args = t[1], t[2], t[3]
            if m == "setdefault" and recv == D and len(args) == 2 and args[0] == k and args[1] == ("list", ()):
                if state is None:
                    state = ("NEW",)
                continue
            if m != "append" or len(args) != 1:
                return None
            if recv[0] == "mcall" and recv[1] == D and recv[2] == "setdefault" and len(recv[3]) == 2 and recv[3][0] == k and recv[3][1] == ("list", ()):
                if state is None:
                    state = ("NEW",)
                state = state + (args[0],)
            elif recv == OLD_ENTRY and state is not None and state[0] == "OLD":
                state = state + (args[0],)
            elif state is not None and state[0] == "NEW" and (recv == stored or recv == ("list", state[1:])):
                state = state + (args[0],)
            else:
                return None
        else:
            return None
    return state


def _single_pass(ctx, chk, rule, sx, sp, tl, f, where):
    """grouping without an intermediate pair list: one append of the source under the target's key per transition"""
    Lo, Li, d = sp
    w = f.where(Li.node)
    if not Lo.whole or Lo.has_break or Lo.has_return or not Li.whole or Li.has_break or Li.has_return:
        chk.violation(rule, w, "the loops over the states / their transitions do not process every transition (slice / break / continue)", expected="one append per transition",
                      found=norm_stmt(Li.node)[:80], construct="single-pass grouping partial")
        return False
    k, v = simp(("idx", ("elem", Li.id), C(1))), ("pos", Lo.id)
    pres, absent = _entry_after(Li, d, k, True), _entry_after(Li, d, k, False)
    if pres is None or absent is None:
        chk.undecided(rule, w, "the update of the reversed table per transition is not in a recognised form (entry present: %s, entry absent: %s)" % (pres, absent))
        return False
    if pres == ("OLD", v) and absent == ("NEW", v):
        chk.ok(rule, w, "grouping in one pass: for every state s (enumerate, whole list) and every transition (_, t) of s the entry of t gets s appended "
               "(entry present: old list + [s]; entry absent: [s]) - multiplicity kept, nothing filtered")
        return True
    what = "when the target already has an entry it becomes %s, when it has none it becomes %s" % (
        "old list + %s" % [show(x) for x in pres[1:]] if pres[0] == "OLD" else "a new list %s" % [show(x) for x in pres[1:]],
        [show(x) for x in absent[1:]])
    chk.violation(rule, w, "the reversed table is not `entry(t).append(s)` per transition: %s" % what, expected="old + [s] / [s]", found=what, construct="single-pass grouping update")
    return False


def _completion_AB(ctx, chk, rule, sx, Lm, v, full_range, f, fn_of):
    acc, e = ("acc", Lm.id, v), ("elem", Lm.id)
    up = Lm.update[v]
    base_dict = Lm.init[v]
    cw = fn_of("add_missing_states").where(Lm.node)
    if Lm.has_break or Lm.has_return:
        chk.violation(rule, cw, "the completion loop exits early: some state has no entry in the reversed table", expected="every state", found="early exit", construct="add_missing_states early exit")
        return None
    formA = Lm.source in full_range and up == simp(("ite", simp(("cmp", "notin", e, acc)), ("setitem", acc, e, ("list", ())), acc))
    formB = False
    rng = Lm.source
    if Lm.source[0] == "compr":
        Lc = sx.loops[Lm.source[1]]
        ce = ("elem", Lc.id)
        if Lc.elt == ce and Lc.filters == [simp(("cmp", "notin", ce, base_dict))] and up == ("setitem", acc, e, ("list", ())):
            formB = Lc.source in full_range
            rng = Lc.source
    if not (formA or formB) and up == ("setitem", acc, e, ("list", ())):
        # the missing states collected first, by a loop (`missing = []; for s in range(n): if s not in d: missing.append(s)`) ...
        src_t = Lm.source
        while src_t[0] == "call" and src_t[1] in ("sorted", "list", "tuple") and len(src_t[2]) == 1 and not src_t[3]:
            src_t = src_t[2][0]
        if src_t[0] == "res" and src_t[1] in sx.loops and sx.loops[src_t[1]].kind == "for":
            Lc = sx.loops[src_t[1]]
            fo = classify(Lc).get(src_t[2])
            ce = ("elem", Lc.id)
            guard = simp(("cmp", "notin", ce, base_dict))
            if fo is not None and fo.kind == "COLLECT" and fo.term == ce and Lc.init.get(src_t[2]) == ("list", ()) and not Lc.has_break and not Lc.has_return and Lc.whole \
                    and simp(("and", (Lc.filter, getattr(fo, "own_filter", None) or TRUE))) == guard:
                formB = Lc.source in full_range
                rng = Lc.source
        # ... or as a set difference: set(range(n)) - <the keys of d>
        def _range_set(t):
            return t[0] == "call" and t[1] in ("set", "frozenset") and len(t[2]) == 1 and t[2][0] in full_range

        def _keys_of(t):
            if t == base_dict:
                return True
            if t[0] == "call" and t[1] in ("set", "frozenset", "list") and len(t[2]) == 1:
                return _keys_of(t[2][0])
            return t[0] == "mcall" and t[2] == "keys" and t[1] == base_dict
        if src_t[0] == "mcall" and src_t[2] == "difference" and len(src_t[3]) == 1 and _range_set(src_t[1]) and _keys_of(src_t[3][0]):
            formB, rng = True, src_t[1][2][0]
        if src_t[0] == "sub" and _range_set(src_t[1]) and _keys_of(src_t[2]) and src_t[2] != base_dict:
            formB, rng = True, src_t[1][2][0]
    if not (formA or formB):
        if rng[0] == "call" and rng[1] == "range" and rng not in full_range:
            chk.violation(rule, cw, "the completion loop covers `%s`, not range(len(transition_list)): some state has no entry in the reversed table" % show(rng),
                          expected="range(len(%s))" % f.params[0], found=show(rng), construct="add_missing_states range")
        else:
            chk.undecided(rule, cw, "completion not in the form `for s in range(n): if s not in d: d[s] = []`: source %s, update %s" % (show(Lm.source), show(up)))
        return None
    chk.ok(rule, cw, "completion: every s in range(len(%s)) without an entry gets `table[s] = []` (every state has an entry)" % f.params[0])
    return base_dict


def _grouping_and_pairs(ctx, chk, rule, sx, base_dict, tl, f, fn_of, where):
    # ---- (2) grouping: one append per pair, multiplicity kept -------------------------------------------------------
    gw_f = fn_of("list_of_tuples_to_dict_of_lists")
    pairs_t = None
    if base_dict[0] == "res":
        Lg = sx.loops[base_dict[1]]
        gv = base_dict[2]
        gacc, ge = ("acc", Lg.id, gv), ("elem", Lg.id)
        k, val = simp(("idx", ge, C(0))), simp(("idx", ge, C(1)))
        gwant = simp(("ite", simp(("cmp", "notin", k, gacc)), ("setitem", gacc, k, ("list", ())), gacc))
        appends = [x for x in Lg.effects if x[1] == "call" and x[2][0] == "mcall" and x[2][2] == "append"]
        good = [x for x in appends if x[0] == TRUE and x[2][1][0] == "idx" and x[2][1][2] == k and x[2][3] == (val,)]
        ok_group = Lg.update[gv] == gwant and len(good) == 1 and len(appends) == 1
    else:
        Lg = None
        for L in sx.loops.values():
            if L.kind == "for" and any(x[1] == "call" and x[2][0] == "mcall" and x[2][2] == "append" and x[2][1][0] == "mcall" and x[2][1][2] == "setdefault"
                                       and x[2][1][1] == base_dict for x in L.effects):
                Lg = L
        if Lg is None:
            chk.undecided(rule, where, "the table completed by the last loop (`%s`) is not the result of a recognised grouping loop" % show(base_dict)[:80])
            return
        ge = ("elem", Lg.id)
        k, val = simp(("idx", ge, C(0))), simp(("idx", ge, C(1)))
        appends = [x for x in Lg.effects if x[1] == "call" and x[2][0] == "mcall" and x[2][2] == "append"]
        good = [x for x in appends if x[0] == TRUE and x[2][1] == ("mcall", base_dict, "setdefault", (k, ("list", ())), ()) and x[2][3] == (val,)]
        ok_group = len(good) == 1 and len(appends) == 1
        # the table filled in ONE pass over the transition list, without the intermediate pair list:
        #   for s, ts in enumerate(transition_list): for _, t in ts: table.setdefault(t, []).append(s)
        outer = [L for L in sx.loops.values() if L.kind == "for" and Lg.id in L.inner]
        if not ok_group and len(outer) == 1 and Lg.source == ("elem", outer[0].id):
            Lo1 = outer[0]
            k1, val1 = simp(("idx", ge, C(1))), ("pos", Lo1.id)
            good1 = [x for x in appends if x[0] == TRUE and x[2][1] == ("mcall", base_dict, "setdefault", (k1, ("list", ())), ()) and x[2][3] == (val1,)]
            if len(good1) == 1 and len(appends) == 1:
                w1 = gw_f.where(Lo1.node) if Lo1.node is not None and hasattr(gw_f, "where") else where
                probs = []
                if Lo1.source != tl or not Lo1.whole or not Lo1.enumerated:
                    probs.append("the outer loop iterates `%s`%s, not enumerate(whole transition list)" % (show(Lo1.source), "" if Lo1.enumerated else " (not enumerated)"))
                if not Lg.whole:
                    probs.append("the inner loop iterates a slice of the state's transitions")
                if Lo1.has_break or Lo1.has_return or Lg.has_break or Lg.has_return:
                    probs.append("a loop exits early")
                if getattr(Lg, "cont", FALSE) != FALSE or getattr(Lo1, "cont", FALSE) != FALSE:
                    probs.append("transitions are skipped (`continue`)")
                if probs:
                    chk.violation(rule, where, "single-pass reversed table: " + "; ".join(probs), expected="for every state s and every transition (_, t) of s: table[t].append(s)",
                                  found=norm_stmt(Lo1.node)[:120], construct="single-pass table partial")
                else:
                    chk.ok(rule, where, "single pass: for every state index s (enumerate, whole list) and every transition (_, t) of s, s is appended under key t "
                           "(`setdefault(t, []).append(s)`, unconditional, multiplicity kept)")
                return
    gwhere = gw_f.where(Lg.node)
    if not Lg.whole or Lg.has_break or Lg.has_return:
        chk.violation(rule, gwhere, "the grouping loop does not process every reversed pair (slice / break / continue)", expected="one append per pair", found=norm_stmt(Lg.node),
                      construct="grouping loop partial")
        return
    if not ok_group and base_dict[0] == "res":
        # the same update written differently (`if k in d: d[k].append(v) else: d[k] = [v]`, get / setdefault ...): judged by what the
        # entry of k is after one pair, when k already had an entry and when it had none
        pres, absent = _entry_after(Lg, gv, k, True), _entry_after(Lg, gv, k, False)
        if pres == ("OLD", val) and absent == ("NEW", val):
            ok_group = True
    if not ok_group:
        if appends:
            a0 = appends[0]
            if a0[0] != TRUE or a0[2][3] != (val,):
                chk.violation(rule, gwhere, "grouping appends `%s` under condition `%s`; specification: table[pair[0]].append(pair[1]) for every pair (multiplicity kept)" % (show(a0[2])[:120], show(a0[0])),
                              expected="unconditional table[t].append(s) per pair (t, s)", found=show(a0[2])[:140] + " if " + show(a0[0]), construct="grouping append")
                return
        up = Lg.update.get(gv) if base_dict[0] == "res" else None
        if not appends and up is not None and up[0] == "setitem" and up[1] == gacc and up[3][0] == "list":
            chk.violation(rule, gwhere, "the grouping loop overwrites the entry (`table[%s] = %s`) for every pair: only the last predecessor of a state is kept" % (show(up[2]), show(up[3])),
                          expected="table[t].append(s) per pair (t, s)", found=show(up)[:140], construct="grouping overwrite")
            return
        chk.undecided(rule, gwhere, "grouping loop not in a recognised form (`if k not in d: d[k] = []; d[k].append(v)` or `d.setdefault(k, []).append(v)`)")
        return
    chk.ok(rule, gwhere, "grouping: every pair (t, s) appends s under key t, unconditionally (multiplicity kept)")
    # ---- (3) pairs: one (target, source) per transition -----------------------------------------------------------------------
    gsrc = Lg.source
    cf = fn_of("reverse_transition_list_core")
    if gsrc[0] == "flatten" and gsrc[1][0] == "compr":
        L1 = sx.loops[gsrc[1][1]]
        probs = []
        if L1.source != tl or not L1.whole or not L1.enumerated:
            probs.append("outer generator iterates `%s`%s, not enumerate(whole transition list)" % (show(L1.source), "" if L1.enumerated else " (not enumerated)"))
        if L1.filters:
            probs.append("states are skipped unless `%s`" % show(L1.filters[0]))
        if L1.elt[0] != "compr":
            chk.undecided(rule, cf.where(L1.node), "pair construction `%s` not recognised" % show(L1.elt)[:80])
            return
        L2 = sx.loops[L1.elt[1]]
        if L2.source != ("elem", L1.id) or not L2.whole:
            probs.append("inner generator iterates `%s`, not every transition of the state" % show(L2.source))
        if L2.filters:
            probs.append("transitions are skipped unless `%s`" % show(L2.filters[0]))
        want_pair = ("tup", (simp(("idx", ("elem", L2.id), C(1))), ("pos", L1.id)))
        if L2.elt != want_pair:
            probs.append("builds `%s`, specification builds (successor, source) = `%s`" % (show(L2.elt), show(want_pair)))
        if probs:
            chk.violation(rule, cf.where(L1.node), "; ".join(probs), expected="for every state s and every transition (_, t) of s: (t, s)", found=show(L2.elt), construct="core pair construction")
        else:
            chk.ok(rule, cf.where(L1.node), "pairs: [(t, s) for s, ts in enumerate(whole list) for (_, t) in ts]; no filter")
        return
    if gsrc[0] != "res":
        chk.undecided(rule, where, "grouping loop source is not the pair list: %s" % show(gsrc))
        return
    Lo = sx.loops[gsrc[1]]
    ov = gsrc[2]
    oup = Lo.update[ov]
    if Lo.source != tl or not Lo.whole:
        chk.violation(rule, cf.where(Lo.node), "the outer loop iterates `%s`, not the whole transition list" % show(Lo.source),
                      expected="for i, ts in enumerate(%s)" % f.params[0], found=norm_stmt(Lo.node), construct="core outer loop")
        return
    oacc = ("acc", Lo.id, ov)
    if oup[0] == "cat" and oup[1] == oacc and oup[2][0] == "compr" and Lo.enumerated and not Lo.has_break and not Lo.has_return:
        # `pairs.extend((t, s) for ... )` per state: follow the generator back to the state's transitions
        chain = [sx.loops[oup[2][1]]]
        src_t = chain[0].source
        while src_t[0] == "compr" and src_t[1] in sx.loops:
            chain.append(sx.loops[src_t[1]])
            src_t = chain[-1].source
        via_set = [L for L in chain[1:] if L.ckind in ("set", "dict")] or (src_t[0] == "call" and src_t[1] in ("set", "frozenset"))
        if via_set and (src_t == ("elem", Lo.id) or (src_t[0] == "call" and src_t[2] and src_t[2][0] == ("elem", Lo.id))):
            chk.violation(rule, cf.where(Lo.node), "the targets of a state pass through a set before the pairs are made: two transitions of one state to the same target give ONE reversed "
                          "pair (multiplicity lost), and the order of the pairs is no longer the transition order", expected="one (target, source) pair per transition, in transition order",
                          found=norm_stmt(Lo.node)[:100], construct="core pairs through a set")
            return
        Lc = chain[0]
        if len(chain) == 1 and src_t == ("elem", Lo.id) and Lc.whole and not Lc.filters and Lo.source == tl and Lo.whole \
                and Lc.elt == ("tup", (simp(("idx", ("elem", Lc.id), C(1))), ("pos", Lo.id))) and Lo.init.get(ov) == ("list", ()):
            chk.ok(rule, cf.where(Lo.node), "pairs: for every state index s (enumerate, whole list) the pairs (t, s) of all its transitions are appended in one go; no filter")
            return
    if oup[0] != "res" or not Lo.enumerated:
        chk.undecided(rule, cf.where(Lo.node), "outer loop of the pair construction not recognised (needs enumerate + inner loop): %s" % show(oup))
        return
    Li = sx.loops[oup[1]]
    folds = classify(Li)
    fo = folds.get(ov)
    probs = []
    if Li.source != ("elem", Lo.id) or not Li.whole:
        probs.append("inner loop iterates `%s`, not every transition of the state" % show(Li.source))
    if Lo.has_break or Li.has_break or Lo.has_return or Li.has_return:
        probs.append("a loop exits early")
    want_pair = ("tup", (simp(("idx", ("elem", Li.id), C(1))), ("pos", Lo.id)))
    if fo is None or fo.kind != "COLLECT":
        if fo is not None and fo.kind == "OTHER":
            probs.append("the pair is not appended for every transition: update `%s`" % show(fo.term))
        else:
            probs.append("pair list is not a plain collect")
    else:
        if Li.filter != TRUE:
            probs.append("transitions are skipped unless `%s`" % show(Li.filter))
        if fo.term != want_pair:
            probs.append("appends `%s`, specification appends (successor, source) = `%s`" % (show(fo.term), show(want_pair)))
        if fo.init != ("acc", Lo.id, ov):
            probs.append("pair list is re-initialised per state")
    if Lo.init.get(ov) != ("list", ()):
        probs.append("pair list does not start empty")
    if probs:
        chk.violation(rule, cf.where(Li.node), "; ".join(probs), expected="for every state s and every transition (_, t) of s: append (t, s)",
                      found=show(fo.term) if fo is not None and getattr(fo, "term", None) else norm_stmt(Li.node), construct="core pair construction")
        return
    chk.ok(rule, cf.where(Li.node), "pairs: for every state index s (enumerate, whole list) and every transition (_, t): append (t, s); no filter, no early exit")


def r7_flag_list_membership(ctx, chk, rule="C07.3"):
    """`visited = [False] * n` ... `if state in visited`: on a list of flags `in` compares the state with the flags themselves
    (0 == False, 1 == True): state 0 counts as visited from the start and state 1 as soon as any flag is set."""
    mod = ctx.prog.mod("reverse_dfs.py")
    flaglists = {}          # func qual -> names
    for f in mod.funcs.values():
        for n in walk_no_nested_defs(f.node):
            if isinstance(n, ast.Assign) and len(n.targets) == 1 and isinstance(n.targets[0], ast.Name):
                v = n.value
                is_flags = (isinstance(v, ast.BinOp) and isinstance(v.op, ast.Mult) and isinstance(v.left, ast.List) and len(v.left.elts) == 1
                            and isinstance(v.left.elts[0], ast.Constant) and isinstance(v.left.elts[0].value, bool)) or \
                    (isinstance(v, ast.ListComp) and isinstance(v.elt, ast.Constant) and isinstance(v.elt.value, bool))
                if is_flags:
                    flaglists.setdefault(f.qual, set()).add(n.targets[0].id)
    # parameters that receive a flag list
    changed = True
    while changed:
        changed = False
        for f in mod.funcs.values():
            names = flaglists.get(f.qual, set())
            for call, cs in ctx.cg.call_sites(f):
                for g in cs:
                    gp = [p_ for p_ in g.params if p_ != "self"]
                    for i, a in enumerate(call.args):
                        if isinstance(a, ast.Name) and a.id in names and i < len(gp) and gp[i] not in flaglists.get(g.qual, set()):
                            flaglists.setdefault(g.qual, set()).add(gp[i])
                            changed = True
    hits = 0
    for f in mod.funcs.values():
        names = flaglists.get(f.qual, set())
        for n in walk_no_nested_defs(f.node):
            if isinstance(n, ast.Compare) and len(n.ops) == 1 and isinstance(n.ops[0], (ast.In, ast.NotIn)) and isinstance(n.comparators[0], ast.Name) and n.comparators[0].id in names:
                hits += 1
                chk.violation(rule, f.where(n), "`%s`: `%s` is a list of flags, so `in` compares the state with the flags themselves (0 == False, 1 == True) - state 0 counts as visited "
                              "from the start, state 1 as soon as any state is marked, and their searches are skipped" % (src(n), n.comparators[0].id),
                              expected="%s[state]" % n.comparators[0].id, found=src(n), construct="%s membership test on a flag list" % f.short)
    return hits


def run(ctx, chk):
    # the property speaks of every solve: nothing computed by one solve (a memo on the game object, on a class, in a module)
    # may be handed to the next one - a second solve of the same object, or of another game, would report stale values
    from . import C10 as _C10
    _C10.r2_no_carried_state(ctx, chk, "C07.pre:C10.2")
    r7_flag_list_membership(ctx, chk)
    r1_no_recursion(ctx, chk)
    r2_roots(ctx, chk)
    r35_worklist(ctx, chk)
    r4_result(ctx, chk)
    r6_reversed_table(ctx, chk)
    chk.require_instances("C07", 8)
