"""C10 - solving leaves the game description intact and is repeatable."""
import ast

from ..loader import AnalysisError, attr_path, src, walk_no_nested_defs, norm_stmt, call_name
from . import shared

EXPLANATION = (
    "Effect analysis over everything reachable from StochasticGame.__init__/solve: (1) input ownership - no in-place "
    "mutator (append/remove/pop/sort/..., x[i]=v, del, +=) has a receiver whose points-to set contains an object "
    "passed to the constructor (field-based inclusion analysis with tuple slots; a constructor store that is "
    "overwritten on every path by a private copy is treated as transient); (2) no carried state - no module "
    "global or class attribute is written, no module-level mutable object is mutated, no mutable default argument "
    "is mutated, and no field of the game object is written outside __init__; (3) determinism - no entropy or "
    "clock import in the solver modules and no set is enumerated into a result without a sort. (1)-(3) imply that "
    "a second solve sees the same input and no memory of the first, hence identical results.")
ASSUMPTIONS = [
    "documented input schema: rewards/players/final_states are lists of immutable values, transition_list is a list of lists of tuples",
    "no dynamic attribute access (getattr/setattr/eval/exec/globals) in the solver modules - checked by the census rule",
]
TECHNIQUE = "Andersen-style points-to + in-place effect analysis over the resolved call graph (ast)"

ENTROPY = {"random", "time", "os", "uuid", "secrets", "datetime", "threading", "multiprocessing"}


def _write_only_use(x):
    """`self.f[k] = v`, `del self.f[k]`, `self.f.append(v)` / `.clear()` / `.update(..)` as a statement: the field is written through,
    its content is not read."""
    par = getattr(x, "parent", None)
    if isinstance(par, ast.Subscript) and par.value is x and isinstance(par.ctx, (ast.Store, ast.Del)):
        return True
    if isinstance(par, ast.Attribute) and par.value is x and par.attr in ("append", "extend", "clear", "update", "add", "insert") \
            and isinstance(getattr(par, "parent", None), ast.Call) and par.parent.func is par and isinstance(getattr(par.parent, "parent", None), ast.Expr):
        return True
    return False


def r1(ctx, chk, rule="C10.1"):
    n = shared.rule_input_ownership(ctx, chk, rule)
    chk.extra["inplace_operations_examined"] = n
    _canary(ctx, chk)


def _canary(ctx, chk):
    import os
    from ..context import Ctx
    from ..report import Check
    from ..pointsto import PointsTo
    here = os.path.join(os.path.dirname(os.path.dirname(os.path.dirname(os.path.abspath(__file__)))), "canaries")
    c2 = Ctx(here, modules=["input_alias.py"])
    init = c2.func("input_alias.py::Holder.__init__")
    pt = PointsTo(c2, {init: {"items": ("items", 1)}})
    hits = [e for e in pt.effects if any(pt.is_input(o) for o in e.recv)]
    chk.canary("input_alias.py (constructor stores a parameter, method appends to it)", len(hits) == 1,
               "%d in-place operation(s) on an input alias flagged; the copy-protected twin must stay silent" % len(hits))


def _value_only_use(n):
    p = getattr(n, "parent", None)
    if isinstance(p, (ast.BinOp, ast.Compare, ast.UnaryOp)):
        return True
    if isinstance(p, ast.Call) and n in p.args and call_name(p) in ("round", "abs", "float", "int", "bool", "str", "len", "max", "min", "math.floor", "math.log"):
        return True
    return False


def _strings_of(ctx, f, e, depth):
    """The literal strings an expression can take: a constant; a parameter (the literals its callers pass); a local assigned only
    from such expressions; a conditional between them.  None when not determined."""
    if depth > 3 or e is None:
        return None
    ok_, v_ = ctx.prog.try_const(e, f.mod)
    if ok_:
        return {v_} if isinstance(v_, str) else None
    if isinstance(e, ast.IfExp):
        a, b = _strings_of(ctx, f, e.body, depth + 1), _strings_of(ctx, f, e.orelse, depth + 1)
        return None if a is None or b is None else a | b
    if not isinstance(e, ast.Name):
        return None
    stores = [x for x in walk_no_nested_defs(f.node) if isinstance(x, ast.Name) and x.id == e.id and isinstance(x.ctx, ast.Store)]
    if e.id in f.params and not stores:
        ps = [q for q in f.params if q != "self"]
        i = ps.index(e.id)
        out = set()
        sites = ctx.cg.callers_of(f)
        for g, call in sites:
            a = call.args[i] if i < len(call.args) else next((k.value for k in call.keywords if k.arg == e.id), None)
            r = _strings_of(ctx, g, a, depth + 1)
            if r is None:
                return None
            out |= r
        return out or None
    if stores and e.id not in f.params:
        out = set()
        for st in walk_no_nested_defs(f.node):
            if isinstance(st, ast.Assign) and any(isinstance(t, ast.Name) and t.id == e.id for t in st.targets):
                r = _strings_of(ctx, f, st.value, depth + 1)
                if r is None:
                    return None
                out |= r
            elif isinstance(st, (ast.For, ast.AugAssign, ast.With, ast.comprehension)) and any(isinstance(x, ast.Name) and x.id == e.id and isinstance(x.ctx, ast.Store) for x in ast.walk(getattr(st, "target", st) if not isinstance(st, ast.With) else st)):
                return None
        return out or None
    return None


def dynamic_census(ctx, chk, rule):
    bad = 0
    for f in ctx.prog.all_funcs(shared.SOLVER_MODULES):
        for n in walk_no_nested_defs(f.node):
            if isinstance(n, ast.Call) and call_name(n) == "getattr" and len(n.args) == 2 and _value_only_use(n):
                continue      # a field read whose value only enters arithmetic / comparisons: no call target and no alias is hidden
            if isinstance(n, ast.Call) and call_name(n) in ("getattr", "setattr") and len(n.args) >= 2:
                from ..loader import possible_strings
                names = possible_strings(ctx.prog, f, n.args[1])
                if names is None:
                    names = _strings_of(ctx, f, n.args[1], 0)
                protected = {"rewards", "players", "transition_list", "final_states", "num_states", "next_states", "state_list"} | {shared.solver_names(ctx)["flag_field"]}
                if names is not None and not (names & protected):
                    continue      # the attribute names are a known finite set of value fields (e.g. the three reward quantities of a node)
            if isinstance(n, ast.Call) and call_name(n) in ("getattr", "setattr", "eval", "exec", "globals", "locals", "vars", "__import__", "delattr"):
                bad += 1
                chk.undecided(rule, f.where(n), "dynamic access `%s` defeats static resolution" % src(n))
            if isinstance(n, (ast.Global, ast.Nonlocal)):
                pass  # judged by C10.2
        memo = [d for d in f.node.decorator_list if (call_name(d) if isinstance(d, ast.Call) else attr_path(d)) in shared.MEMO_DECORATORS]
        if memo:
            bad += 1
            chk.violation(rule, f.where(memo[0]), "%s is memoised (`@%s`): answers computed during one solve (for node objects whose values change from sweep to sweep, and from "
                          "solve to solve) are handed out again later - results depend on what was solved before" % (f.short, src(memo[0])),
                          expected="no cache that outlives the values it was computed from", found="@" + src(memo[0]), construct="%s memoised" % f.short)
            continue
        if [d for d in f.node.decorator_list if not (isinstance(d, ast.Name) and d.id in ("staticmethod", "classmethod", "property"))
                and not (isinstance(d, ast.Attribute) and d.attr in ("setter", "getter"))
                and (call_name(d) if isinstance(d, ast.Call) else attr_path(d)) not in ("contextmanager", "contextlib.contextmanager", "functools.wraps")]:
            bad += 1
            chk.undecided(rule, f.where(), "decorated function: call resolution not guaranteed")
    if not bad:
        chk.ok(rule, "tad.py, reverse_dfs.py", "census: no getattr/setattr/eval/exec/globals/decorators in the solver modules")


NODE_SOLVER_FIELDS = ("reach_probability", "expected_rewards", "expected_rewards_min_reach", "expected_reach_min_rewards", "next_states")


def _restored_node_cache(ctx, f):
    """f contains `for node in self.<cache>: node.<reset>()`: True when <reset> resolves, for every node class, to a restorer of all
    solver-written fields; a text naming what is missing when it does not; None when f has no such loop."""
    from . import kernels as K
    rest = {g.qual: flds for g, flds in shared.restorers(ctx).items()}
    for lp in walk_no_nested_defs(f.node):
        if not (isinstance(lp, ast.For) and isinstance(lp.target, ast.Name) and isinstance(lp.iter, ast.Attribute) and attr_path(lp.iter) == "self." + lp.iter.attr):
            continue
        calls = [b.value for b in lp.body if isinstance(b, ast.Expr) and isinstance(b.value, ast.Call) and isinstance(b.value.func, ast.Attribute)
                 and isinstance(b.value.func.value, ast.Name) and b.value.func.value.id == lp.target.id and not b.value.args and not b.value.keywords]
        if len(calls) != 1 or len(lp.body) != 1:
            continue
        name = calls[0].func.attr
        for cls in sorted(set(K.role_classes(ctx).values())):
            flds = set()
            seen = False
            for c2 in ctx.prog.mro(cls):
                m = ctx.prog.classes[c2].methods.get(name) if c2 in ctx.prog.classes else None
                if m is None:
                    continue
                seen = True
                if m.qual not in rest:
                    return "%s.%s does more than put fields back to their constructed values" % (c2, name)
                flds |= rest[m.qual]
                # an override that does not call the base version hides it
                if not any(isinstance(x, ast.Call) and isinstance(x.func, ast.Attribute) and x.func.attr == name and isinstance(x.func.value, ast.Call)
                           and call_name(x.func.value) == "super" for x in ast.walk(m.node)):
                    break
            if not seen:
                return "%s has no %s()" % (cls, name)
            missing = [q for q in NODE_SOLVER_FIELDS if q not in flds]
            if missing:
                return "%s.%s() does not restore %s" % (cls, name, ", ".join(missing))
        return True
    return None


def _own_line(ctx, g, node):
    """False for a node that a pipeline view copied in from a helper (it is judged in the helper itself)."""
    home = ctx.prog.funcs.get(g.qual)
    if home is None or home.node is g.node:
        return True
    return home.node.lineno <= getattr(node, "lineno", home.node.lineno) <= (home.node.end_lineno or 10 ** 9)


def r2_no_carried_state(ctx, chk, rule="C10.2"):
    scope = shared.solver_scope(ctx)
    pt = shared.solver_pointsto(ctx)
    init, solve = shared.solver_entry(ctx)
    problems = 0
    # a memoising decorator on the solving path is state carried from one solve to the next (the cached nodes are the solved,
    # pruned ones; a cached answer is blind to everything but the arguments)
    if rule != "C10.2":
        for f_ in ctx.prog.all_funcs(shared.SOLVER_MODULES):
            memo_ = [d for d in f_.node.decorator_list if (call_name(d) if isinstance(d, ast.Call) else attr_path(d)) in shared.MEMO_DECORATORS]
            if memo_:
                problems += 1
                chk.violation(rule, f_.where(memo_[0]), "%s is memoised (`@%s`): what one solve computed (node objects that the solver then changes, an answer for a description that "
                              "was edited since) is handed to the next one" % (f_.short, src(memo_[0])), expected="no cache that outlives the values it was computed from",
                              found="@" + src(memo_[0]), construct="%s memoised" % f_.short)
    # module-level names of the solver modules
    for f in scope:
        mod_names = set(f.mod.consts) | {n.id for st in f.mod.tree.body if isinstance(st, (ast.Assign, ast.AnnAssign))
                                         for t in (st.targets if isinstance(st, ast.Assign) else [st.target])
                                         for n in ast.walk(t) if isinstance(n, ast.Name)}
        globals_declared = set()
        for n in walk_no_nested_defs(f.node):
            if isinstance(n, (ast.Global, ast.Nonlocal)):
                globals_declared.update(n.names)
        local_names = set(f.params) | set(f.kwonly)
        for n in walk_no_nested_defs(f.node):
            if isinstance(n, ast.Name) and isinstance(n.ctx, ast.Store) and n.id not in globals_declared:
                local_names.add(n.id)
        for n in walk_no_nested_defs(f.node):
            # assignment to a declared global
            if isinstance(n, ast.Name) and isinstance(n.ctx, ast.Store) and n.id in globals_declared:
                problems += 1
                chk.violation(rule, f.where(n), "`%s` assigns the module-level name `%s`: state survives from one solve to the next" % (norm_stmt(ctx.cfg(f).stmt_of(n)), n.id),
                              expected="no module-level state written while solving", found=norm_stmt(ctx.cfg(f).stmt_of(n)),
                              construct="%s writes global %s" % (f.short, n.id))
            # mutation of / store into a module-level object
            tgt = None
            if isinstance(n, ast.Call) and isinstance(n.func, ast.Attribute) and n.func.attr in shared.MUTATORS:
                tgt = n.func.value
            elif isinstance(n, ast.Subscript) and isinstance(n.ctx, (ast.Store, ast.Del)):
                tgt = n.value
            elif isinstance(n, ast.Attribute) and isinstance(n.ctx, ast.Store):
                tgt = n.value
            if tgt is not None:
                base = tgt
                while isinstance(base, (ast.Attribute, ast.Subscript)):
                    base = base.value
                if isinstance(base, ast.Name) and base.id not in local_names and (base.id in mod_names or base.id in ctx.prog.classes
                                                                                   or base.id in globals_declared):
                    problems += 1
                    kind = "class attribute" if base.id in ctx.prog.classes else "module-level object"
                    chk.violation(rule, f.where(n), "`%s` modifies the %s `%s`: state survives from one solve to the next" % (
                        norm_stmt(ctx.cfg(f).stmt_of(n)), kind, base.id), expected="no shared state written while solving",
                        found=norm_stmt(ctx.cfg(f).stmt_of(n)), construct="%s mutates %s %s" % (f.short, kind, base.id))
        # mutable defaults that are mutated
        for p, d in f.defaults.items():
            if isinstance(d, (ast.List, ast.Dict, ast.Set)) or (isinstance(d, ast.Call) and call_name(d) in ("list", "dict", "set")):
                for e in pt.effects:
                    if e.func is f and isinstance(e.recv_expr, ast.Name) and e.recv_expr.id == p:
                        problems += 1
                        chk.violation(rule, f.where(e.node), "mutable default argument `%s` is modified in place: it is shared by all calls" % p,
                                      expected="no mutation of a default object", found=norm_stmt(e.node), construct="%s mutable default %s" % (f.short, p))
    # fields of the game object written outside __init__
    game_cls = init.cls.name
    n_fields = 0
    for s in pt.field_stores:
        if s.func in scope and s.func.cls is not None and s.func.cls.name == game_cls and attr_path(s.recv_expr) == "self":
            if s.func.name == "__init__":
                n_fields += 1
                continue
            readers = [x for g_ in scope if g_.cls is not None and g_.cls.name == game_cls
                       for x in walk_no_nested_defs(g_.node) if isinstance(x, ast.Attribute) and x.attr == s.field and isinstance(x.ctx, ast.Load) and attr_path(x) == "self." + s.field
                       and not (isinstance(ctx.cfg(g_).stmt_of(x), ast.Expr) and isinstance(ctx.cfg(g_).stmt_of(x).value, ast.Call)
                                and call_name(ctx.cfg(g_).stmt_of(x).value).startswith("logging."))
                       and not _write_only_use(x)
                       and _own_line(ctx, g_, x)]
            # a read that comes after this very store in the same function sees what THIS solve stored, not a leftover
            try:
                cfg_s = ctx.cfg(s.func)
                st_s = cfg_s.stmt_of(s.node)
                fresh = [x for x in readers if any(x is y for y in walk_no_nested_defs(s.func.node)) and cfg_s.stmt_of(x) is not st_s and cfg_s.dominates(st_s, cfg_s.stmt_of(x))]
            except AnalysisError:
                fresh = []
            readers = [x for x in readers if not any(x is y for y in fresh)]
            if not readers:
                chk.note("%s stores self.%s while solving; nothing reachable from solve() reads that field (except after this store), so it cannot carry anything into a later solve" % (s.func.short, s.field))
                continue
            if all(any(x is y for y in walk_no_nested_defs(s.func.node)) for x in readers):
                verdict = _restored_node_cache(ctx, s.func)
                if verdict is True:
                    chk.ok(rule, s.func.where(s.node), "`%s` keeps the nodes (or their key) on the game object; before they are handed out again every node is put back to its "
                           "constructed state by a method that restores every field the solver writes, for every node class" % norm_stmt(s.node)[:60])
                    continue
                if isinstance(verdict, str):
                    problems += 1
                    chk.violation(rule, s.func.where(s.node), "`%s` keeps the nodes on the game object and hands them out again, but %s: a second solve() starts from what the first one left" % (
                        norm_stmt(s.node)[:60], verdict), expected="fresh nodes, or a reset of every solver-written field for every node class", found=verdict,
                        construct="%s carries %s" % (s.func.short, s.field))
                    continue
            problems += 1
            chk.violation(rule, s.func.where(s.node), "`%s` stores state on the game object while solving: a later solve() on the same object can see it" % norm_stmt(s.node),
                          expected="%s fields are written only by __init__" % game_cls, found=norm_stmt(s.node),
                          construct="%s writes self.%s" % (s.func.short, s.field))
    # ... and containers of its own that the game object fills while solving (`self._solutions[mode] = ...`, `self._seen.append(..)`):
    # a field that __init__ creates as a fresh container is a memo when a solve writes into it and a solve reads it
    fresh_fields = set()
    for st in walk_no_nested_defs(init.node):
        if isinstance(st, ast.Assign) and len(st.targets) == 1 and (attr_path(st.targets[0]) or "").startswith("self."):
            v = st.value
            if isinstance(v, (ast.Dict, ast.List, ast.Set)) and not (getattr(v, "keys", None) or getattr(v, "elts", None)) \
                    or (isinstance(v, ast.Call) and call_name(v) in ("dict", "list", "set", "collections.defaultdict", "defaultdict", "collections.OrderedDict", "OrderedDict") and not v.args):
                fresh_fields.add(attr_path(st.targets[0])[5:])
    MUT = ("append", "add", "update", "setdefault", "extend", "insert", "pop", "popitem", "clear", "remove", "discard", "appendleft")
    for g_ in scope:
        if g_.cls is None or g_.cls.name != game_cls or g_.name == "__init__":
            continue
        for n in walk_no_nested_defs(g_.node):
            fld = None
            if isinstance(n, ast.Subscript) and isinstance(n.ctx, (ast.Store, ast.Del)) and (attr_path(n.value) or "").startswith("self."):
                fld = attr_path(n.value)[5:]
            elif isinstance(n, ast.Call) and isinstance(n.func, ast.Attribute) and n.func.attr in MUT and (attr_path(n.func.value) or "").startswith("self."):
                fld = attr_path(n.func.value)[5:]
            if fld in fresh_fields:
                # ... and something on the solving path reads it back (a table that is only written - timings, counters for a report -
                # carries nothing into a later solve)
                def _is_read(x, fld=fld):
                    if not (isinstance(x, ast.Attribute) and isinstance(x.ctx, ast.Load) and attr_path(x) == "self." + fld):
                        return False
                    par = getattr(x, "parent", None)
                    if isinstance(par, ast.Subscript) and par.value is x and isinstance(par.ctx, (ast.Store, ast.Del)):
                        return False
                    if isinstance(par, ast.Attribute) and par.value is x and par.attr in MUT and isinstance(getattr(par, "parent", None), ast.Call) and par.parent.func is par \
                            and isinstance(getattr(par.parent, "parent", None), ast.Expr):
                        return False
                    return True
                if not any(_is_read(x) for h_ in scope if h_.cls is not None and h_.cls.name == game_cls and h_.name != "__init__" for x in walk_no_nested_defs(h_.node)):
                    chk.note("%s fills self.%s while solving; nothing reachable from solve() reads it back" % (g_.short, fld))
                    continue
                problems += 1
                chk.violation(rule, g_.where(n), "`%s` fills `self.%s`, a container the game object creates once in __init__, while solving: what one solve() put there is "
                              "what the next solve() of the same object finds (a result kept per mode, a table of visited states, ...)" % (norm_stmt(ctx.cfg(g_).stmt_of(n))[:80], fld),
                              expected="%s keeps nothing between solves" % game_cls, found=norm_stmt(ctx.cfg(g_).stmt_of(n))[:100], construct="%s fills self.%s" % (g_.short, fld))
                break
    if not problems:
        chk.ok(rule, solve.where(), "%d functions reachable from solve(): no global / class attribute / module-level object / mutable default written; "
               "%s fields (%d) are written only in __init__; solver and node objects are created per call" % (len(scope), game_cls, n_fields))
    # solver + nodes are constructed inside solve's scope (not cached)
    ctor_sites = [c for c in walk_no_nested_defs(solve.node) if isinstance(c, ast.Call) and isinstance(c.func, ast.Name) and c.func.id == "Solver"]
    if ctor_sites and ctx.cfg(solve).on_every_normal_path(ctor_sites[0]):
        chk.ok(rule, solve.where(ctor_sites[0]), "a fresh Solver is constructed on every path through solve()")
    else:
        chk.undecided(rule, solve.where(), "Solver construction is not on every path through solve()")


def r3_determinism(ctx, chk, rule="C10.3"):
    """No entropy in the solver: judged by *use* (a call of random / uuid / secrets / os.urandom inside a function reachable from
    solve() is a violation, a clock read is 'undecided' - it may only feed a log line), not by the import list."""
    bad = 0
    scope = shared.solver_scope(ctx)
    hard = ("random", "uuid", "secrets")
    hard_calls = ("os.urandom", "os.getrandom", "os.getpid")
    soft = ("time", "datetime")
    for f in scope:
        for c in walk_no_nested_defs(f.node):
            if not isinstance(c, ast.Call):
                continue
            nm = call_name(c)
            head = nm.split(".")[0]
            full = nm
            if head in f.mod.imports:
                m2, attr = f.mod.imports[head]
                m2 = m2[:-3] if m2.endswith(".py") else m2
                full = (m2 + "." + attr if attr else m2) + nm[len(head):]
            if full.split(".")[0] in hard or full in hard_calls:
                bad += 1
                chk.violation(rule, f.where(c), "`%s` is called while solving: the result of a solve can differ from one run to the next" % src(c),
                              expected="no entropy source reachable from solve()", found=src(c), construct="%s calls %s" % (f.short, full))
            elif full.split(".")[0] in soft:
                bad += 1
                chk.undecided(rule, f.where(c), "`%s` is called while solving: whether the clock value reaches a result is not tracked" % src(c))
    if not bad:
        chk.ok(rule, "tad.py, reverse_dfs.py", "%d functions reachable from solve(): no call into random / uuid / secrets / os entropy, no clock read (imports: %s)" % (
            len(scope), sorted({v[0] for m in shared.SOLVER_MODULES for v in ctx.prog.mod(m).imports.values()})))
    # sets enumerated into results must be sorted
    pt = shared.solver_pointsto(ctx)
    scope = shared.solver_scope(ctx)
    n_sets = 0
    for f in scope:
        cfg = ctx.cfg(f)
        for n in walk_no_nested_defs(f.node):
            it = None
            if isinstance(n, ast.For):
                it = n.iter
            elif isinstance(n, ast.comprehension):
                it = n.iter
            if it is None:
                continue
            objs = pt.ev(it, f)
            if not any(o[0] == "alloc" and o[4] in ("copy:set", "display:set", "comp:set", "copy:frozenset") for o in objs):
                continue
            n_sets += 1
            owner = n if isinstance(n, ast.For) else n.parent
            st = cfg.stmt_of(owner)
            sorted_ok = False
            p = owner
            while p is not None and p is not st:
                p = p.parent
                if isinstance(p, ast.Call) and call_name(p) == "sorted":
                    sorted_ok = True
            if not sorted_ok and isinstance(st, ast.Assign) and len(st.targets) == 1 and isinstance(st.targets[0], ast.Name):
                name = st.targets[0].id
                for m in cfg.statements():
                    if isinstance(m, ast.Expr) and isinstance(m.value, ast.Call) and isinstance(m.value.func, ast.Attribute) \
                            and m.value.func.attr == "sort" and isinstance(m.value.func.value, ast.Name) \
                            and m.value.func.value.id == name and cfg.dominates(st, m) and cfg.postdominates(m, st):
                        sorted_ok = True
            if not sorted_ok and isinstance(owner, ast.For):
                # the loop only appends to local lists, and each of them is sorted once the loop is over
                filled = {c.func.value.id for c in ast.walk(owner) if isinstance(c, ast.Call) and isinstance(c.func, ast.Attribute) and c.func.attr in ("append", "extend")
                          and isinstance(c.func.value, ast.Name)}
                other_effects = [c for c in ast.walk(owner) if isinstance(c, ast.Call) and isinstance(c.func, ast.Attribute) and c.func.attr in shared.MUTATORS
                                 and not (isinstance(c.func.value, ast.Name) and c.func.value.id in filled)]
                stores = [x for b_ in owner.body for x in ast.walk(b_) if isinstance(x, (ast.Assign, ast.AugAssign))]
                if filled and not other_effects and not stores:
                    ok_all = True
                    for name in filled:
                        srt = [m for m in cfg.statements() if isinstance(m, ast.Expr) and isinstance(m.value, ast.Call) and isinstance(m.value.func, ast.Attribute)
                               and m.value.func.attr == "sort" and isinstance(m.value.func.value, ast.Name) and m.value.func.value.id == name
                               and cfg.dominates(owner, m) and not any(m is x for x in ast.walk(owner))]
                        srt2 = [m for m in cfg.statements() if any(isinstance(c, ast.Call) and call_name(c) == "sorted" and c.args and isinstance(c.args[0], ast.Name) and c.args[0].id == name
                                                                    for c in ast.walk(m)) and cfg.dominates(owner, m)]
                        if not srt and not srt2:
                            ok_all = False
                    sorted_ok = ok_all
            if sorted_ok:
                chk.ok(rule, f.where(owner), "set enumerated by `%s` is sorted before use" % norm_stmt(st))
            else:
                chk.undecided(rule, f.where(owner), "a set is enumerated by `%s` and no sort of the result was found: order may vary" % norm_stmt(st))
    chk.extra["sets_enumerated"] = n_sets


def r4_mode_is_live(ctx, chk, rule="C10.4"):
    """'In either pruning mode, through the same object': the mode is the documented public field prune_states. Any other field
    that the constructor derives from the prune flag is a copy frozen at construction; a decision taken on it ignores a
    later change of the mode."""
    from ..symx import SymX, mentions, show
    init, solve = shared.solver_entry(ctx)
    sx = SymX(ctx, init, init.cls.name, inline_depth=1).run()
    flag_params = [p for p in init.params if "prune" in p]
    if not flag_params:
        chk.undecided(rule, init.where(), "the constructor has no prune flag parameter")
        return
    fp = ("v", flag_params[0])
    derived = []
    plain = []
    for e in sx.final.effects:
        if e[1] == "store" and e[2] == ("v", "self"):
            if e[4] == fp and e[0] == ("c", True):
                plain.append(e[3])
            elif mentions(e[4], lambda x: x == fp) or mentions(e[0], lambda x: x == fp):
                derived.append((e[3], e[4]))
    if len(plain) != 1:
        chk.undecided(rule, init.where(), "the prune flag is stored %d times unmodified by the constructor" % len(plain))
        return
    bad = 0
    for field, val in derived:
        for f in ctx.prog.all_funcs(shared.SOLVER_MODULES):
            if f.cls is None or f.cls.name != init.cls.name or f is init:
                continue
            for n in walk_no_nested_defs(f.node):
                if isinstance(n, ast.Attribute) and n.attr == field and isinstance(n.ctx, ast.Load) and attr_path(n) == "self." + field:
                    st = ctx.cfg(f).stmt_of(n)
                    if isinstance(st, ast.Expr) and isinstance(st.value, ast.Call) and call_name(st.value).startswith(("logging.", "print")):
                        continue
                    bad += 1
                    chk.violation(rule, f.where(n), "`%s` decides on self.%s, which the constructor computed from the prune flag (`%s`): after `game.prune_states = ...` on the same object "
                                  "this copy is stale and solve() runs partly in the other mode" % (norm_stmt(st), field, show(val)[:80]),
                                  expected="decisions read self.%s" % plain[0], found="self.%s" % field, construct="%s reads frozen mode %s" % (f.short, field))
    if not bad:
        chk.ok(rule, init.where(), "the pruning mode lives in one field (self.%s); %d field(s) derived from it at construction, none read by a decision" % (plain[0], len(derived)))


def r5_batch_reads_own_marks(ctx, chk, rule="C10.5"):
    """run_games writes into the caller's game dictionaries (the pruning mode of the current run).  If it also READS such a key
    from the caller's dictionary before writing it, the value it sees is the one an earlier call left there: a second run over
    the same description does something else than the first."""
    q = "conditionalrewards.py::run_games"
    if not ctx.prog.has_func(q):
        chk.undecided(rule, q, "batch runner missing")
        return
    f = ctx.func(q)
    outer = [n for n in walk_no_nested_defs(f.node) if isinstance(n, ast.For) and isinstance(n.iter, ast.Call) and isinstance(n.iter.func, ast.Attribute) and n.iter.func.attr == "items"
             and isinstance(n.target, ast.Tuple) and len(n.target.elts) == 2 and isinstance(n.target.elts[1], ast.Name)]
    if len(outer) != 1:
        chk.undecided(rule, f.where(), "per-game loop `for name, game in games.items()` not found in run_games")
        return
    L = outer[0]
    G = L.target.elts[1].id

    def key_of(node, mod):
        ok, v = ctx.prog.try_const(node, mod)
        return v if ok and isinstance(v, str) else None
    writes, reads = {}, []

    def scan(func, var, site, depth=0):
        """reads / writes of dict `var` inside func (or inside the loop L when func is run_games); site = position of the entry point in run_games"""
        root = L if func is f else func.node
        for n in ast.walk(root):
            pos = (n.lineno, n.col_offset) if func is f and hasattr(n, "lineno") else site
            if isinstance(n, ast.Subscript) and isinstance(n.value, ast.Name) and n.value.id == var:
                k = key_of(n.slice, func.mod)
                if k is None:
                    continue
                if isinstance(n.ctx, ast.Store):
                    writes.setdefault(k, []).append(pos)
                elif isinstance(n.ctx, ast.Load):
                    reads.append((k, pos, func, n))
            if isinstance(n, ast.Compare) and len(n.ops) == 1 and isinstance(n.ops[0], (ast.In, ast.NotIn)) and isinstance(n.comparators[0], ast.Name) and n.comparators[0].id == var:
                k = key_of(n.left, func.mod)
                if k is not None:
                    reads.append((k, pos, func, n))
            if isinstance(n, ast.Call) and isinstance(n.func, ast.Attribute) and isinstance(n.func.value, ast.Name) and n.func.value.id == var and n.args:
                k = key_of(n.args[0], func.mod)
                if k is not None and n.func.attr in ("get", "pop"):
                    reads.append((k, pos, func, n))
                if k is not None and n.func.attr in ("setdefault", "pop", "__setitem__"):
                    writes.setdefault(k, []).append(pos)
            if isinstance(n, ast.Call) and depth < 2:
                for i, a in enumerate(n.args):
                    if isinstance(a, ast.Name) and a.id == var:
                        for h in ctx.cg.resolve(n, func):
                            ps = [p for p in h.params if p != "self"]
                            if i < len(ps):
                                scan(h, ps[i], pos, depth + 1)
    scan(f, G, None)
    bad = 0
    for k, pos, func, n in reads:
        if k in writes and pos is not None and pos < min(writes[k]):
            bad += 1
            chk.violation(rule, func.where(n), "`%s` reads `%s[%r]` from the caller's game dictionary, and run_games itself stores that key there later in the same pass "
                          "(line %d): what is read is the mark left by an earlier run over the same description, so a second run does not repeat the first" % (
                              norm_stmt(ctx.cfg(func).stmt_of(n)) if func is not f else src(n), G, k, min(writes[k])[0]),
                          expected="the mode of a run comes from the loop, not from the caller's dictionary", found=src(n), construct="run_games reads own mark %s" % k)
    if not bad:
        chk.ok(rule, f.where(L), "run_games stores %s in the caller's game dictionaries and never reads those keys back before storing them" % (sorted(writes) or "nothing"))


def run(ctx, chk):
    r5_batch_reads_own_marks(ctx, chk)
    r4_mode_is_live(ctx, chk)
    dynamic_census(ctx, chk, "C10.0")
    r1(ctx, chk)
    r2_no_carried_state(ctx, chk)
    r3_determinism(ctx, chk)
    chk.require_instances("C10.1", 20)
