"""C12 - batch runs solve each game in isolation and report failures."""
import ast

from ..loader import AnalysisError, attr_path, src, walk_no_nested_defs, norm_stmt, call_name
from ..symx import SymX, classify, show, C, TRUE, FALSE, simp, is_const, subst, mentions, UNBOUND
from . import C02, C09, shared

_SOLVE_NAMES = [("solve",)]

EXPLANATION = (
    "run_games is summarised symbolically (loops as per-iteration update terms, the try/except as a 'raised' "
    "alternative). (1) one record per (game, mode): the mode loop is over the literal [True, False]; unrolling it with "
    "the loop variable as a constant gives the two result keys name and name+'_no_prune' - distinct, pruned first; "
    "(2) the mode reaches the solver: the value stored under 'prune_states' in the dict passed to StochasticGame(**.) "
    "is the loop variable; (3) isolation: the solver is input-pure (C10.1 re-evaluated) or every construction "
    "receives a deep copy made in the same iteration; no value recorded in an entry has a reaching definition from "
    "an earlier iteration (defaults are re-established per mode; no module-level or shared mutable object is "
    "updated in place), except the result dict and the had-solution flag; (4) failure protocol: solve() only under "
    "the flag, inside a try whose handler catches ValueError, embeds the exception text, clears the flag, does not "
    "re-raise or leave the loops; the flag is set true per game outside the mode loop; nothing outside the try "
    "dereferences unvalidated game components; (5) record contents: every record key is traced to its slot of "
    "solve()'s return tuple and to the node field / counter behind that slot."
    ' Also: no function of the batch driver changes a mutable default argument (0:defaults).')
ASSUMPTIONS = ["games_dict maps names to dicts with the constructor's keyword names"]
TECHNIQUE = "symbolic loop summaries with unrolling of the literal mode loop + provenance chains (ast)"

RUN = "conditionalrewards.py::run_games"
SLOT_OF = {"final_strategies": 0, "reachability_strategies": 1, "rewards": 2, "probabilities": 3,
           "n_iterations_reach": 4, "n_iterations_rew": 5, "prob_min_rew": 6, "rew_min_reach": 7}
FIELD_OF_SLOT = {2: "expected_rewards", 3: "reach_probability", 6: "expected_reach_min_rewards", 7: "expected_rewards_min_reach"}
DEFAULTS = {"final_strategies": None, "reachability_strategies": None, "rewards": None, "probabilities": None,
            "n_iterations_reach": 0, "n_iterations_rew": 0, "prob_min_rew": 0, "rew_min_reach": 0}


class Summary:
    def __init__(self, ctx):
        self.ctx = ctx
        _SOLVE_NAMES[0] = shared.solve_names(ctx)
        self.f = ctx.func(RUN)
        # options of the batch run (a selectable list of modes, a switch that only validates, ...) are judged at their defaults:
        # the property describes the plain batch run
        from ..ctxbind import with_defaults
        self.f, self.defaults = with_defaults(ctx, self.f, keep=1, accept=lambda v: v is None or isinstance(v, (bool, int, float, str)) or (
            isinstance(v, (tuple, list)) and all(isinstance(x, (bool, int, float, str)) or x is None for x in v)))
        self.sx = SymX(ctx, self.f, inline_depth=2).run()      # helper functions are judged by their content
        loops = [l for l in self.sx.loops.values() if l.kind == "for"]
        self.outer = [l for l in loops if l.source[0] == "mcall" and l.source[2] == "items" and l.source[1] == ("v", self.f.params[0])] or \
            [l for l in loops if l.source[0] == "mcall" and l.source[2] == "items"]
        self.inner = [l for l in loops if l.source[0] in ("list", "tup") and l.id in [i for o in self.outer for i in o.inner]]
        self.ok = len(self.outer) == 1 and len(self.inner) == 1 and self.inner[0].id in self.outer[0].inner
        if self.ok:
            self.Lo, self.Li = self.outer[0], self.inner[0]
            _records_as_modes(self.Li)
            # result dict variable: the one returned
            r = self.sx.ret
            self.res_var = r[2] if r[0] == "res" else None
            self.set_flag_flaw = None
            try:
                _failed_set_as_flag(self)
            except (KeyError, IndexError, TypeError):
                pass


def _records_as_modes(Li):
    """`for mode in ((True, ""), (False, "_no_prune")):` - the two passes written as records (pruning flag, suffix, ...).  The
    component that holds True in the first record and False in the second IS the mode; every other component is a value chosen by
    the mode.  The loop is rewritten to the plain form `for mode in [True, False]` that the rules read."""
    src_ = Li.source
    if src_[0] not in ("list", "tup") or len(src_[1]) != 2 or not all(x[0] in ("tup", "list") for x in src_[1]):
        return
    r0, r1 = src_[1][0][1], src_[1][1][1]
    if len(r0) != len(r1) or not r0:
        return
    ks = [i for i in range(len(r0)) if is_const(r0[i]) and is_const(r1[i]) and r0[i][1] is True and r1[i][1] is False]
    if len(ks) != 1:
        return
    k = ks[0]
    el = ("elem", Li.id)

    def f(x):
        if x[0] == "idx" and x[1] == el and is_const(x[2]) and isinstance(x[2][1], int) and not isinstance(x[2][1], bool) and 0 <= x[2][1] < len(r0):
            j = x[2][1]
            return ("$mode$",) if j == k else simp(("ite", ("truthy", ("$mode$",)), r0[j], r1[j]))
        return None

    def rw(t):
        return subst(t, f) if isinstance(t, tuple) else t
    new_update = {v: rw(u) for v, u in Li.update.items()}
    new_effects = [tuple(rw(x) if isinstance(x, tuple) and x and isinstance(x[0], str) else x for x in e) for e in Li.effects]
    if any(mentions(t, lambda y: y == el) for t in list(new_update.values()) + [x for e in new_effects for x in e if isinstance(x, tuple) and x and isinstance(x[0], str)]):
        return          # the record is also used as a whole: not rewritten
    back = lambda t: subst(t, lambda y: el if y == ("$mode$",) else None) if isinstance(t, tuple) else t
    from ..symx import deep_simp
    Li.update = {v: deep_simp(back(u)) for v, u in new_update.items()}
    Li.effects = [tuple(deep_simp(back(x)) if isinstance(x, tuple) and x and isinstance(x[0], str) else x for x in e) for e in new_effects]
    Li.orig_source = Li.source
    Li.source = ("list", (C(True), C(False)))


def _failed_set_as_flag(s):
    """`failed = set()` before the games, `failed.add(key)` when a solve raises, `if key not in failed:` before a solve: a collection of
    the games without solution.  Game names are the keys of a dictionary - no two games share one - so for the current game the
    membership test is a per-game boolean: it is rewritten as the flag `$had_solution` (True for every new game, False once this
    game's key was added), provided the key that is ADDED in the pruned mode is the key that is TESTED in the unpruned one (the
    driver rebinds `name`: `name + "_no_prune"` is never found among the names that were added)."""
    Lo, Li = s.Lo, s.Li
    for v, init in list(Li.init.items()):
        if init != ("acc", Lo.id, v) or v == s.res_var:
            continue
        if Lo.init.get(v) not in (("set", ()), ("list", ()), ("call", "set", (), ())):
            continue
        acc = ("acc", Li.id, v)
        u = Li.update.get(v)
        if u is None:
            continue
        adds = [x for x in C02._sub(u) if x[0] == "cat" and x[1] == acc and x[2][0] in ("list", "set") and len(x[2][1]) == 1]
        if len({a[2][1][0] for a in adds}) != 1:
            continue
        k_add = adds[0][2][1][0]
        leftover = subst(u, lambda x: ("$", ) if (x[0] == "cat" and x[1] == acc and x in adds) else None)
        if mentions(leftover, lambda x: x[0] in ("cat", "setitem") and mentions(x, lambda y: y == acc)):
            continue
        tests = set()
        clean = True

        def walk(x, parent):
            nonlocal clean
            if isinstance(x, tuple) and x:
                if x == acc:
                    if parent is not None and parent[0] == "cmp" and parent[1] in ("in", "notin") and parent[3] == acc:
                        tests.add(parent[2])
                    else:
                        clean = False
                    return
                for y in x:
                    walk(y, x if isinstance(x[0], str) else parent)
        for var, uu in Li.update.items():
            if var != v:
                walk(uu, None)
        for e in Li.effects:
            walk(e, None)
        # the condition of the addition itself may ask the set (`if key not in failed: failed.add(key)`)
        if not clean or len(tests) != 1:
            continue
        k_test = next(iter(tests))
        # unroll the two modes
        cur = {x: Li.init[x] for x in Li.init}
        inst = []
        for mode in (C(True), C(False)):
            mapping = {("elem", Li.id): mode}
            for x, val in cur.items():
                mapping[("acc", Li.id, x)] = val
            inst.append((_inst(k_add, mapping), _inst(k_test, mapping)))
            cur = {x: _inst(Li.update[x], mapping) for x in Li.update}
        added_pruned, tested_unpruned = simp(inst[0][0]), simp(inst[1][1])
        if added_pruned != tested_unpruned:
            s.set_flag_flaw = ("the games without solution are collected in `%s` under `%s` (pruned run) and looked up under `%s` (unpruned run): the look-up never finds what was added, "
                               "so the unpruned run of a game without solution is solved all the same" % (v, show(added_pruned), show(tested_unpruned)), acc)
            return
        flag = "$had_solution"
        facc = ("acc", Li.id, flag)

        def rw(t):
            def g(x):
                if x[0] == "cmp" and x[1] in ("in", "notin") and x[3] == acc and x[2] == k_test:
                    return facc if x[1] == "notin" else ("not", facc)
                return None
            return subst(t, g)
        new_u = subst(rw(u), lambda x: C(False) if (x[0] == "cat" and x[1] == acc and x in adds) else (facc if x == acc else None))
        Li.update = {var: rw(uu) for var, uu in Li.update.items() if var != v}
        Li.update[flag] = new_u
        Li.effects = [tuple(rw(x) if isinstance(x, tuple) and x and isinstance(x[0], str) else x for x in e) for e in Li.effects]
        Li.init = {var: val for var, val in Li.init.items() if var != v}
        Li.init[flag] = C(True)
        return


def summary(ctx):
    if "C12.summary" not in ctx.cache:
        ctx.cache["C12.summary"] = Summary(ctx)
    return ctx.cache["C12.summary"]


def _inst(t, mapping):
    return subst(t, lambda x: mapping.get(x))


def r1_keys(ctx, chk, rule="C12.1"):
    s = summary(ctx)
    f = s.f
    if not s.ok or s.res_var is None:
        chk.undecided(rule, f.where(), "run_games is not `for name, game in games.items(): for mode in [..]: ...; return results`")
        return None
    Lo, Li = s.Lo, s.Li
    modes = Li.source[1]
    if not all(is_const(x) for x in modes):
        chk.undecided(rule, f.where(Li.node), "the mode loop runs over `%s`: which part of an element is the pruning mode is not recognised" % show(Li.source)[:120])
        return None
    if len(modes) != 2 or not (is_const(modes[0]) and is_const(modes[1]) and modes[0][1] is True and modes[1][1] is False):
        chk.violation(rule, f.where(Li.node), "the mode loop runs over `%s`; specification: pruned first, then unpruned ([True, False])" % show(Li.source), expected="[True, False]",
                      found=show(Li.source), construct="run_games mode list")
        return None
    if Li.has_break and not (Lo.has_break or Lo.has_return or Li.has_return) and Lo.whole:
        # the mode loop is left early, but only after the entry of the mode that is skipped has been written by hand
        brs = [b for b in ast.walk(Li.node) if isinstance(b, ast.Break)]

        def _records_before(b):
            blk = getattr(b, "parent", None)
            for fld in ("body", "orelse"):
                lst = getattr(blk, fld, None)
                if isinstance(lst, list) and b in lst:
                    return any(isinstance(st_, ast.Assign) and any(isinstance(t_, ast.Subscript) and isinstance(t_.value, ast.Name) and t_.value.id == s.res_var for t_ in st_.targets)
                               for st_ in lst[:lst.index(b)])
            return False
        if brs and all(_records_before(b) for b in brs):
            chk.undecided(rule, f.where(Li.node), "the mode loop is left with `break` after an entry was recorded by hand in the same block: that both entries of every game exist is not decided")
            return None
    if Lo.has_break or Li.has_break or Lo.has_return or Li.has_return or not Lo.whole:
        chk.violation(rule, f.where(Lo.node), "a loop of run_games can be left early (break / continue / return): later games or modes get no entry", expected="every game, both modes",
                      found="early exit", construct="run_games early exit")
        return None
    u = Li.update.get(s.res_var)
    acc = ("acc", Li.id, s.res_var)
    if u is None or u[0] != "setitem" or u[1] != acc:
        chk.violation(rule, f.where(Li.node), "the result dict is not extended by exactly one `results[key] = {...}` per mode (update `%s`)" % show(u)[:120], expected="one entry per (game, mode)",
                      found=show(u)[:160], construct="run_games entry store")
        return None
    key_t, rec_t = u[2], u[3]
    if Li.init.get(s.res_var) != ("acc", Lo.id, s.res_var) or Lo.init.get(s.res_var) != ("dict", ()):
        chk.violation(rule, f.where(), "the result dict is re-created inside a loop (entries of earlier games / modes are lost)", expected="one dict for the whole run",
                      found=show(Li.init.get(s.res_var)), construct="run_games result dict reset")
        return None
    # unroll: carried variables of the inner loop
    name0 = simp(("idx", ("elem", Lo.id), C(0)))
    cur = {v: Li.init[v] for v in Li.init}
    keys = []
    for mode in (C(True), C(False)):
        mapping = {("elem", Li.id): mode}
        for v, val in cur.items():
            mapping[("acc", Li.id, v)] = val
        keys.append(_inst(key_t, mapping))
        cur = {v: _inst(Li.update[v], mapping) for v in Li.update}
    want = [name0, simp(("strcat", name0, C("_no_prune")))]
    if keys == want:
        chk.ok(rule, f.where(Li.node), "keys of the two entries of a game: `%s` (pruned, first) and `%s` (unpruned) - distinct for every name" % (show(keys[0]), show(keys[1])))
    elif keys[0] == want[0] and keys[1][0] == "add" and set(keys[1][1]) == {name0, C("_no_prune")}:
        # `name + suffix` with the suffix a value that only turned out to be a string after the records were written out: the
        # executor read the `+` of two operands of unknown type as a sum, which forgets the order of a concatenation
        chk.undecided(rule, f.where(Li.node), "the second key is `%s`, a `+` whose operand order was not kept: name + '_no_prune' or '_no_prune' + name is not decided" % show(keys[1]))
    elif keys[0] == keys[1]:
        chk.violation(rule, f.where(Li.node), "both modes store their entry under the same key `%s`: the second overwrites the first" % show(keys[0]), expected=[show(k) for k in want],
                      found=[show(k) for k in keys], construct="run_games keys coincide")
    else:
        chk.violation(rule, f.where(Li.node), "the entries are stored under `%s` and `%s`; specification: name and name + '_no_prune'" % (show(keys[0]), show(keys[1])),
                      expected=[show(k) for k in want], found=[show(k) for k in keys], construct="run_games keys")
    return rec_t


def r2_mode_reaches_solver(ctx, chk, rule="C12.2"):
    s = summary(ctx)
    if not s.ok:
        chk.undecided(rule, s.f.where(), "loops not recognised")
        return
    Li = s.Li
    ctors = [t for u in Li.update.values() for t in C02._sub(u) if t[0] == "call" and t[1] == "StochasticGame"]
    if not ctors:
        chk.undecided(rule, s.f.where(Li.node), "no StochasticGame(...) construction in the mode loop")
        return
    c = ctors[0]
    splat = [v for k, v in c[3] if k is None]
    mode = ("elem", Li.id)
    ok = False
    detail = show(c)[:140]
    if splat and splat[0][0] == "dict":
        # {**copy, "prune_states": mode} / {"prune_states": mode, **copy}: in a dict display the later entry wins
        flagp = shared.solver_names(ctx)["flag_param"]
        items = list(splat[0][1])
        pos_flag = [i for i, (k_, v_) in enumerate(items) if k_ == C(flagp)]
        pos_splat = [i for i, (k_, v_) in enumerate(items) if k_ == C(None) or k_ is None]
        if len(pos_flag) == 1 and len(pos_splat) == 1 and items[pos_flag[0]][1] == mode:
            cp = items[pos_splat[0]][1]
            faithful = cp[0] == "call" and cp[1] in ("copy.deepcopy",) and cp[2] and cp[2][0][0] in ("idx", "elem", "v")
            if pos_flag[0] < pos_splat[0]:
                chk.violation(rule, s.f.where(Li.node), "the game handed to the solver is {'%s': <mode>, **<description>}: the later entry of a dict display wins, so a `%s` key that the description "
                              "itself carries (a file that has it, a dictionary a previous run left it in) overrides the mode of the pass" % (flagp, flagp),
                              expected="{**<copy of the description>, '%s': <mode>}" % flagp, found=show(splat[0])[:140], construct="run_games mode overridden by the description")
                return
            if faithful:
                chk.ok(rule, s.f.where(Li.node), "the game handed to StochasticGame is a deep copy of the description with prune_states = the mode loop variable written last")
                return
    if splat:
        d = splat[0]
        inner = d[2][0] if d[0] == "call" and d[1] in ("copy.deepcopy", "copy.copy", "dict") and d[2] else d
        flagp = shared.solver_names(ctx)["flag_param"]
        if inner[0] == "ite" and not any(x == mode for x in C02._sub(inner[1])):
            # a further optional entry written under a condition that has nothing to do with the mode (a per-run setting handed on
            # when it is given): both alternatives must carry the mode
            def flag_of(t_):
                while t_[0] == "setitem":
                    if t_[2] == C(flagp):
                        return t_[3]
                    t_ = t_[1]
                return None
            a_, b_ = flag_of(inner[2]), flag_of(inner[3])
            if a_ == mode and b_ == mode:
                chk.ok(rule, s.f.where(Li.node), "the game handed to StochasticGame carries prune_states = the mode loop variable on both alternatives of `%s`" % show(inner[1])[:60])
                return
        if inner[0] == "ite" and any(x == mode for x in C02._sub(inner[1])):
            # the flag is written under a condition on the mode itself: judged mode by mode
            from ..symx import subst, deep_simp
            per = {}
            for mv in (True, False):
                t_ = deep_simp(subst(inner, lambda x: C(mv) if x == mode else None))
                val = "absent"
                while t_[0] == "setitem":
                    if t_[2] == C(flagp):
                        val = t_[3]
                        break
                    t_ = t_[1]
                per[mv] = val
            if all(per[mv] == C(mv) for mv in per):
                chk.ok(rule, s.f.where(Li.node), "the game handed to StochasticGame carries prune_states = True in the pruned pass and False in the other (written per mode)")
                return
            wrong = [mv for mv in per if per[mv] != C(mv)]
            if all(per[mv] == "absent" or is_const(per[mv]) for mv in wrong):
                mv = wrong[0]
                chk.violation(rule, s.f.where(Li.node), "in the %s pass the description is handed to the solver %s: what the game's own `%s` entry happens to hold decides the mode "
                              "(a file that carries the key, a description listed twice, a second run over the same dictionary - the previous pass left False behind)" % (
                                  "pruned" if mv else "unpruned", "without `%s` being set" % flagp if per[mv] == "absent" else "with %s = %s" % (flagp, show(per[mv])), flagp),
                              expected="game['%s'] = <mode> in every pass" % flagp, found=show(inner)[:140], construct="run_games mode not set per pass")
                return
        # inner = setitem(game, 'prune_states', mode)
        t = inner
        while t[0] == "setitem":
            if t[2] == C(flagp):
                ok = t[3] == mode
                detail = "game['%s'] = %s" % (flagp, show(t[3]))
                break
            t = t[1]
    else:
        kws = dict((k, v) for k, v in c[3] if k)
        flagp = shared.solver_names(ctx)["flag_param"]
        if flagp in kws:
            ok = kws[flagp] == mode
            detail = "%s=%s" % (flagp, show(kws[flagp]))
    recognised = (not splat) or (splat and (splat[0][0] == "setitem" or (splat[0][0] == "call" and splat[0][1] in ("copy.deepcopy", "copy.copy", "dict") and splat[0][2]
                                                                  and splat[0][2][0][0] in ("setitem", "idx", "elem", "v"))))
    if ok:
        chk.ok(rule, s.f.where(Li.node), "the game handed to StochasticGame carries prune_states = the mode loop variable (%s)" % detail)
    elif not recognised:
        # a home-made copy of the description: it must hand the solver the very values of the description
        conv = _type_changing_copy(s, splat[0])
        if conv:
            chk.violation(rule, s.f.where(Li.node), "the copy of the game that is handed to the solver %s: the batch solves a different description than the one in the file "
                          "(a transition entry written as a tuple is ill-formed when solved alone and becomes well-formed here)" % conv,
                          expected="copy.deepcopy(game) or an equally faithful copy", found=show(splat[0])[:100], construct="run_games type-changing copy")
        else:
            chk.undecided(rule, s.f.where(Li.node), "the game handed to StochasticGame is `%s`: not recognised as a faithful copy of the description carrying the mode" % show(splat[0])[:100])
    else:
        chk.violation(rule, s.f.where(Li.node), "the solver's prune_states is not the mode of the entry being computed (%s)" % detail, expected="prune_states = mode", found=detail,
                      construct="run_games mode not passed")


def _type_changing_copy(s, t):
    """Text if the value term t (a dict built by a loop over game.items()) converts containers: list(x) / tuple(x) applied to values
    that an isinstance test admits as the other type too."""
    terms = list(C02._sub(t))
    for L in s.sx.loops.values():
        for u in list(L.update.values()) + ([L.elt] if getattr(L, "elt", None) else []):
            terms += C02._sub(u)
    for x in terms:
        if x[0] == "ite" and x[1][0] == "call" and x[1][1] == "isinstance" and len(x[1][2]) == 2:
            ty = x[1][2][1]
            names = {y[1] for y in C02._sub(ty) if y[0] == "v"}
            for branch in (x[2],):
                if branch[0] == "call" and branch[1] in ("list", "tuple") and branch[2] and branch[2][0] == x[1][2][0] and (names - {branch[1]}) & {"list", "tuple"}:
                    other = sorted((names - {branch[1]}) & {"list", "tuple"})[0]
                    return "turns every %s among its entries into a %s (`%s`)" % (other, branch[1], show(branch)[:40])
    return None


def r3_isolation(ctx, chk, rec_t, rule="C12.3"):
    s = summary(ctx)
    f = s.f
    # (a) solver input-pure OR deep copy per construction
    tmp_viol = []

    class Probe:
        def ok(self, *a, **k):
            pass

        def note(self, *a):
            pass

        def violation(self, rule_, where, detail, **k):
            tmp_viol.append((where, detail))

        def undecided(self, rule_, where, detail):
            tmp_viol.append((where, "undecided: " + detail))
    shared.rule_input_ownership(ctx, Probe(), rule)
    Li = s.Li if s.ok else None
    deep = False
    if Li is not None:
        ctors = [t for u in Li.update.values() for t in C02._sub(u) if t[0] == "call" and t[1] == "StochasticGame"]
        for c in ctors:
            for k, v in c[3]:
                if k is None and v[0] == "call" and v[1] == "copy.deepcopy":
                    deep = True
    if not tmp_viol:
        chk.ok(rule, f.where(), "isolation: the solver never mutates its input (C10.1 holds on this tree, %s)" % ("and each construction also gets a deep copy" if deep else "no deep copy needed"))
    elif deep:
        chk.ok(rule, f.where(), "isolation: every StochasticGame(...) receives copy.deepcopy(game) made in the same iteration (the solver itself is not input-pure: %s)" % tmp_viol[0][1][:100])
    else:
        chk.violation(rule, f.where(), "the solver mutates its input (%s) and run_games hands it the caller's game without a deep copy: the unpruned run starts from the pruned run's damaged lists" % tmp_viol[0][1][:140],
                      expected="input-pure solver or deep copy per run", found="neither", construct="run_games isolation")
    _shared_mutables(ctx, chk, rule, f)
    if not s.ok or rec_t is None:
        return
    # (b) no value recorded in an entry comes from an earlier iteration
    Lo, Li = s.Lo, s.Li
    allowed = {s.res_var}
    bad = []
    norm = _lazy_norm(s, rec_t)
    # a carried variable in a *value* position is a value taken from an earlier iteration; one that only decides between values
    # (`if game_name not in games_without_solution`) is control state like the had-solution flag
    in_values = set()

    def leaves(x, d=0):
        if x[0] == "ite" and d < 40:
            leaves(x[2], d + 1)
            leaves(x[3], d + 1)
        elif x[0] == "dict":
            for _, v in x[1]:
                leaves(v, d + 1)
        else:
            for y in C02._sub(x):
                if y[0] == "acc":
                    in_values.add(y)
    leaves(norm)
    control_only = []
    mode_carried = []
    for t in C02._sub(norm):
        if t[0] == "acc" and t[1] in (Li.id, Lo.id) and t[2] not in allowed:
            if t not in in_values and _flag_var(s) is None and t[2] not in ("name", "game"):
                if t not in control_only:
                    control_only.append(t)
                continue
            # prev_game_had_solution legitimately carries from the pruned to the unpruned mode
            if t[2] == _flag_var(s):
                continue
            if t[2] == "name" or t[2] == "game":
                continue
            if t[1] == Li.id and is_const(Li.init.get(t[2], t)):
                # set afresh for every game and carried from the pruned to the unpruned run of that game only (a solution that is
                # reused when pruning changes nothing): nothing comes from another game; whether the reuse is right is not decided here
                if t not in mode_carried:
                    mode_carried.append(t)
                continue
            bad.append(t)
    if bad:
        chk.violation(rule, f.where(Li.node), "an entry records `%s`, whose value can come from an earlier game or mode (it is not re-established in every iteration): a failing game reports its predecessor's results" % show(bad[0]),
                      expected="defaults None/0 set inside the mode loop", found=show(bad[0]), construct="run_games loop-carried record value %s" % bad[0][2])
    elif mode_carried and _reuse_on_probabilities_only(s, mode_carried[0], norm):
        chk.violation(rule, f.where(Li.node), "the unpruned entry takes over `%s`, the pruned run's solution, whenever no state has probability 0: pruning also clears the states that no "
                      "remaining transition reaches (after Player 1 is restricted), and those have a positive probability - their unpruned values differ" % show(mode_carried[0]),
                      expected="the unpruned game solved on its own", found=show(mode_carried[0]), construct="run_games loop-carried record value %s" % mode_carried[0][2])
    elif mode_carried:
        chk.undecided(rule, f.where(Li.node), "an entry of the unpruned run can record `%s`, a value of the same game's pruned run (re-set for every game): whether it may be reused there is not decided" % show(mode_carried[0]))
    elif getattr(s, "set_flag_flaw", None):
        chk.violation(rule, f.where(Li.node), s.set_flag_flaw[0], expected="the same key added and looked up", found=show(s.set_flag_flaw[1]),
                      construct="run_games failed-set key mismatch")
    elif control_only and _carried_control_flaw(s, control_only, norm):
        why, t0 = _carried_control_flaw(s, control_only, norm)
        chk.violation(rule, f.where(Li.node), why, expected="what a game's entry records depends on that game only", found=show(t0)[:100],
                      construct="run_games loop-carried record value %s" % t0[2])
    elif control_only:
        chk.undecided(rule, f.where(Li.node), "the carried variable `%s` decides what an entry records and is not recognised as the had-solution flag of the current game" % show(control_only[0]))
    else:
        chk.ok(rule, f.where(Li.node), "no recorded value has a reaching definition from an earlier game or mode (only the result dict and the had-solution flag are carried)")


def _reuse_on_probabilities_only(s, acc_t, norm):
    """The conditions under which the carried solution is stored / taken over say nothing beyond "it exists", "this is the unpruned
    run", logging, and "every probability of the pruned solution is non-zero"."""
    Li = s.Li
    v = acc_t[2]
    terms = [Li.update.get(v)] + [x for x in C02._sub(norm) if x[0] == "ite" and mentions(x, lambda y: y == acc_t)]
    conds = []
    for t in terms:
        if t is None:
            continue
        for x in C02._sub(t):
            if x[0] == "ite":
                conds.append(x[1])
    if not conds:
        return False
    rich = False
    probs_test = False
    for c in conds:
        for x in C02._sub(c):
            if x[0] == "attr" and x[2] in ("transition_list", "players", "final_states", "rewards", "state_list", "next_states"):
                rich = True
            if x[0] == "call" and x[1] not in ("all", "any", "len", "bool", "min", "max", "copy.deepcopy", "isinstance", "StochasticGame", "float", "int", "abs", "round", "sum") and not x[1].startswith("logging"):
                rich = True
            if x[0] == "idx" and is_const(x[2]) and x[2][1] in (0, 1, 2) and mentions(x[1], lambda y: y == acc_t or (y[0] == "mcall" and y[2] in _SOLVE_NAMES[0])):
                rich = True         # strategies / rewards are consulted as well
            if x[0] == "idx" and x[2] == C(3):
                probs_test = True
        for x in C02._sub(c):
            if x[0] == "compr" and x[1] in s.sx.loops:
                L_ = s.sx.loops[x[1]]
                for y in C02._sub((L_.source, L_.elt) + tuple(L_.filters)):
                    if y[0] == "attr" and y[2] in ("transition_list", "players", "final_states", "rewards"):
                        rich = True
                    if y[0] == "idx" and y[2] == C(3):
                        probs_test = True
    return probs_test and not rich


def _carried_control_flaw(s, control_only, norm):
    """A carried variable that only decides what is recorded.  Two constructions are positively wrong:
    (a) a scalar (flag, message) that is not re-established for every game: the first run of a game is decided by the outcome of
        the game before it;
    (b) a collection of game names consulted by prefix / substring matching: two games whose names share a prefix decide each
        other's runs.
    A collection consulted by exact membership of the current game's own key is per-game information: not judged here."""
    Lo, Li = s.Lo, s.Li

    def scalar_leaves(t, d=0):
        if t[0] == "ite" and d < 30:
            return scalar_leaves(t[2], d + 1) and scalar_leaves(t[3], d + 1)
        return is_const(t) or t[0] in ("strcat", "fstr", "acc", "cmp", "not", "and", "or", "truthy") or (t[0] == "call" and t[1] in ("str", "bool"))
    for t in control_only:
        v = t[2]
        upd = Li.update.get(v) if t[1] == Li.id else Lo.update.get(v)
        carried_in = (t[1] == Lo.id) or (t[1] == Li.id and Li.init.get(v) == ("acc", Lo.id, v))
        if carried_in and upd is not None and scalar_leaves(upd) and not is_const(Li.init.get(v, t) if t[1] == Li.id else t):
            return ("whether a run is solved is decided by `%s`, which is not re-established for every game: after a game without solution the "
                    "runs of the NEXT game are decided by that outcome" % show(t)), t
        for x in C02._sub(norm):
            if x[0] == "mcall" and x[2] in ("startswith", "endswith", "find", "index", "count", "rfind") and mentions(x, lambda y: y == t):
                return ("whether a run is solved is decided by matching the entry name against the carried collection `%s` with `%s`: a game whose "
                        "name merely begins / ends like another game's is treated as that game" % (show(t), x[2])), t
    return None


def _shared_mutables(ctx, chk, rule, f):
    """(c) no shared mutable object updated in place by run_games, and none put into the results as it is"""
    mod = f.mod
    mod_names = set(mod.consts)
    hits = []
    local_names = set(f.params)
    for n in walk_no_nested_defs(f.node):
        if isinstance(n, ast.Name) and isinstance(n.ctx, ast.Store):
            local_names.add(n.id)
    cfg = ctx.cfg(f)
    for n in walk_no_nested_defs(f.node):
        base = None
        if isinstance(n, ast.Call) and isinstance(n.func, ast.Attribute) and n.func.attr in shared.MUTATORS:
            base = n.func.value
        elif isinstance(n, ast.Subscript) and isinstance(n.ctx, ast.Store):
            base = n.value
        if base is None:
            continue
        root = base
        while isinstance(root, (ast.Attribute, ast.Subscript)):
            root = root.value
        if isinstance(root, ast.Name):
            if root.id in mod_names and root.id not in local_names:
                hits.append((n, "module-level object `%s`" % root.id))
                continue
            # local alias of a module-level object
            defs = cfg.defs_reaching(n, root.id) if root.id in local_names else set()
            for d in defs:
                if isinstance(d, ast.Assign) and isinstance(d.value, ast.Name) and d.value.id in mod_names and d.value.id not in local_names:
                    hits.append((n, "`%s`, an alias of the module-level object `%s`" % (root.id, d.value.id)))
    if hits:
        n, what = hits[0]
        chk.violation(rule, f.where(n), "`%s` updates %s in place: what one game's run stores is seen by every later game" % (norm_stmt(cfg.stmt_of(n)), what),
                      expected="per-iteration objects only", found=norm_stmt(cfg.stmt_of(n)), construct="run_games shared mutable %s" % what.split("`")[1])
    else:
        chk.ok(rule, f.where(), "run_games updates no module-level object (or alias of one) in place")
    # a module-level container handed out as (part of) a result: every entry that gets it is the same object
    mutable = {n_ for n_, v_ in mod.consts.items() if isinstance(v_, (ast.Dict, ast.List, ast.Set)) or (isinstance(v_, ast.Call) and call_name(v_) in ("dict", "list", "set", "defaultdict", "collections.defaultdict"))}
    for n in walk_no_nested_defs(f.node):
        val = None
        if isinstance(n, ast.Assign) and len(n.targets) == 1 and isinstance(n.targets[0], ast.Subscript):
            val = n.value
        elif isinstance(n, ast.Call) and isinstance(n.func, ast.Attribute) and n.func.attr in ("append", "add", "setdefault") and n.args:
            val = n.args[-1]
        if not isinstance(val, ast.Name):
            continue
        srcs = set()
        if val.id in mutable and val.id not in local_names:
            srcs.add(val.id)
        elif val.id in local_names:
            for d in cfg.defs_reaching(n, val.id):
                if isinstance(d, ast.Assign) and isinstance(d.value, ast.Name) and d.value.id in mutable and d.value.id not in local_names:
                    srcs.add(d.value.id)
        if srcs:
            g_ = sorted(srcs)[0]
            chk.violation(rule, f.where(n), "`%s` stores the module-level object `%s` itself (no copy): every entry that receives it is one and the same object, so what is written into one "
                          "entry shows in all of them, in this batch and the next" % (norm_stmt(cfg.stmt_of(n))[:80], g_), expected="a fresh object per entry (dict(%s) / a display)" % g_,
                          found=norm_stmt(cfg.stmt_of(n))[:100], construct="run_games shares module-level %s" % g_)
            return


def _flag_var(s):
    """The had-solution flag: a boolean carried through the mode loop whose update depends on whether the solve raised."""
    Li = s.Li
    for v, init in Li.init.items():
        if is_const(init) and isinstance(init[1], bool) and v in Li.update and mentions(Li.update[v], lambda x: x[0] == "raised"):
            return v
    # no boolean: `error = None` per game, the text of the error once the pruned run has failed, asked only `is None`
    for v, init in Li.init.items():
        if init == C(None) and v in Li.update and mentions(Li.update[v], lambda x: x[0] == "raised") and _none_tests_only(s, v):
            after = Li.update[v]
            if mentions(after, lambda x: x[0] in ("fstr", "strcat") or (x[0] == "call" and x[1] in ("str", "repr", "format"))):
                return v
    for v, init in Li.init.items():
        if init == TRUE or (is_const(init) and init[1] is True):
            return v
    return None


ERROR_TEXT = "\x00<error text of the failed run>"


def _none_tests_only(s, v):
    """The carried variable v (None until a run fails, then the error text) is only ever asked `is None` / `is not None`."""
    acc = ("acc", s.Li.id, v)
    uses = 0
    bad = []

    def walk(x, parent):
        nonlocal uses
        if isinstance(x, tuple) and x:
            if x == acc:
                uses += 1
                if not (parent is not None and parent[0] == "cmp" and parent[1] in ("is", "isnot", "==", "!=") and C(None) in (parent[2], parent[3])):
                    bad.append(parent)
                return
            for y in x:
                walk(y, x if (isinstance(x[0], str)) else parent)
    for var, u in s.Li.update.items():
        if var == v:
            # its own update may keep it (`x if ... else acc`)
            walk(subst(u, lambda y: C(None) if False else None), None)
        else:
            walk(u, None)
    for e in s.Li.effects:
        walk(e, None)
    bad2 = [b for b in bad if not (b is not None and b[0] == "ite" and acc in (b[2], b[3]))]
    return not bad2


def _tid(s):
    tries = getattr(s.sx, "tries", {})
    return next(iter(tries)) if len(tries) == 1 else None


def scenario(s, t, flag_value, raised):
    """Specialise a term of the mode loop body to: flag variable == flag_value at iteration start, solve raised or not."""
    from ..symx import assume_deep
    flag = _flag_var(s)
    tid = _tid(s)
    acc = ("acc", s.Li.id, flag)
    out = t
    out = subst(out, lambda x: C(flag_value) if x == acc else None)
    if tid is not None and raised is not None:
        out = assume_deep(out, ("raised", tid), raised)
    # re-simplify conditionals that became constant
    for _ in range(3):
        out = subst(out, lambda x: (x[2] if x[1] == TRUE or (is_const(x[1]) and x[1][1] is True) else x[3]) if x[0] == "ite" and is_const(x[1]) else None)
    if getattr(s, "ctx", None) is not None:
        out = shared.as_solve(s.ctx, out)
    return out


def flag_states(s):
    """(good, bad): value of the flag before any failure, and after a raising solve."""
    flag = _flag_var(s)
    good = s.Li.init[flag][1]
    after = scenario(s, s.Li.update[flag], good, True)
    bad = after[1] if is_const(after) and isinstance(after[1], bool) else None
    if good is None and bad is None and (after[0] in ("fstr", "strcat") or (after[0] == "call" and after[1] in ("str", "repr", "format")) or (is_const(after) and isinstance(after[1], str))):
        bad = ERROR_TEXT          # the flag is `None` / the text of the error: some string, which is not None
    return good, bad


def _msg_term(s):
    Li = s.Li
    u = Li.update.get(s.res_var)
    if u is not None and u[0] == "setitem" and u[3][0] == "dict":
        rec = {k[1]: v for k, v in u[3][1] if is_const(k) and isinstance(k[1], str)}
        return rec.get("msg")
    return None


def _solve_calls(t):
    return [x for x in C02._sub(t) if x[0] == "mcall" and x[2] in _SOLVE_NAMES[0]]


def r1b_module_iterators(ctx, chk, rule="C12.1"):
    n = shared.rule_no_module_level_iterators(ctx, chk, rule, ("conditionalrewards.py", "tad.py"))
    if not any(o.rule == rule and o.status == "violation" and "one-shot iterator" in str(o.detail) for o in chk.obls):
        chk.ok(rule, "conditionalrewards.py, tad.py", "%d module-level bindings: none is a lazy iterator that a loop of the batch walks" % n)


def r4_failure_protocol(ctx, chk, rule="C12.4"):
    s = summary(ctx)
    f = s.f
    if not s.ok:
        chk.undecided(rule, f.where(), "loops not recognised")
        return
    Lo, Li = s.Lo, s.Li
    flag = _flag_var(s)
    tid = _tid(s)
    if flag is None or tid is None:
        chk.undecided(rule, f.where(Lo.node), "had-solution flag / single try statement not identified (flag=%s, tries=%d)" % (flag, len(getattr(s.sx, "tries", {}))))
        return
    good, bad = flag_states(s)
    after_ = scenario(s, Li.update[flag], good, True)
    if bad is None and mentions(after_, lambda x: x[0] in ("res", "apply", "compr") or (x[0] == "acc" and x[1] != Li.id)):
        chk.undecided(rule, f.where(Li.node), "the flag `%s` after a raising solve is `%s`: it comes out of a nested loop / helper that is not resolved" % (flag, show(after_)[:100]))
        return
    path_dependent = (after_[0] == "ite" and not is_const(after_[1]) and isinstance(good, bool) and {after_[2], after_[3]} == {C(good), C(not good)}) or \
        (after_[0] in ("and", "or", "not", "cmp", "truthy") and isinstance(good, bool)
         and mentions(after_, lambda x: (x[0] == "acc" and x[1] == Li.id and x[2] != flag) or x == ("elem", Li.id)))
    if bad is None and path_dependent:
        # the flag flips on the path that solved; on another path of the same iteration (one that does not solve at all: a result
        # taken over from the pruned run) it is left alone - "the solve raised" does not happen there
        chk.undecided(rule, f.where(Li.node), "the flag `%s` after a raising solve is `%s`: the iteration has a path that does not solve at all, the protocol on it is not decided" % (flag, show(after_)[:100]))
        return
    if bad is None or bad == good:
        chk.violation(rule, f.where(Li.node), "after a raising solve the flag `%s` is `%s` (unchanged / not a constant): the unpruned entry is not marked 'not solved'" % (
            flag, show(scenario(s, Li.update[flag], good, True))), expected="flag flips when the solve raised", found=show(Li.update[flag])[:140], construct="run_games flag update")
        return
    # flag re-established per game: its initial value for the mode loop is a constant assigned inside the game loop
    assigned_in_outer = flag == "$had_solution" or \
        any(isinstance(n, ast.Assign) and any(isinstance(t, ast.Name) and t.id == flag for t in n.targets) for n in Lo.node.body)   # ($: membership of this game's own key)
    if not assigned_in_outer:
        chk.violation(rule, f.where(Lo.node), "the flag `%s` is not re-set for each game: after one failing game every later game is reported 'not solved'" % flag,
                      expected="%s = %r at the start of every game" % (flag, good), found="set outside the game loop", construct="run_games flag hoisted")
    else:
        chk.ok(rule, f.where(Lo.node), "`%s = %r` is re-established for every game, outside the mode loop" % (flag, good))
    uf = Li.update[flag]
    stays_good = scenario(s, uf, good, False)
    stays_bad_1, stays_bad_2 = scenario(s, uf, bad, False), scenario(s, uf, bad, True)
    if stays_good == C(good) and stays_bad_1 == C(bad) and stays_bad_2 == C(bad):
        chk.ok(rule, f.where(Li.node), "flag transitions: %r --solve raised--> %r; %r otherwise unchanged; %r is absorbing within a game" % (good, bad, good, bad))
    else:
        chk.violation(rule, f.where(Li.node), "flag transitions are not (ok -> ok when solved, ok -> failed when raised, failed stays failed): %s / %s / %s" % (
            show(stays_good), show(stays_bad_1), show(stays_bad_2)), expected="cleared iff the solve raised", found=show(uf)[:160], construct="run_games flag update")
    msg = _msg_term(s)
    if msg is None:
        chk.undecided(rule, f.where(Li.node), "message of the entry not found")
        return
    mA, mB, mC = scenario(s, msg, good, False), scenario(s, msg, good, True), scenario(s, msg, bad, None)
    okA = is_const(mA) and isinstance(mA[1], str)
    okB = any(t == ("exc", tid) for t in C02._sub(mB))
    okC = is_const(mC) and isinstance(mC[1], str)
    if okA and okB and okC and mA != mC:
        chk.ok(rule, f.where(Li.node), "message: %r if solved, the exception text if the solve raised, %r if the pruned run had failed" % (mA[1], mC[1]))
    else:
        chk.violation(rule, f.where(Li.node), "message protocol: solved -> `%s`, raised -> `%s`, pruned run failed -> `%s`; specification: a constant, a text embedding the exception, a different constant" % (
            show(mA)[:60], show(mB)[:80], show(mC)[:60]), expected="three distinguishable messages, the error one embedding the exception text", found=show(msg)[:200],
            construct="run_games message protocol")
    # solve() is not evaluated when the flag is in its failed state
    u = Li.update.get(s.res_var)
    rec_t = u[3] if u is not None and u[0] == "setitem" else None
    if rec_t is not None:
        skipped = scenario(s, rec_t, bad, None)
        if _solve_calls(skipped):
            chk.violation(rule, f.where(Li.node), "an entry takes a value from solve() even when the pruned run had failed", expected="solve() only while the flag holds",
                          found=show(_solve_calls(skipped)[0])[:100], construct="run_games solve without flag")
        else:
            chk.ok(rule, f.where(Li.node), "solve() is evaluated only while the had-solution flag holds")
    _batch_runner(ctx, chk, rule + ":C09.5")


def _batch_runner(ctx, chk, rule):
    """C09.5 on run_games or on the helper that contains the solve() call."""
    f = ctx.func(RUN)
    if shared.solve_calls_in(ctx, f):
        C09.r5_batch_runner(ctx, chk, rule)
        return
    for g in ctx.cg.reachable([f]):
        if g is not f and g.mod is f.mod and shared.solve_calls_in(ctx, g):
            C09.r5_batch_runner(ctx, chk, rule, holder=g)
            return
    chk.undecided(rule, f.where(), "no solve() call reachable from run_games inside conditionalrewards.py")


def _lazy_norm(s, t):
    """`if obj is None: obj = make(game)` inside the mode loop, with `obj = None` set for every game: after that statement obj is
    make(game) - built in this iteration or in an earlier mode of the SAME game, never taken from another game."""
    Li = s.Li

    def g(x):
        if x[0] == "ite" and x[1][0] == "cmp" and x[1][1] in ("is", "==") and x[1][3] == C(None) and x[1][2][0] == "acc" and x[1][2][1] == Li.id \
                and x[3] == x[1][2] and Li.init.get(x[1][2][2]) == C(None) and not mentions(x[2], lambda y: y == x[1][2]):
            return x[2]
        return None
    return subst(t, g)


def _from_nested(t, Li):
    """The value comes out of a loop nested in the mode loop (runs repeated for timing, retries): not resolved here."""
    return mentions(t, lambda x: x[0] == "res" or (x[0] == "acc" and x[1] != Li.id))


def _unresolved_container(t):
    """the value is read out of a dictionary / list that was built by operations the symbolic executor does not follow (update with
    an unknown mapping, a comprehension over unknown keys, zip of unknown sequences): what it is cannot be said"""
    return t[0] == "idx" and t[1][0] in ("setitem", "call", "mcall", "ite", "compr", "res", "cat", "apply")


def r5_record(ctx, chk, rec_t, rule="C12.5"):
    s = summary(ctx)
    f = s.f
    if rec_t is None or rec_t[0] != "dict":
        chk.undecided(rule, f.where(), "record term not a dict display")
        return
    Li = s.Li
    rec = {k[1]: v for k, v in rec_t[1] if is_const(k) and isinstance(k[1], str)}
    splats = [v for k, v in rec_t[1] if not (is_const(k) and isinstance(k[1], str))]
    if splats:
        chk.undecided(rule, f.where(Li.node), "the entry is built with a `**` splat of `%s`: its keys are not statically known" % show(splats[0])[:80])
        return
    flag = _flag_var(s)
    tid = _tid(s)
    if flag is None or tid is None:
        chk.undecided(rule, f.where(Li.node), "flag / try not identified")
        return
    good, bad = flag_states(s)
    # a key of the entry may have been renamed (consistently with the report writer): a key that is not one of the documented
    # names and whose solved value is exactly the slot of a missing documented key stands for it
    aliases = {}
    for key, slot in SLOT_OF.items():
        if key in rec:
            continue
        for k2, v2 in rec.items():
            if k2 in SLOT_OF or k2 in aliases.values():
                continue
            a2 = scenario(s, v2, good, False)
            if a2[0] == "idx" and a2[1][0] == "mcall" and a2[1][2] == "solve" and a2[2] == C(slot):
                aliases[key] = k2
                break
    ctx.cache["C12.key_alias"] = aliases
    for key, slot in SLOT_OF.items():
        if key not in rec and key in aliases:
            chk.note("entry key %r appears as %r" % (key, aliases[key]))
        elif key not in rec:
            chk.violation(rule, f.where(Li.node), "the entry has no key %r" % key, expected=key, found=sorted(rec), construct="run_games record key %s" % key)
            continue
        v = rec[aliases.get(key, key)]
        vA, vB, vC = scenario(s, v, good, False), scenario(s, v, good, True), scenario(s, v, bad if bad is not None else (not good), None)
        want_d = DEFAULTS[key]
        okA = vA[0] == "idx" and vA[1][0] == "mcall" and vA[1][2] == "solve"
        if not okA and (_unresolved_container(vA) or (_solve_calls(vA) and not (vA[0] == "idx" and vA[1][0] == "mcall"))):
            chk.undecided(rule, f.where(Li.node), "record[%r] when solved is `%s`: the entry goes through a container operation that is not resolved" % (key, show(vA)[:100]))
            continue
        if not okA:
            chk.violation(rule, f.where(Li.node), "record[%r] when solved is `%s`, not a slot of solve()'s result" % (key, show(vA)[:100]), expected="solve()[%d]" % slot, found=show(vA)[:140],
                          construct="run_games record %s source" % key)
            continue
        if vA[2] != C(slot):
            other = [k2 for k2, s2 in SLOT_OF.items() if C(s2) == vA[2]]
            chk.violation(rule, f.where(Li.node), "record[%r] is slot %s of solve()'s result (%s), not slot %d: two outputs are exchanged in the report" % (key, show(vA[2]), other[0] if other else "?", slot),
                          expected="solve()[%d]" % slot, found="solve()[%s]" % show(vA[2]), construct="run_games record %s slot" % key)
            continue

        def is_default(t):
            return is_const(t) and t[1] == want_d and type(t[1]) is type(want_d)
        if is_default(vB) and is_default(vC):
            chk.ok(rule, f.where(Li.node), "record[%r] = solve()[%d] if solved else %r" % (key, slot, want_d))
        elif not all(is_const(x) or _solve_calls(x) for x in (vB, vC)):
            chk.undecided(rule, f.where(Li.node), "record[%r] is `%s` when the solve raised and `%s` when the pruned run had failed: not resolved to a constant" % (key, show(vB)[:60], show(vC)[:60]))
        else:
            chk.violation(rule, f.where(Li.node), "record[%r] is `%s` when the solve raised and `%s` when the pruned run had failed; specification: %r in both cases" % (
                key, show(vB)[:60], show(vC)[:60], want_d), expected=repr(want_d), found="%s / %s" % (show(vB)[:60], show(vC)[:60]), construct="run_games record %s default" % key)
    # counts
    game_obj = [t for t in C02._sub(rec_t) if t[0] == "call" and t[1] == "StochasticGame"]
    go = game_obj[0] if game_obj else None
    ns = rec.get("n_states")
    nt = rec.get("n_transitions")
    if ns is not None and nt is not None and _lazy_norm(s, ns) != ns:
        ns, nt = _lazy_norm(s, ns), _lazy_norm(s, nt)
        game_obj = [t for t in C02._sub(_lazy_norm(s, rec_t)) if t[0] == "call" and t[1] == "StochasticGame"]
        go = game_obj[0] if game_obj else None
    if go is not None and ns == ("attr", go, "num_states"):
        chk.ok(rule, f.where(Li.node), "record['n_states'] = num_states of this iteration's game object")
    elif ns is not None and (_unresolved_container(ns) or _from_nested(ns, Li)):
        chk.undecided(rule, f.where(Li.node), "record['n_states'] = `%s`: goes through a container operation that is not resolved" % show(ns)[:80])
    else:
        chk.violation(rule, f.where(Li.node), "record['n_states'] = `%s`" % (show(ns)[:80] if ns else None), expected="sgame.num_states", found=show(ns)[:100] if ns else "missing",
                      construct="run_games record n_states")
    if go is not None and nt == ("mcall", go, "count_transitions", (), ()):
        chk.ok(rule, f.where(Li.node), "record['n_transitions'] = count_transitions() of this iteration's game object")
    elif nt is not None and (_unresolved_container(nt) or _from_nested(nt, Li)):
        chk.undecided(rule, f.where(Li.node), "record['n_transitions'] = `%s`: goes through a container operation that is not resolved" % show(nt)[:80])
    else:
        chk.violation(rule, f.where(Li.node), "record['n_transitions'] = `%s`" % (show(nt)[:80] if nt else None), expected="sgame.count_transitions()", found=show(nt)[:100] if nt else "missing",
                      construct="run_games record n_transitions")
    if "msg" not in rec or "total_time" not in rec:
        chk.violation(rule, f.where(Li.node), "entry lacks msg / total_time", expected="msg, total_time", found=sorted(rec), construct="run_games record msg")
    # slots of solve() -> node fields
    solve = ctx.func("tad.py::StochasticGame.solve")
    from ..nf import Kernel
    ksolve = ctx.cache.get("solve_kernel")
    if ksolve is None:
        ksolve = ctx.cache["solve_kernel"] = Kernel(ctx, "tad.py::StochasticGame.solve", "StochasticGame")
    sxs = ksolve.sx
    ret = sxs.ret
    if ret[0] != "tup":
        chk.undecided(rule, solve.where(), "solve() returns `%s`: not resolved to a tuple display" % show(ret)[:80])
        return
    if len(ret[1]) != 8:
        chk.violation(rule, solve.where(), "solve() returns %s values; the batch runner unpacks 8" % (len(ret[1]) if ret[0] == "tup" else "a non-tuple"), expected=8,
                      found=show(ret)[:80], construct="solve() arity")
        return
    for slot, field in FIELD_OF_SLOT.items():
        t = ret[1][slot]
        le = ksolve.listexpr(t)
        okf = le is not None and le[2] == ("attr", ("e",), field) and le[1] == TRUE and le[3]
        if okf:
            chk.ok(rule, solve.where(), "solve()[%d] = [state.%s for state in state_list]" % (slot, field))
        elif le is None or mentions(le[2], lambda x: x[0] in ("mcall", "apply", "res", "compr")):
            chk.undecided(rule, solve.where(), "solve()[%d] is `%s`: not resolved to a list of one field over the states" % (slot, show(t)[:100]))
        else:
            chk.violation(rule, solve.where(), "solve()[%d] is `%s`; the report labels it as the per-state %s" % (slot, show(t)[:100], field), expected="[state.%s ...]" % field,
                          found=show(t)[:120], construct="solve() slot %d field" % slot)
    for slot, (meth, k) in {0: ("solve_total_rewards", 0), 1: ("solve_reachability", 0), 4: ("solve_reachability", 1), 5: ("solve_total_rewards", 1)}.items():
        t = ret[1][slot]
        if t[0] == "idx" and t[2] == C(k) and t[1][0] == "mcall" and t[1][2] == meth:
            chk.ok(rule, solve.where(), "solve()[%d] = %s(...)[%d]" % (slot, meth, k))
        elif mentions(t, lambda x: x[0] in ("apply", "compr", "res") or (x[0] == "mcall" and x[1] == ("v", "self"))):
            chk.undecided(rule, solve.where(), "solve()[%d] is `%s`: produced by a helper that was not resolved" % (slot, show(t)[:100]))
        else:
            chk.violation(rule, solve.where(), "solve()[%d] is `%s`, expected %s(...)[%d]" % (slot, show(t)[:100], meth, k), expected="%s()[%d]" % (meth, k), found=show(t)[:120],
                          construct="solve() slot %d source" % slot)


def observe(ctx, chk, prefix, keys, with_msg=False):
    """The properties of the solver are observed through the batch driver (`run_games()[name][key]`): what the solver
    computed must arrive in the entry of its own game and mode under its own key.  Runs the driver rules of C12 (entry keys,
    mode handed to the solver, nothing carried over from an earlier game, the slot recorded under each key) and reports, under
    `prefix`, what concerns the given keys (and everything that concerns every key)."""
    import re
    rec = shared.Recorder()
    rec_t = r1_keys(ctx, rec, "1")
    r2_mode_reaches_solver(ctx, rec, "2")
    if rec_t is not None:
        r3_isolation(ctx, rec, rec_t, "3")
        r5_record(ctx, rec, rec_t, "5")
    if with_msg:
        r4_failure_protocol(ctx, rec, "4")
    other_keys = [k for k in list(SLOT_OF) + ["n_states", "n_transitions", "msg", "total_time"] if k not in keys]
    n = 0
    for kind, rule, where, text, kw in rec.items:
        if kind == "note":
            continue
        con = str(kw.get("construct", ""))
        about = re.findall(r"record\[['\"]?(\w+)['\"]?\]", text if isinstance(text, str) else "") + re.findall(r"run_games record (\w+)", con)
        if "solve()[" in (text if isinstance(text, str) else "") and rule == "5" and not about:
            m_ = re.search(r"solve\(\)\[(\d)\]", text)
            about = [k for k, sl in SLOT_OF.items() if m_ and sl == int(m_.group(1))]
        if about and not any(a in keys for a in about) and all(a in other_keys for a in about):
            continue
        if kind == "ok" and not about and rule == "5":
            continue
        n += 1
        if kind == "undecided":
            # a driver the rules do not understand leaves the observation open; what the property says about solve() itself is
            # decided by the property's own rules - noted, not an obligation of this check (C12 carries it)
            chk.note("%s:C12.%s not decided here: %s" % (prefix, rule, str(text)[:160]))
            continue
        getattr(chk, kind)("%s:C12.%s" % (prefix, rule), where, text, **kw)
    return n


def run(ctx, chk):
    shared.rule_mutable_defaults(ctx, chk, "C12.0:defaults", ("conditionalrewards.py",))      # a call must not depend on the calls made before it
    r1b_module_iterators(ctx, chk)
    rec = r1_keys(ctx, chk)
    r2_mode_reaches_solver(ctx, chk)
    r3_isolation(ctx, chk, rec)
    r4_failure_protocol(ctx, chk)
    r5_record(ctx, chk, rec)
    shared.rule_input_ownership(ctx, chk, "C12.pre:C10.1")
    from . import C10
    C10.r2_no_carried_state(ctx, chk, "C12.pre:C10.2")
    # "the remaining games are still solved": a malformed game must fail with the error the driver catches (ValueError), whatever is malformed
    from . import C09
    C09.r123_check_game(ctx, chk, "C12.pre:C09.1")
    C09.r4_check_next_states(ctx, chk, "C12.pre:C09.1")
    # observed through `conditionalrewards.py -f FILE -s`: every entry (also the failed ones, with their message) is in the report
    from . import C16
    rec16 = shared.Recorder()
    C16.r1234_writer(ctx, rec16)
    for kind, rule, where, text, kw in rec16.items:
        if kind in ("ok", "violation") and (rule == "C16.4" or (kind == "violation" and "msg" in str(kw.get("construct", "")) + str(text))):
            getattr(chk, kind)("C12.obs:%s" % rule, where, text, **kw)       # (an unrecognised writer is C16's to decide)
    chk.require_instances("C12.5", 12)


def key_aliases(ctx):
    """{documented key: key actually used by run_games} for renamed entry keys (computed by r5_record)."""
    if "C12.key_alias" not in ctx.cache:
        class _Q:
            extra = {}

            def ok(self, *a, **k):
                pass
            violation = undecided = note = ok
        try:
            rec = r1_keys(ctx, _Q())
            r5_record(ctx, _Q(), rec)
        except Exception:
            ctx.cache.setdefault("C12.key_alias", {})
    return ctx.cache.get("C12.key_alias", {})
