"""C12 - batch runs solve each game in isolation and report failures."""
import ast

from ..loader import AnalysisError, attr_path, src, walk_no_nested_defs, norm_stmt, call_name
from ..symx import SymX, classify, show, C, TRUE, FALSE, simp, is_const, subst, mentions, UNBOUND
from . import C02, C09, shared

EXPLANATION = (
    "run_games is summarised symbolically (loops as per-iteration update terms, the try/except as a 'raised' "
    "alternative). (1) one record per (game, mode): the mode loop is over the literal [True, False]; unrolling it with "
    "the loop variable as a constant gives the two result keys name and name+'_no_prune' - distinct, pruned first; "
    "(2) the mode reaches the solver: the value stored under 'prune_states' in the dict passed to StochasticGame(**.) "
    "is the loop variable; (3) isolation: the solver is input-pure (C10.1 re-evaluated) or every construction "
    "receives a deep copy made in the same iteration; no value recorded in an entry has a reaching definition from "
    "an earlier iteration (defaults are re-established per mode; no module-level or shared mutable object is "
    "updated in place), except the result dict and the had-solution flag; (4) failure protocol: solve() only under "
    "the flag, inside a try whose handler catches ValueError, embeds the exception text, clears the flag, does not "
    "re-raise or leave the loops; the flag is set true per game outside the mode loop; nothing outside the try "
    "dereferences unvalidated game components; (5) record contents: every record key is traced to its slot of "
    "solve()'s return tuple and to the node field / counter behind that slot.")
ASSUMPTIONS = ["games_dict maps names to dicts with the constructor's keyword names"]
TECHNIQUE = "symbolic loop summaries with unrolling of the literal mode loop + provenance chains (ast)"

RUN = "conditionalrewards.py::run_games"
SLOT_OF = {"final_strategies": 0, "reachability_strategies": 1, "rewards": 2, "probabilities": 3,
           "n_iterations_reach": 4, "n_iterations_rew": 5, "prob_min_rew": 6, "rew_min_reach": 7}
FIELD_OF_SLOT = {2: "expected_rewards", 3: "reach_probability", 6: "expected_reach_min_rewards", 7: "expected_rewards_min_reach"}
DEFAULTS = {"final_strategies": None, "reachability_strategies": None, "rewards": None, "probabilities": None,
            "n_iterations_reach": 0, "n_iterations_rew": 0, "prob_min_rew": 0, "rew_min_reach": 0}


class Summary:
    def __init__(self, ctx):
        self.f = ctx.func(RUN)
        self.sx = SymX(ctx, self.f, inline_depth=0).run()
        loops = [l for l in self.sx.loops.values() if l.kind == "for"]
        self.outer = [l for l in loops if l.source[0] == "mcall" and l.source[2] == "items"]
        self.inner = [l for l in loops if l.source[0] == "list"]
        self.ok = len(self.outer) == 1 and len(self.inner) == 1 and self.inner[0].id in self.outer[0].inner
        if self.ok:
            self.Lo, self.Li = self.outer[0], self.inner[0]
            # result dict variable: the one returned
            r = self.sx.ret
            self.res_var = r[2] if r[0] == "res" else None


def summary(ctx):
    if "C12.summary" not in ctx.cache:
        ctx.cache["C12.summary"] = Summary(ctx)
    return ctx.cache["C12.summary"]


def _inst(t, mapping):
    return subst(t, lambda x: mapping.get(x))


def r1_keys(ctx, chk, rule="C12.1"):
    s = summary(ctx)
    f = s.f
    if not s.ok or s.res_var is None:
        chk.undecided(rule, f.where(), "run_games is not `for name, game in games.items(): for mode in [..]: ...; return results`")
        return None
    Lo, Li = s.Lo, s.Li
    modes = Li.source[1]
    if modes != (C(True), C(False)) or not (modes[0][1] is True and modes[1][1] is False):
        chk.violation(rule, f.where(Li.node), "the mode loop runs over `%s`; specification: pruned first, then unpruned ([True, False])" % show(Li.source), expected="[True, False]",
                      found=show(Li.source), construct="run_games mode list")
        return None
    if Lo.has_break or Li.has_break or Lo.has_return or Li.has_return or Lo.cont != FALSE or Li.cont != FALSE or not Lo.whole:
        chk.violation(rule, f.where(Lo.node), "a loop of run_games can be left early (break / continue / return): later games or modes get no entry", expected="every game, both modes",
                      found="early exit", construct="run_games early exit")
        return None
    u = Li.update.get(s.res_var)
    acc = ("acc", Li.id, s.res_var)
    if u is None or u[0] != "setitem" or u[1] != acc:
        chk.violation(rule, f.where(Li.node), "the result dict is not extended by exactly one `results[key] = {...}` per mode (update `%s`)" % show(u)[:120], expected="one entry per (game, mode)",
                      found=show(u)[:160], construct="run_games entry store")
        return None
    key_t, rec_t = u[2], u[3]
    if Li.init.get(s.res_var) != ("acc", Lo.id, s.res_var) or Lo.init.get(s.res_var) != ("dict", ()):
        chk.violation(rule, f.where(), "the result dict is re-created inside a loop (entries of earlier games / modes are lost)", expected="one dict for the whole run",
                      found=show(Li.init.get(s.res_var)), construct="run_games result dict reset")
        return None
    # unroll: carried variables of the inner loop
    name0 = simp(("idx", ("elem", Lo.id), C(0)))
    cur = {v: Li.init[v] for v in Li.init}
    keys = []
    for mode in (C(True), C(False)):
        mapping = {("elem", Li.id): mode}
        for v, val in cur.items():
            mapping[("acc", Li.id, v)] = val
        keys.append(_inst(key_t, mapping))
        cur = {v: _inst(Li.update[v], mapping) for v in Li.update}
    want = [name0, simp(("strcat", name0, C("_no_prune")))]
    if keys == want:
        chk.ok(rule, f.where(Li.node), "keys of the two entries of a game: `%s` (pruned, first) and `%s` (unpruned) - distinct for every name" % (show(keys[0]), show(keys[1])))
    elif keys[0] == keys[1]:
        chk.violation(rule, f.where(Li.node), "both modes store their entry under the same key `%s`: the second overwrites the first" % show(keys[0]), expected=[show(k) for k in want],
                      found=[show(k) for k in keys], construct="run_games keys coincide")
    else:
        chk.violation(rule, f.where(Li.node), "the entries are stored under `%s` and `%s`; specification: name and name + '_no_prune'" % (show(keys[0]), show(keys[1])),
                      expected=[show(k) for k in want], found=[show(k) for k in keys], construct="run_games keys")
    return rec_t


def r2_mode_reaches_solver(ctx, chk, rule="C12.2"):
    s = summary(ctx)
    if not s.ok:
        chk.undecided(rule, s.f.where(), "loops not recognised")
        return
    Li = s.Li
    ctors = [t for u in Li.update.values() for t in C02._sub(u) if t[0] == "call" and t[1] == "StochasticGame"]
    if not ctors:
        chk.undecided(rule, s.f.where(Li.node), "no StochasticGame(...) construction in the mode loop")
        return
    c = ctors[0]
    splat = [v for k, v in c[3] if k is None]
    mode = ("elem", Li.id)
    ok = False
    detail = show(c)[:140]
    if splat:
        d = splat[0]
        inner = d[2][0] if d[0] == "call" and d[1] in ("copy.deepcopy", "copy.copy", "dict") and d[2] else d
        # inner = setitem(game, 'prune_states', mode)
        t = inner
        while t[0] == "setitem":
            if t[2] == C("prune_states"):
                ok = t[3] == mode
                detail = "game['prune_states'] = %s" % show(t[3])
                break
            t = t[1]
    else:
        kws = dict((k, v) for k, v in c[3] if k)
        if "prune_states" in kws:
            ok = kws["prune_states"] == mode
            detail = "prune_states=%s" % show(kws["prune_states"])
    if ok:
        chk.ok(rule, s.f.where(Li.node), "the game handed to StochasticGame carries prune_states = the mode loop variable (%s)" % detail)
    else:
        chk.violation(rule, s.f.where(Li.node), "the solver's prune_states is not the mode of the entry being computed (%s)" % detail, expected="prune_states = mode", found=detail,
                      construct="run_games mode not passed")


def r3_isolation(ctx, chk, rec_t, rule="C12.3"):
    s = summary(ctx)
    f = s.f
    # (a) solver input-pure OR deep copy per construction
    tmp_viol = []

    class Probe:
        def ok(self, *a, **k):
            pass

        def note(self, *a):
            pass

        def violation(self, rule_, where, detail, **k):
            tmp_viol.append((where, detail))

        def undecided(self, rule_, where, detail):
            tmp_viol.append((where, "undecided: " + detail))
    shared.rule_input_ownership(ctx, Probe(), rule)
    Li = s.Li if s.ok else None
    deep = False
    if Li is not None:
        ctors = [t for u in Li.update.values() for t in C02._sub(u) if t[0] == "call" and t[1] == "StochasticGame"]
        for c in ctors:
            for k, v in c[3]:
                if k is None and v[0] == "call" and v[1] == "copy.deepcopy":
                    deep = True
    if not tmp_viol:
        chk.ok(rule, f.where(), "isolation: the solver never mutates its input (C10.1 holds on this tree, %s)" % ("and each construction also gets a deep copy" if deep else "no deep copy needed"))
    elif deep:
        chk.ok(rule, f.where(), "isolation: every StochasticGame(...) receives copy.deepcopy(game) made in the same iteration (the solver itself is not input-pure: %s)" % tmp_viol[0][1][:100])
    else:
        chk.violation(rule, f.where(), "the solver mutates its input (%s) and run_games hands it the caller's game without a deep copy: the unpruned run starts from the pruned run's damaged lists" % tmp_viol[0][1][:140],
                      expected="input-pure solver or deep copy per run", found="neither", construct="run_games isolation")
    if not s.ok or rec_t is None:
        return
    # (b) no value recorded in an entry comes from an earlier iteration
    Lo, Li = s.Lo, s.Li
    allowed = {s.res_var}
    bad = []
    for t in C02._sub(rec_t):
        if t[0] == "acc" and t[1] in (Li.id, Lo.id) and t[2] not in allowed:
            # prev_game_had_solution legitimately carries from the pruned to the unpruned mode
            if t[2] == _flag_var(s):
                continue
            if t[2] == "name" or t[2] == "game":
                continue
            bad.append(t)
    if bad:
        chk.violation(rule, f.where(Li.node), "an entry records `%s`, whose value can come from an earlier game or mode (it is not re-established in every iteration): a failing game reports its predecessor's results" % show(bad[0]),
                      expected="defaults None/0 set inside the mode loop", found=show(bad[0]), construct="run_games loop-carried record value %s" % bad[0][2])
    else:
        chk.ok(rule, f.where(Li.node), "no recorded value has a reaching definition from an earlier game or mode (only the result dict and the had-solution flag are carried)")
    # (c) no shared mutable object updated in place by run_games
    mod = f.mod
    mod_names = set(mod.consts)
    hits = []
    local_names = set(f.params)
    for n in walk_no_nested_defs(f.node):
        if isinstance(n, ast.Name) and isinstance(n.ctx, ast.Store):
            local_names.add(n.id)
    cfg = ctx.cfg(f)
    for n in walk_no_nested_defs(f.node):
        base = None
        if isinstance(n, ast.Call) and isinstance(n.func, ast.Attribute) and n.func.attr in shared.MUTATORS:
            base = n.func.value
        elif isinstance(n, ast.Subscript) and isinstance(n.ctx, ast.Store):
            base = n.value
        if base is None:
            continue
        root = base
        while isinstance(root, (ast.Attribute, ast.Subscript)):
            root = root.value
        if isinstance(root, ast.Name):
            if root.id in mod_names and root.id not in local_names:
                hits.append((n, "module-level object `%s`" % root.id))
                continue
            # local alias of a module-level object
            defs = cfg.defs_reaching(n, root.id) if root.id in local_names else set()
            for d in defs:
                if isinstance(d, ast.Assign) and isinstance(d.value, ast.Name) and d.value.id in mod_names and d.value.id not in local_names:
                    hits.append((n, "`%s`, an alias of the module-level object `%s`" % (root.id, d.value.id)))
    if hits:
        n, what = hits[0]
        chk.violation(rule, f.where(n), "`%s` updates %s in place: what one game's run stores is seen by every later game" % (norm_stmt(cfg.stmt_of(n)), what),
                      expected="per-iteration objects only", found=norm_stmt(cfg.stmt_of(n)), construct="run_games shared mutable %s" % what.split("`")[1])
    else:
        chk.ok(rule, f.where(), "run_games updates no module-level object (or alias of one) in place")


def _flag_var(s):
    Li = s.Li
    for v, init in Li.init.items():
        if init == TRUE or (is_const(init) and init[1] is True):
            return v
    return None


def r4_failure_protocol(ctx, chk, rule="C12.4"):
    s = summary(ctx)
    f = s.f
    if not s.ok:
        chk.undecided(rule, f.where(), "loops not recognised")
        return
    Lo, Li = s.Lo, s.Li
    flag = _flag_var(s)
    if flag is None:
        chk.violation(rule, f.where(Lo.node), "no had-solution flag is set to True per game before the mode loop", expected="flag = True inside the game loop, outside the mode loop",
                      found="none", construct="run_games flag missing")
        return
    # flag reset per game: Li.init[flag] == True is assigned in the outer body (not before the outer loop)
    if Lo.init.get(flag, UNBOUND) not in (UNBOUND,) and Lo.update.get(flag) is not None and not mentions(Lo.update[flag], lambda x: x[0] == "res"):
        pass
    assigned_in_outer = any(isinstance(n, ast.Assign) and any(isinstance(t, ast.Name) and t.id == flag for t in n.targets) for n in Lo.node.body)
    if not assigned_in_outer:
        chk.violation(rule, f.where(Lo.node), "the flag `%s` is not re-set for each game: after one failing game every later game is reported 'not solved'" % flag,
                      expected="%s = True at the start of every game" % flag, found="set outside the game loop", construct="run_games flag hoisted")
    else:
        chk.ok(rule, f.where(Lo.node), "`%s = True` is re-established for every game, outside the mode loop" % flag)
    accf = ("truthy", ("acc", Li.id, flag))
    uf = Li.update[flag]
    tries = getattr(s.sx, "tries", {})
    if len(tries) != 1:
        chk.undecided(rule, f.where(), "%d try statements in run_games" % len(tries))
        return
    tid = next(iter(tries))
    raised = ("raised", tid)
    want_flag = simp(("ite", accf, simp(("ite", raised, FALSE, ("acc", Li.id, flag))), ("acc", Li.id, flag)))
    if uf == want_flag:
        chk.ok(rule, f.where(Li.node), "the flag is cleared exactly when the solve of this mode raised")
    else:
        chk.violation(rule, f.where(Li.node), "flag update is `%s`; specification: cleared iff the solve raised" % show(uf)[:140], expected=show(want_flag), found=show(uf)[:160],
                      construct="run_games flag update")
    # solve only under the flag, in the try; message protocol
    msg = Li.update.get("msg")
    if msg is None:
        msgs = [v for v in Li.update if "msg" in v or "message" in v]
        msg = Li.update.get(msgs[0]) if msgs else None
    if msg is None or msg[0] != "ite" or msg[1] != accf:
        chk.violation(rule, f.where(Li.node), "the entry's message is not chosen by the had-solution flag (`%s`)" % (show(msg)[:120] if msg else None), expected="solved/error if flag else 'not solved'",
                      found=show(msg)[:160] if msg else "none", construct="run_games message protocol")
        return
    with_flag, without = msg[2], msg[3]
    ok_msg = with_flag[0] == "ite" and with_flag[1] == raised and any(t == ("exc", tid) for t in C02._sub(with_flag[2])) and is_const(with_flag[3]) and is_const(without)
    if ok_msg and with_flag[3] != without:
        chk.ok(rule, f.where(Li.node), "message: %r if solved, the exception text if the solve raised, %r if the pruned run had failed" % (with_flag[3][1], without[1]))
    else:
        chk.violation(rule, f.where(Li.node), "message protocol `%s` does not embed the exception text / distinguish the three outcomes" % show(msg)[:160], expected="three distinct messages",
                      found=show(msg)[:200], construct="run_games message protocol")
    # solve() is not evaluated when the flag is false: results are defaults then
    for var, u in Li.update.items():
        if any(t[0] == "mcall" and t[2] == "solve" for t in C02._sub(u)) and var not in (s.res_var,):
            if not (u[0] == "ite" and u[1] == accf and not any(t[0] == "mcall" and t[2] == "solve" for t in C02._sub(u[3]))):
                chk.violation(rule, f.where(Li.node), "`%s` takes a value from solve() even when the pruned run had failed" % var, expected="solve() only under the flag", found=show(u)[:140],
                              construct="run_games solve without flag")
                break
    else:
        chk.ok(rule, f.where(Li.node), "solve() is evaluated only while the had-solution flag holds")
    C09.r5_batch_runner(ctx, chk, rule + ":C09.5")


def r5_record(ctx, chk, rec_t, rule="C12.5"):
    s = summary(ctx)
    f = s.f
    if rec_t is None or rec_t[0] != "dict":
        chk.undecided(rule, f.where(), "record term not a dict display")
        return
    Li = s.Li
    tries = getattr(s.sx, "tries", {})
    tid = next(iter(tries)) if tries else None
    rec = {k[1]: v for k, v in rec_t[1] if is_const(k) and isinstance(k[1], str)}
    splats = [v for k, v in rec_t[1] if not (is_const(k) and isinstance(k[1], str))]
    if splats:
        chk.undecided(rule, f.where(Li.node), "the entry is built with a `**` splat of `%s`: its keys are not statically known" % show(splats[0])[:80])
        return
    flag = _flag_var(s)
    accf = ("truthy", ("acc", Li.id, flag)) if flag else None
    for key, slot in SLOT_OF.items():
        if key not in rec:
            chk.violation(rule, f.where(Li.node), "the entry has no key %r" % key, expected=key, found=sorted(rec), construct="run_games record key %s" % key)
            continue
        v = rec[key]
        # v = ite(flag, ite(raised, default, solve()[slot]), default)
        solved = [t for t in C02._sub(v) if t[0] == "idx" and t[1][0] == "mcall" and t[1][2] == "solve"]
        defaults = [t for t in C02._sub(v) if is_const(t)]
        if len(solved) != 1:
            chk.violation(rule, f.where(Li.node), "record[%r] = `%s` does not come from one slot of solve()" % (key, show(v)[:100]), expected="solve()[%d]" % slot, found=show(v)[:140],
                          construct="run_games record %s source" % key)
            continue
        got = solved[0][2]
        if got != C(slot):
            other = [k2 for k2, s2 in SLOT_OF.items() if C(s2) == got]
            chk.violation(rule, f.where(Li.node), "record[%r] is slot %s of solve()'s result (%s), not slot %d: two outputs are exchanged in the report" % (key, show(got), other[0] if other else "?", slot),
                          expected="solve()[%d]" % slot, found="solve()[%s]" % show(got), construct="run_games record %s slot" % key)
            continue
        # defaults when not solved
        want_d = C(DEFAULTS[key])
        shape_ok = v[0] == "ite" and v[1] == accf and v[3] == want_d and v[2][0] == "ite" and v[2][1] == ("raised", tid) and v[2][2] == want_d and v[2][3] == solved[0] \
            and (v[3][1] is DEFAULTS[key] or v[3][1] == DEFAULTS[key] and type(v[3][1]) is type(DEFAULTS[key]))
        if shape_ok:
            chk.ok(rule, f.where(Li.node), "record[%r] = solve()[%d] if solved else %r" % (key, slot, DEFAULTS[key]))
        else:
            chk.violation(rule, f.where(Li.node), "record[%r] = `%s`; specification: solve()[%d] when solved, %r otherwise" % (key, show(v)[:120], slot, DEFAULTS[key]),
                          expected="solve()[%d] / %r" % (slot, DEFAULTS[key]), found=show(v)[:160], construct="run_games record %s default" % key)
    # counts
    game_obj = [t for t in C02._sub(rec_t) if t[0] == "call" and t[1] == "StochasticGame"]
    go = game_obj[0] if game_obj else None
    ns = rec.get("n_states")
    nt = rec.get("n_transitions")
    if go is not None and ns == ("attr", go, "num_states"):
        chk.ok(rule, f.where(Li.node), "record['n_states'] = num_states of this iteration's game object")
    else:
        chk.violation(rule, f.where(Li.node), "record['n_states'] = `%s`" % (show(ns)[:80] if ns else None), expected="sgame.num_states", found=show(ns)[:100] if ns else "missing",
                      construct="run_games record n_states")
    if go is not None and nt == ("mcall", go, "count_transitions", (), ()):
        chk.ok(rule, f.where(Li.node), "record['n_transitions'] = count_transitions() of this iteration's game object")
    else:
        chk.violation(rule, f.where(Li.node), "record['n_transitions'] = `%s`" % (show(nt)[:80] if nt else None), expected="sgame.count_transitions()", found=show(nt)[:100] if nt else "missing",
                      construct="run_games record n_transitions")
    if "msg" not in rec or "total_time" not in rec:
        chk.violation(rule, f.where(Li.node), "entry lacks msg / total_time", expected="msg, total_time", found=sorted(rec), construct="run_games record msg")
    # slots of solve() -> node fields
    solve = ctx.func("tad.py::StochasticGame.solve")
    sxs = SymX(ctx, solve, "StochasticGame", inline_depth=0).run()
    ret = sxs.ret
    if ret[0] != "tup" or len(ret[1]) != 8:
        chk.violation(rule, solve.where(), "solve() returns %s values; the batch runner unpacks 8" % (len(ret[1]) if ret[0] == "tup" else "a non-tuple"), expected=8,
                      found=show(ret)[:80], construct="solve() arity")
        return
    for slot, field in FIELD_OF_SLOT.items():
        t = ret[1][slot]
        okf = False
        if t[0] == "compr":
            L = sxs.loops[t[1]]
            okf = L.elt == ("attr", ("elem", L.id), field) and not L.filters and L.whole
        if okf:
            chk.ok(rule, solve.where(), "solve()[%d] = [state.%s for state in state_list]" % (slot, field))
        else:
            chk.violation(rule, solve.where(), "solve()[%d] is `%s`; the report labels it as the per-state %s" % (slot, show(t)[:100], field), expected="[state.%s ...]" % field,
                          found=show(t)[:120], construct="solve() slot %d field" % slot)
    for slot, (meth, k) in {0: ("solve_total_rewards", 0), 1: ("solve_reachability", 0), 4: ("solve_reachability", 1), 5: ("solve_total_rewards", 1)}.items():
        t = ret[1][slot]
        if t[0] == "idx" and t[2] == C(k) and t[1][0] == "mcall" and t[1][2] == meth:
            chk.ok(rule, solve.where(), "solve()[%d] = %s(...)[%d]" % (slot, meth, k))
        else:
            chk.violation(rule, solve.where(), "solve()[%d] is `%s`, expected %s(...)[%d]" % (slot, show(t)[:100], meth, k), expected="%s()[%d]" % (meth, k), found=show(t)[:120],
                          construct="solve() slot %d source" % slot)


def run(ctx, chk):
    rec = r1_keys(ctx, chk)
    r2_mode_reaches_solver(ctx, chk)
    r3_isolation(ctx, chk, rec)
    r4_failure_protocol(ctx, chk)
    r5_record(ctx, chk, rec)
    shared.rule_input_ownership(ctx, chk, "C12.pre:C10.1")
    from . import C10
    C10.r2_no_carried_state(ctx, chk, "C12.pre:C10.2")
    chk.require_instances("C12.5", 12)
