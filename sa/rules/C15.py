"""C15 - random boards are reproducible, in range and honour their parameters."""
import ast
import itertools

from ..loader import AnalysisError, attr_path, src, walk_no_nested_defs, norm_stmt, call_name
from ..symx import SymX, classify, show, C, TRUE, FALSE, simp, is_const, mk_add, mk_mul, negate
from ..guards import Evaluator, EvalUnsupported
from . import C02, C08

EXPLANATION = (
    "(1) the eight range checks of check_input, summarised symbolically and evaluated on representatives of every "
    "cell of the partition induced by their constants (singly and pairwise, so that a test mixing two parameters is "
    "judged on sign combinations): rejected set = complement of {seed>=0; width,length,max_reward>=1; probabilities in "
    "the open interval (0,1)}, exception class ValueError; parser types and defaults lie in the accepted sets; (2) "
    "check_input dominates board generation, file-name construction and file creation in main(), receives the parsed "
    "values under their own names, and the only open(...,'w') is reached through write_robots after it; (3) "
    "reproducibility: every random draw reachable from gen_rnd_board is dominated by random.seed(seed) with the "
    "parameter, no draw elsewhere, no other entropy source; (4) shape: rewards and loose_tiles are `length` rows of "
    "`width` appends, moves is `length` rows of choices(k=width); (5) value sets: loose flag = 1 if U < p else 0 with a "
    "fresh uniform U (Bernoulli(p), the defining expression of the frequency clause), arrows from [0,1,2] or "
    "[0,1,2,3] plus one forced 3 per row exactly when force_down; (6) reward formula normal form "
    "floor(-log(a + U(1-a)) / log 2) with a = 2^-(max_reward+1): the log argument is a convex combination in [a, 1], so "
    "the reward lies in [0, max_reward] (max_reward+1 only for U == 0.0 exactly, one Mersenne-Twister output in 2^53). "
    "The empirical loose-tile frequency is NOT decided.")
ASSUMPTIONS = ["random.random() returns U in [0,1)", "argparse converts with the declared type= functions"]
TECHNIQUE = "symbolic guard summaries + exact cell evaluation; CFG dominance; expression normal forms (ast)"

INT_PARAMS = {"seed": 0, "width": 1, "length": 1, "max_reward": 1}          # minimum legal value
PROB_PARAMS = ["prob_robot_break", "prob_light_break", "prob_loose_tile", "prob_tile_break"]
GEN = "roberta_generator.py"


def legal(vals):
    for p, lo in INT_PARAMS.items():
        if vals[p] < lo:
            return False
    return all(0 < vals[p] < 1 for p in PROB_PARAMS)


def r1_ranges(ctx, chk, rule="C15.1"):
    f = ctx.func(GEN + "::check_input")
    sx = SymX(ctx, f).run()
    params = list(f.params)
    missing = [p for p in list(INT_PARAMS) + PROB_PARAMS if p not in params]
    if missing:
        chk.violation(rule, f.where(), "check_input no longer receives %s: these parameters are not validated" % missing, expected=sorted(list(INT_PARAMS) + PROB_PARAMS),
                      found=params, construct="check_input parameters")
        return
    cells = {}
    for p, lo in INT_PARAMS.items():
        cells[p] = [lo - 3, lo - 2, lo - 1, lo, lo + 1, lo + 5]
    for p in PROB_PARAMS:
        cells[p] = [-1.5, -1e-9, 0, 1e-9, 0.5, 1 - 1e-9, 1, 1 + 1e-9, 2.5]
    base = {p: INT_PARAMS[p] + 1 for p in INT_PARAMS}
    base.update({p: 0.5 for p in PROB_PARAMS})
    n_eval = n_bad = 0

    def judge(vals, desc):
        nonlocal n_eval, n_bad
        env = {("v", p): v for p, v in vals.items()}
        out = Evaluator(sx, env).run()
        n_eval += 1
        lg = legal(vals)
        if (lg and out[0] == "accept") or (not lg and out[0] == "raise" and out[1] == "ValueError"):
            return
        n_bad += 1
        if n_bad > 5:
            return
        if out[0] == "raise" and not lg:
            chk.violation(rule, f.where(), "check_input raises %s, not ValueError, for %s" % (out[1], desc), expected="ValueError", found=out[1], construct="check_input raises %s" % out[1])
        elif out[0] == "crash":
            chk.violation(rule, f.where(), "check_input crashes with %s for %s" % (out[1], desc), expected="ValueError", found=out[1], construct="check_input crash")
        elif lg:
            chk.violation(rule, f.where(), "check_input REFUSES the documented-legal parameter set %s" % desc, expected="accepted", found="raise", construct="check_input too strict %s" % desc.split("=")[0])
        else:
            chk.violation(rule, f.where(), "check_input ACCEPTS %s, which lies outside the documented range" % desc, expected="ValueError", found="accepted",
                          construct="check_input accepts %s" % desc.split("=")[0].strip())
    try:
        names = list(cells)
        for p in names:
            for v in cells[p]:
                vals = dict(base)
                vals[p] = v
                judge(vals, "%s=%r (others legal)" % (p, v))
        for p, q in itertools.combinations(names, 2):
            for v in cells[p]:
                for w in cells[q]:
                    vals = dict(base)
                    vals[p], vals[q] = v, w
                    judge(vals, "%s=%r, %s=%r (others legal)" % (p, v, q, w))
    except EvalUnsupported as e:
        chk.undecided(rule, f.where(), "range checks outside the decidable fragment: %s" % e)
        return
    chk.extra["check_input_witnesses"] = n_eval
    if not n_bad:
        chk.ok(rule, f.where(), "check_input: %d cell representatives (each parameter at lo-1, lo, lo+1 / 0-eps, 0, eps, 1-eps, 1, 1+eps, singly and pairwise): "
               "refused with ValueError iff outside seed>=0, width/length/max_reward>=1, probabilities in (0,1)" % n_eval)
    # parser table: types and defaults
    g = ctx.func(GEN + "::init_parser")
    want_type = {p: "int" for p in INT_PARAMS}
    want_type.update({p: "float" for p in PROB_PARAMS})
    seen = {}
    for c in walk_no_nested_defs(g.node):
        if isinstance(c, ast.Call) and isinstance(c.func, ast.Attribute) and c.func.attr == "add_argument":
            dest = None
            for a in c.args:
                if isinstance(a, ast.Constant) and isinstance(a.value, str) and a.value.startswith("--"):
                    dest = a.value[2:]
            kw = {k.arg: k.value for k in c.keywords}
            if dest in want_type:
                seen[dest] = kw
                ty = src(kw["type"]) if "type" in kw else None
                ok, dv = ctx.prog.try_const(kw["default"], g.mod) if "default" in kw else (False, None)
                if ty != want_type[dest]:
                    chk.violation(rule, g.where(c), "--%s is parsed with type=%s; the range check and the generator need %s" % (dest, ty, want_type[dest]), expected=want_type[dest],
                                  found=ty, construct="init_parser type of %s" % dest)
                elif not ok:
                    chk.undecided(rule, g.where(c), "--%s has no constant default" % dest)
                else:
                    vals = dict(base)
                    vals[dest] = dv
                    if legal(vals):
                        chk.ok(rule, g.where(c), "--%s: type=%s, default %r lies in the accepted set" % (dest, ty, dv))
                    else:
                        chk.violation(rule, g.where(c), "--%s default %r is outside the accepted range: the tool refuses to run without arguments" % (dest, dv), expected="legal default",
                                      found=repr(dv), construct="init_parser default of %s" % dest)
    for p in want_type:
        if p not in seen:
            chk.violation(rule, g.where(), "no parser option --%s" % p, expected="--" + p, found="missing", construct="init_parser option %s" % p)


def r2_order(ctx, chk, rule="C15.2"):
    f = ctx.func(GEN + "::main")
    cfg = ctx.cfg(f)
    ci = C02.calls_of(f, "check_input")
    if len(ci) != 1 or not cfg.on_every_normal_path(ci[0]):
        chk.violation(rule, f.where(), "check_input is not called exactly once on every path through main()", expected="unconditional call", found="%d call(s)" % len(ci),
                      construct="main check_input call")
        return
    for m in ("gen_rnd_board", "write_robots"):
        cs = C02.calls_of(f, m)
        for c in cs:
            if cfg.dominates(ci[0], c) and cfg.stmt_of(ci[0]) is not cfg.stmt_of(c):
                chk.ok(rule, f.where(c), "check_input dominates %s" % m)
            else:
                chk.violation(rule, f.where(c), "%s can run before the parameters are validated: with refused parameters something is generated / written anyway" % m,
                              expected="check_input first", found="line %d before line %d" % (c.lineno, ci[0].lineno), construct="main %s before check_input" % m)
        if not cs:
            chk.undecided(rule, f.where(), "no call of %s in main" % m)
    # any other file creation in main before check_input
    for c in walk_no_nested_defs(f.node):
        if isinstance(c, ast.Call) and call_name(c) in ("open", "os.makedirs", "os.mkdir") and not cfg.dominates(ci[0], c):
            chk.violation(rule, f.where(c), "`%s` runs before check_input" % src(c), expected="nothing written before validation", found=norm_stmt(cfg.stmt_of(c)),
                          construct="main writes before check_input")
    # parsed values flow under their own names: local p = parsed_args.p, check_input(p...) in parameter order
    sx = SymX(ctx, f, inline_depth=0).run()
    g = ctx.func(GEN + "::check_input")
    call_t = [e for e in sx.final.effects if e[1] == "call" and e[2][0] == "call" and e[2][1] == "check_input"]
    if not call_t:
        chk.undecided(rule, f.where(), "check_input call not recognised symbolically")
    else:
        args = call_t[0][2][2]
        kws = dict(call_t[0][2][3])
        bad = []
        for i, p in enumerate(g.params):
            a = args[i] if i < len(args) else kws.get(p)
            if not (a is not None and a[0] == "attr" and a[2] == p):
                bad.append((p, show(a) if a is not None else None))
        if bad:
            chk.violation(rule, f.where(), "check_input receives %s" % ", ".join("%s := %s" % b for b in bad), expected="each parameter := the parsed argument of the same name",
                          found=str(bad), construct="main check_input arguments")
        else:
            chk.ok(rule, f.where(), "check_input(%s) receives the parsed argument of the same name in every position" % ", ".join(g.params))
    # the values that are generated with are the validated ones
    gb = [t for v in sx.final.env.values() for t in C02._sub(v) if t[0] == "call" and t[1] == "gen_rnd_board"]
    gb += [t for e in sx.final.effects for t in C02._sub(e) if t[0] == "call" and t[1] == "gen_rnd_board"]
    h = ctx.func(GEN + "::gen_rnd_board")
    if gb:
        a = gb[0][2]
        bad = [(p, show(a[i])) for i, p in enumerate(h.params) if i < len(a) and not (a[i][0] == "attr" and a[i][2] == p)]
        if bad:
            chk.violation(rule, f.where(), "gen_rnd_board receives %s" % bad, expected="the parsed argument of the same name", found=str(bad), construct="main gen_rnd_board arguments")
        else:
            chk.ok(rule, f.where(), "gen_rnd_board(%s) receives the validated values under their own names" % ", ".join(h.params[:len(a)]))
    # open(..., 'w') only in write_robots
    writers = []
    for fn in ctx.prog.all_funcs((GEN, "stochastic_game_from_roborta_board.py")):
        for c in walk_no_nested_defs(fn.node):
            if isinstance(c, ast.Call) and call_name(c) == "open":
                mode = c.args[1] if len(c.args) > 1 else next((k.value for k in c.keywords if k.arg == "mode"), None)
                if mode is not None and isinstance(mode, ast.Constant) and any(ch in str(mode.value) for ch in "wax+"):
                    writers.append(fn)
    if {w.name for w in writers} <= {"write_robots"}:
        chk.ok(rule, GEN, "the only file creation in the generator modules is open(file_name, 'w') in write_robots")
    else:
        for w in writers:
            if w.name != "write_robots":
                chk.violation(rule, w.where(), "%s creates a file outside write_robots" % w.short, expected="only write_robots writes", found=w.short, construct="%s writes a file" % w.short)


RANDOM_DRAWS = {"random.random", "random.choices", "random.randrange", "random.randint", "random.choice", "random.uniform", "random.shuffle",
                "random.sample", "random.gauss", "random.getrandbits", "random.betavariate", "random.expovariate", "random.triangular"}


def r3_reproducible(ctx, chk, rule="C15.3"):
    f = ctx.func(GEN + "::gen_rnd_board")
    cfg = ctx.cfg(f)
    seeds = [c for c in walk_no_nested_defs(f.node) if isinstance(c, ast.Call) and call_name(c) == "random.seed"]
    if len(seeds) != 1:
        chk.violation(rule, f.where(), "%d random.seed calls in gen_rnd_board" % len(seeds), expected="exactly one random.seed(seed)", found=len(seeds), construct="gen_rnd_board seed calls")
        return
    s = seeds[0]
    if not (len(s.args) == 1 and isinstance(s.args[0], ast.Name) and s.args[0].id == f.params[0] and f.params[0] == "seed"):
        chk.violation(rule, f.where(s), "the generator is seeded with `%s`, not with the seed parameter: the same parameters do not give the same board" % (src(s.args[0]) if s.args else "system entropy"),
                      expected="random.seed(seed)", found=src(s), construct="gen_rnd_board seed argument")
        return
    if not cfg.on_every_normal_path(s):
        chk.violation(rule, f.where(s), "random.seed(seed) is conditional", expected="unconditional", found=norm_stmt(cfg.stmt_of(s)), construct="gen_rnd_board conditional seed")
        return
    scope = ctx.cg.reachable([f])
    n = 0
    for g in scope:
        for c in walk_no_nested_defs(g.node):
            if isinstance(c, ast.Call) and call_name(c) in RANDOM_DRAWS:
                n += 1
                if g is f:
                    ok = cfg.dominates(s, c) and cfg.stmt_of(s) is not cfg.stmt_of(c)
                else:
                    sites = [call for call, cs in ctx.cg.call_sites(f) if g in ctx.cg.reachable(cs)]
                    ok = bool(sites) and all(cfg.dominates(s, call) for call in sites)
                if ok:
                    chk.ok(rule, g.where(c), "draw `%s` is dominated by random.seed(seed)" % src(c)[:60])
                else:
                    chk.violation(rule, g.where(c), "draw `%s` can happen before random.seed(seed): the board depends on the generator's previous state" % src(c)[:60],
                                  expected="seed before every draw", found=norm_stmt(ctx.cfg(g).stmt_of(c)), construct="%s draw before seed" % g.short)
    if n < 4:
        chk.undecided(rule, f.where(), "only %d random draws found" % n)
    # no draw / entropy elsewhere in the generator modules
    for g in ctx.prog.all_funcs((GEN, "stochastic_game_from_roborta_board.py")):
        if g in scope:
            continue
        for c in walk_no_nested_defs(g.node):
            if isinstance(c, ast.Call) and (call_name(c).startswith("random.") or call_name(c) in ("time.time", "os.urandom", "uuid.uuid4", "secrets.token_bytes")):
                chk.violation(rule, g.where(c), "`%s` outside the seeded board construction" % src(c), expected="all randomness inside gen_rnd_board after seeding", found=src(c),
                              construct="%s unseeded entropy" % g.short)
    m = ctx.prog.mod(GEN)
    bad_imports = [v[0] for v in m.imports.values() if v[0].split(".")[0] in ("time", "os", "uuid", "secrets", "datetime")]
    if bad_imports:
        chk.violation(rule, GEN, "generator imports %s" % bad_imports, expected="random, math, argparse", found=bad_imports, construct="generator entropy import")
    for c in ast.walk(m.tree):
        if isinstance(c, ast.Call) and call_name(c) in ("random.SystemRandom", "random.Random"):
            chk.violation(rule, GEN, "`%s`: a separate generator is not covered by random.seed(seed)" % src(c), expected="module-level generator", found=src(c), construct="generator separate Random")


def r45_shape_values(ctx, chk, rule4="C15.4", rule5="C15.5", rule6="C15.6"):
    f = ctx.func(GEN + "::gen_rnd_board")
    sx = SymX(ctx, f, inline_depth=0).run()
    length, width = ("v", "length"), ("v", "width")
    outer = [l for l in sx.loops.values() if l.kind == "for" and l.source == ("call", "range", (length,), ())]
    if len(outer) != 1:
        chk.violation(rule4, f.where(), "no single `for i in range(length)` loop in gen_rnd_board (loops: %s)" % [show(l.source) for l in sx.loops.values()],
                      expected="range(length) rows", found=[show(l.source) for l in sx.loops.values()], construct="gen_rnd_board row loop")
        return
    Lo = outer[0]
    inner = [sx.loops[i] for i in Lo.inner if sx.loops[i].kind == "for"]
    if len(inner) != 1 or inner[0].source != ("call", "range", (width,), ()):
        chk.violation(rule4, f.where(Lo.node), "rows are not filled by a single `for _ in range(width)` loop (inner sources: %s)" % [show(l.source) for l in inner],
                      expected="range(width) columns", found=[show(l.source) for l in inner], construct="gen_rnd_board column loop")
        return
    Li = inner[0]
    if Lo.has_break or Li.has_break or Lo.cont != FALSE or Li.cont != FALSE:
        chk.violation(rule4, f.where(Lo.node), "a board loop exits early", expected="full rows and columns", found="break/continue", construct="gen_rnd_board early exit")
        return
    i = ("elem", Lo.id)
    rows = {}
    for v, u in Lo.update.items():
        if Lo.init.get(v) == ("list", ()):
            rows[v] = u
    # per-row: X.append([]) then per-column X[i].append(value)
    cells = {}
    for e in Li.effects:
        if e[1] == "call" and e[2][0] == "mcall" and e[2][2] == "append" and e[2][1][0] == "idx" and e[2][1][2] == i:
            base = e[2][1][1]
            accs = [t for t in C02._sub(base) if t[0] in ("acc", "res") and t[1] == Lo.id]
            name = accs[0][2] if accs else show(base)
            cells.setdefault(name, []).append((e[0], e[2][3][0]))
    for tbl in ("rewards", "loose_tiles"):
        if tbl not in cells or len(cells[tbl]) != 1 or cells[tbl][0][0] != TRUE:
            chk.violation(rule4, f.where(Li.node), "`%s` does not get exactly one unconditional append per column (%s)" % (tbl, [(show(c), show(v)[:40]) for c, v in cells.get(tbl, [])]),
                          expected="%s[i].append(value) once per column" % tbl, found=str(len(cells.get(tbl, []))), construct="gen_rnd_board %s shape" % tbl)
        else:
            chk.ok(rule4, f.where(Li.node), "%s: `length` rows x `width` unconditional appends" % tbl)
    U = ("call", "random.random", (), ())
    # loose flag
    if "loose_tiles" in cells:
        val = cells["loose_tiles"][0][1]
        p = ("v", [q for q in f.params if "loose" in q][0])
        want = simp(("ite", simp(("cmp", "<", U, p)), C(1), C(0)))
        if val == want:
            chk.ok(rule5, f.where(Li.node), "loose flag = 1 if random.random() < %s else 0 (Bernoulli(%s); values in {0,1})" % (p[1], p[1]))
        else:
            chk.violation(rule5, f.where(Li.node), "loose flag is `%s`; specification: 1 if U < %s else 0 with a fresh uniform U" % (show(val), p[1]), expected=show(want), found=show(val),
                          construct="gen_rnd_board loose flag")
    # reward formula
    if "rewards" in cells:
        val = cells["rewards"][0][1]
        m = ("v", "max_reward")
        verdict = reward_formula(val, U, m)
        if verdict is True:
            chk.ok(rule6, f.where(Li.node), "reward = floor(-log(a + U*(1-a)) / log 2), a = 2^-(max_reward+1): argument in [a,1] => reward in [0, max_reward] (max_reward+1 only for U == 0.0)")
        elif verdict is None:
            chk.undecided(rule6, f.where(Li.node), "reward expression `%s` not recognised" % show(val)[:200])
        else:
            chk.violation(rule6, f.where(Li.node), "reward expression: %s" % verdict, expected="floor(-log(a + U*(1-a))/log(2)) with a = 2^-(max_reward+1)", found=show(val)[:200],
                          construct="gen_rnd_board reward formula")
    # moves
    g = ctx.func(GEN + "::get_random_moves")
    sg = SymX(ctx, g, inline_depth=0).run()
    ml = [l for l in sg.loops.values() if l.kind == "for"]
    mv = [e for e in sx.final.env.items() if e[0] == "moves"]
    ret = sx.ret
    called = ret[0] == "tup" and ret[1] and ret[1][0] == ("call", "get_random_moves", (length, width, ("v", "force_down")), ())
    if not called:
        chk.violation(rule4, f.where(), "gen_rnd_board does not return get_random_moves(length, width, force_down) as the arrows (returns `%s`)" % show(ret[1][0] if ret[0] == "tup" else ret)[:80],
                      expected="get_random_moves(length, width, force_down)", found=show(ret)[:120], construct="gen_rnd_board moves")
    if len(ml) != 1 or ml[0].source != ("call", "range", (("v", g.params[0]),), ()):
        chk.violation(rule4, g.where(), "get_random_moves does not build one row per `range(length)`", expected="for i in range(length)", found=[show(l.source) for l in ml],
                      construct="get_random_moves rows")
        return
    L = ml[0]
    var = [v for v in L.update if L.init.get(v) == ("list", ())]
    if len(var) != 1:
        chk.undecided(rule4, g.where(), "moves accumulator not identified")
        return
    u = L.update[var[0]]
    acc = ("acc", L.id, var[0])
    fd = ("truthy", ("v", g.params[2]))
    w = ("v", g.params[1])

    def choices(pop):
        return lambda t: t[0] == "call" and t[1] == "random.choices" and t[2] and t[2][0] == ("list", tuple(C(x) for x in pop)) and dict(t[3]).get("k") == w
    if u[0] == "ite" and u[1] == fd:
        forced, free = u[2], u[3]
        ok_free = free[0] == "cat" and free[1] == acc and free[2][0] == "list" and len(free[2][1]) == 1 and choices([0, 1, 2])(free[2][1][0])
        # forced: acc ++ [choices([0,1,2,3])] with one element set to 3 at randrange(0, width)
        ok_forced = False
        if forced[0] == "setitem":
            pass
        row_sets = [e for e in L.effects if e[1] == "setitem"]
        forced_rows = [t for t in C02._sub(forced) if choices([0, 1, 2, 3])(t)]
        rr = ("call", "random.randrange", (C(0), w), ())
        rr2 = ("call", "random.randrange", (w,), ())
        sets3 = [e for e in row_sets if e[0] == fd and e[4] == C(3) and e[3] in (rr, rr2) and e[2][0] == "idx" and e[2][2] == ("elem", L.id)]
        if forced_rows and len(sets3) == 1:
            ok_forced = True
        if ok_free:
            chk.ok(rule5, g.where(L.node), "without force_down every row is random.choices([0, 1, 2], k=width): no down-only tile")
        else:
            chk.violation(rule5, g.where(L.node), "without force_down a row is `%s`" % show(free)[:120], expected="choices([0,1,2], k=width)", found=show(free)[:160],
                          construct="get_random_moves free population")
        if ok_forced:
            chk.ok(rule5, g.where(L.node), "with force_down every row is random.choices([0, 1, 2, 3], k=width) and moves[i][randrange(0, width)] = 3: at least one down-only tile per row")
        else:
            chk.violation(rule5, g.where(L.node), "with force_down a row is not `choices([0,1,2,3], k=width)` with one position in range(width) forced to 3 (row sets: %s)" % [
                (show(e[3]), show(e[4])) for e in row_sets], expected="one forced 3 per row", found=show(forced)[:160], construct="get_random_moves forced population")
    else:
        chk.undecided(rule5, g.where(L.node), "row construction `%s` is not a branch on force_down" % show(u)[:120])


def reward_formula(val, U, m):
    """True / None / text."""
    if not (val[0] == "call" and val[1] in ("math.floor", "int") and len(val[2]) == 1):
        return None
    x = val[2][0]
    if not (x[0] == "div" and x[2] in (("call", "math.log", (C(2.0),), ()), ("call", "math.log", (C(2),), ()))):
        if x[0] == "neg" and x[1][0] == "call" and x[1][1] == "math.log2":
            arg = x[1][2][0]
        else:
            return None
    else:
        num = x[1]
        if not (num[0] == "neg" and num[1][0] == "call" and num[1][1] == "math.log" and len(num[1][2]) == 1):
            return None
        arg = num[1][2][0]
    a_forms = (("div", C(1.0), ("pow", C(2.0), mk_add(m, C(1)))), ("pow", C(2.0), negate(mk_add(m, C(1)))), ("div", C(1), ("pow", C(2), mk_add(m, C(1)))))
    for a in a_forms:
        want = mk_add(a, mk_mul(U, mk_add(C(1.0), negate(a))))
        want2 = mk_add(a, mk_mul(U, mk_add(C(1), negate(a))))
        if arg in (want, want2):
            if a[0] == "div":
                return ("the offset is computed as 1/2**(max_reward+1): the power overflows (OverflowError) for max_reward >= 1023, "
                        "a value check_input accepts - use 2.0**-(max_reward+1), which underflows to 0.0 instead")
            return True
        if arg == mk_add(a, U):
            return "the uniform draw is not scaled by (1 - a): the log argument ranges over [a, 1+a) and exceeds 1, so the reward can be -1"
        if arg == mk_mul(U, mk_add(C(1.0), negate(a))) or arg == U:
            return "the offset a is missing: the log argument can be 0 (math domain error) or arbitrarily small (reward above max_reward)"
    if any(t == U for t in C02._sub(arg)):
        return "the log argument `%s` is not the convex combination a + U*(1-a) with a = 2^-(max_reward+1)" % show(arg)
    return None


def run(ctx, chk):
    r1_ranges(ctx, chk)
    r2_order(ctx, chk)
    r3_reproducible(ctx, chk)
    r45_shape_values(ctx, chk)
    C08.argument_swap_rule(ctx, chk, "C15.2:swap")
    chk.require_instances("C15.1", 9)
    chk.require_instances("C15.3", 4)
