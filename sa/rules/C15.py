"""C15 - random boards are reproducible, in range and honour their parameters."""
import ast
import itertools

from ..loader import AnalysisError, attr_path, src, walk_no_nested_defs, norm_stmt, call_name
from ..symx import SymX, classify, show, C, TRUE, FALSE, simp, is_const, mk_add, mk_mul, negate, mentions
from ..guards import Evaluator, EvalUnsupported
from . import C02, C08, shared
from ..pointsto import MUTATORS as _MUTATORS

EXPLANATION = (
    "(1) the eight range checks of check_input, summarised symbolically and evaluated on representatives of every "
    "cell of the partition induced by their constants (singly and pairwise, so that a test mixing two parameters is "
    "judged on sign combinations): rejected set = complement of {seed>=0; width,length,max_reward>=1; probabilities in "
    "the open interval (0,1)}, exception class ValueError; parser types and defaults lie in the accepted sets; (2) "
    "check_input dominates board generation, file-name construction and file creation in main(), receives the parsed "
    "values under their own names, and the only open(...,'w') is reached through write_robots after it; (3) "
    "reproducibility: every random draw reachable from gen_rnd_board is dominated by random.seed(seed) with the "
    "parameter, no draw elsewhere, no other entropy source; (4) shape: rewards and loose_tiles are `length` rows of "
    "`width` appends, moves is `length` rows of choices(k=width); (5) value sets: loose flag = 1 if U < p else 0 with a "
    "fresh uniform U (Bernoulli(p), the defining expression of the frequency clause), arrows from [0,1,2] or "
    "[0,1,2,3] plus one forced 3 per row exactly when force_down; (6) reward formula normal form "
    "floor(-log(a + U(1-a)) / log 2) with a = 2^-(max_reward+1): the log argument is a convex combination in [a, 1], so "
    "the reward lies in [0, max_reward] (max_reward+1 only for U == 0.0 exactly, one Mersenne-Twister output in 2^53). "
    "The empirical loose-tile frequency is NOT decided."
    ' Also: no function of the generator changes a mutable default argument (0:defaults).'
    ' No one-shot iterator is consumed by two checks (0:iter).')
ASSUMPTIONS = ["random.random() returns U in [0,1)", "argparse converts with the declared type= functions"]
TECHNIQUE = "symbolic guard summaries + exact cell evaluation; CFG dominance; expression normal forms (ast)"

INT_PARAMS = {"seed": 0, "width": 1, "length": 1, "max_reward": 1}          # minimum legal value
PROB_PARAMS = ["prob_robot_break", "prob_light_break", "prob_loose_tile", "prob_tile_break"]
GEN = "roberta_generator.py"


def legal(vals):
    for p, lo in INT_PARAMS.items():
        if vals[p] < lo:
            return False
    return all(0 < vals[p] < 1 for p in PROB_PARAMS)


def r1_ranges(ctx, chk, rule="C15.1"):
    f = ctx.func(GEN + "::check_input")
    sx = SymX(ctx, f).run()
    params = list(f.params)
    missing = [p for p in list(INT_PARAMS) + PROB_PARAMS if p not in params]
    if missing and len(params) >= len(INT_PARAMS) + len(PROB_PARAMS):
        chk.undecided(rule, f.where(), "check_input takes %s: the documented parameter names %s are not among them (renamed?), the range table cannot be matched" % (params, missing))
        return
    if missing:
        chk.violation(rule, f.where(), "check_input no longer receives %s: these parameters are not validated" % missing, expected=sorted(list(INT_PARAMS) + PROB_PARAMS),
                      found=params, construct="check_input parameters")
        return
    cells = {}
    for p, lo in INT_PARAMS.items():
        cells[p] = [lo - 3, lo - 2, lo - 1, lo, lo + 1, lo + 5]
    for p in PROB_PARAMS:
        cells[p] = [-1.5, -1e-9, 0, 1e-9, 0.5, 1 - 1e-9, 1, 1 + 1e-9, 2.5]
    base = {p: INT_PARAMS[p] + 1 for p in INT_PARAMS}
    base.update({p: 0.5 for p in PROB_PARAMS})
    n_eval = n_bad = 0

    def judge(vals, desc):
        nonlocal n_eval, n_bad
        env = {("v", p): v for p, v in vals.items()}
        out = Evaluator(sx, env).run()
        n_eval += 1
        lg = legal(vals)
        if (lg and out[0] == "accept") or (not lg and out[0] == "raise" and out[1] == "ValueError"):
            return
        n_bad += 1
        if n_bad > 5:
            return
        if out[0] == "raise" and not lg:
            chk.violation(rule, f.where(), "check_input raises %s, not ValueError, for %s" % (out[1], desc), expected="ValueError", found=out[1], construct="check_input raises %s" % out[1])
        elif out[0] == "crash":
            chk.violation(rule, f.where(), "check_input crashes with %s for %s" % (out[1], desc), expected="ValueError", found=out[1], construct="check_input crash")
        elif lg:
            chk.violation(rule, f.where(), "check_input REFUSES the documented-legal parameter set %s" % desc, expected="accepted", found="raise", construct="check_input too strict %s" % desc.split("=")[0])
        else:
            chk.violation(rule, f.where(), "check_input ACCEPTS %s, which lies outside the documented range" % desc, expected="ValueError", found="accepted",
                          construct="check_input accepts %s" % desc.split("=")[0].strip())
    try:
        names = list(cells)
        for p in names:
            for v in cells[p]:
                vals = dict(base)
                vals[p] = v
                judge(vals, "%s=%r (others legal)" % (p, v))
        for p, q in itertools.combinations(names, 2):
            for v in cells[p]:
                for w in cells[q]:
                    vals = dict(base)
                    vals[p], vals[q] = v, w
                    judge(vals, "%s=%r, %s=%r (others legal)" % (p, v, q, w))
    except EvalUnsupported as e:
        chk.undecided(rule, f.where(), "range checks outside the decidable fragment: %s" % e)
        return
    chk.extra["check_input_witnesses"] = n_eval
    if not n_bad:
        chk.ok(rule, f.where(), "check_input: %d cell representatives (each parameter at lo-1, lo, lo+1 / 0-eps, 0, eps, 1-eps, 1, 1+eps, singly and pairwise): "
               "refused with ValueError iff outside seed>=0, width/length/max_reward>=1, probabilities in (0,1)" % n_eval)
    # parser table: types and defaults
    g = ctx.func(GEN + "::init_parser")
    want_type = {p: "int" for p in INT_PARAMS}
    want_type.update({p: "float" for p in PROB_PARAMS})
    seen = {}
    for c in walk_no_nested_defs(g.node):
        if isinstance(c, ast.Call) and isinstance(c.func, ast.Attribute) and c.func.attr == "add_argument":
            dest = None
            for a in c.args:
                if isinstance(a, ast.Constant) and isinstance(a.value, str) and a.value.startswith("--"):
                    dest = a.value[2:]
            kw = {k.arg: k.value for k in c.keywords}
            if dest in want_type:
                seen[dest] = kw
                ty = src(kw["type"]) if "type" in kw else None
                ok, dv = ctx.prog.try_const(kw["default"], g.mod) if "default" in kw else (False, None)
                if ty != want_type[dest]:
                    chk.violation(rule, g.where(c), "--%s is parsed with type=%s; the range check and the generator need %s" % (dest, ty, want_type[dest]), expected=want_type[dest],
                                  found=ty, construct="init_parser type of %s" % dest)
                elif not ok or not isinstance(dv, (int, float)) or isinstance(dv, bool):
                    chk.undecided(rule, g.where(c), "--%s has no numeric constant default (%r): the value that reaches check_input is decided elsewhere" % (dest, dv if ok else "?"))
                else:
                    vals = dict(base)
                    vals[dest] = dv
                    if legal(vals):
                        chk.ok(rule, g.where(c), "--%s: type=%s, default %r lies in the accepted set" % (dest, ty, dv))
                    else:
                        chk.violation(rule, g.where(c), "--%s default %r is outside the accepted range: the tool refuses to run without arguments" % (dest, dv), expected="legal default",
                                      found=repr(dv), construct="init_parser default of %s" % dest)
    for p in want_type:
        if p not in seen:
            chk.violation(rule, g.where(), "no parser option --%s" % p, expected="--" + p, found="missing", construct="init_parser option %s" % p)


def _falsy_replaced(ctx, f, term):
    """The value handed to check_input went through `given or fallback` (or `given if given else fallback`): a given 0 / 0.0 never
    reaches the validation - a width of 0 is silently replaced instead of refused, seed 0 becomes another seed.  Returns the
    offending expression, or None.  Recognised: the boolean form directly in main, or in a helper of the generator module that
    the value is computed by, with the command-line namespace (the helper's parameter) as the first operand."""
    if any(t[0] == "boolval" and t[1] == "or" for t in C02._sub(term)):
        return "`or` replaces a given 0 before it is validated"
    for t in C02._sub(term):
        if t[0] != "call" or not isinstance(t[1], str):
            continue
        for h in ctx.prog.all_funcs((GEN,)):
            if h.name != t[1].split(".")[-1] or h.cls:
                continue
            tainted = set(h.params)
            changed = True
            while changed:
                changed = False
                for x in walk_no_nested_defs(h.node):
                    if isinstance(x, ast.Assign) and len(x.targets) == 1 and isinstance(x.targets[0], ast.Name) and x.targets[0].id not in tainted \
                            and isinstance(x.value, (ast.Attribute, ast.Call, ast.Subscript)) and _from_namespace(x.value, tainted):
                        tainted.add(x.targets[0].id)
                        changed = True
            for x in walk_no_nested_defs(h.node):
                first = None
                if isinstance(x, ast.BoolOp) and isinstance(x.op, ast.Or):
                    first = x.values[0]
                elif isinstance(x, ast.IfExp) and ast.dump(x.test) == ast.dump(x.body):
                    first = x.body
                if first is None or isinstance(getattr(x, "parent", None), (ast.If, ast.While, ast.BoolOp, ast.UnaryOp)) and getattr(x.parent, "test", x.parent) is x:
                    continue
                if (isinstance(first, ast.Name) and first.id in tainted - set(h.params)) or (not isinstance(first, ast.Name) and _from_namespace(first, tainted)):
                    return "%s line %d: `%s` replaces a given 0 before it is validated" % (h.short, x.lineno, src(x))
    return None


def _from_namespace(e, tainted):
    """e reads one value out of a tainted namespace: ns.attr, getattr(ns, name), vars(ns)[name], ns[name], ns.get(name)"""
    if isinstance(e, ast.Attribute):
        return isinstance(e.value, ast.Name) and e.value.id in tainted
    if isinstance(e, ast.Subscript):
        v = e.value
        if isinstance(v, ast.Call) and call_name(v) == "vars" and v.args:
            v = v.args[0]
        return isinstance(v, ast.Name) and v.id in tainted
    if isinstance(e, ast.Call):
        if call_name(e) == "getattr" and e.args and isinstance(e.args[0], ast.Name) and e.args[0].id in tainted:
            return True
        if isinstance(e.func, ast.Attribute) and e.func.attr == "get" and isinstance(e.func.value, ast.Name) and e.func.value.id in tainted:
            return True
    return False


def parse_args_source(ctx, chk, rule, qual=None):
    """The parameters are those of *this* invocation: `parse_args()` reads sys.argv when called, `parse_args(argv)` reads what the
    caller passes; a parameter default such as `argv=sys.argv[1:]` is evaluated once, when the module is imported - a later call of
    main() without arguments then parses the command line of that moment, whatever sys.argv holds now."""
    f = ctx.func(qual or (GEN + "::main"))
    calls = [c for c in walk_no_nested_defs(f.node) if isinstance(c, ast.Call) and isinstance(c.func, ast.Attribute) and c.func.attr in ("parse_args", "parse_known_args")]
    if not calls:
        chk.undecided(rule, f.where(), "no parse_args call in %s" % f.short)
        return
    for c in calls:
        a = c.args[0] if c.args else next((k.value for k in c.keywords if k.arg == "args"), None)
        if a is None or (isinstance(a, ast.Constant) and a.value is None):
            chk.ok(rule, f.where(c), "`%s` reads the command line of the running process at the time of the call" % src(c))
        elif isinstance(a, ast.Name) and a.id in f.params:
            d = f.defaults.get(a.id)
            if d is None or (isinstance(d, ast.Constant) and d.value is None):
                chk.ok(rule, f.where(c), "`%s`: the arguments are handed in by the caller (default None = the process's command line at call time)" % src(c))
            elif isinstance(d, ast.Constant) or (isinstance(d, (ast.Tuple, ast.List)) and all(isinstance(x, ast.Constant) for x in d.elts)):
                chk.undecided(rule, f.where(c), "`%s`: the default of `%s` is the fixed list `%s`" % (src(c), a.id, src(d)))
            else:
                chk.violation(rule, f.where(), "the default `%s=%s` of %s is evaluated once, when the module is imported: a later call %s() parses the command line of that moment, "
                              "not the current one - every such call generates the same board under the same name, whatever parameters are given" % (a.id, src(d), f.short, f.short),
                              expected="%s=None (resolved at call time)" % a.id, found="%s=%s" % (a.id, src(d)), construct="%s default arguments frozen at import" % f.short)
        else:
            chk.undecided(rule, f.where(c), "`%s`: where the parsed arguments come from is not recognised" % src(c))


def _opens_for_writing(c):
    if not (isinstance(c, ast.Call) and call_name(c) == "open"):
        return False
    mode = c.args[1] if len(c.args) > 1 else next((kw.value for kw in c.keywords if kw.arg == "mode"), None)
    if mode is None:
        return False                    # open(path): reading
    if isinstance(mode, ast.Constant) and isinstance(mode.value, str):
        return any(ch in mode.value for ch in "wax+")
    return True                         # a computed mode: may write


def r2_order(ctx, chk, rule="C15.2"):
    shared.on_both_views(ctx, chk, GEN + "::main", lambda rec, f: _r2_order(ctx, rec, rule, f))


def _r2_order(ctx, chk, rule, f):
    cfg = ctx.cfg(f)
    # the program with every command-line option live (the view above reads options outside the documented interface at their
    # defaults): no option may open a way around the validation
    raw = ctx.prog.pipeline_view(GEN + "::main", all_options=True) if ctx.prog.has_func(GEN + "::main") else None
    if raw is not None and raw.node is not f.node:
        rci = C02.calls_of(raw, "check_input")
        if len(rci) == 1 and not ctx.cfg(raw).on_every_normal_path(rci[0]):
            chk.violation(rule, raw.where(rci[0]), "check_input is not called on every path through main(): some combination of options returns / goes on without validating the parameters",
                          expected="unconditional call", found="a path around `%s`" % norm_stmt(ctx.cfg(raw).stmt_of(rci[0]))[:80], construct="main check_input call")
            return
    ci = C02.calls_of(f, "check_input")
    if not ci:
        # the validation may be reached through a helper / a method of a parameter record (`options.check()`): the one call of
        # main() that leads to check_input stands for it
        target = ctx.prog.funcs.get(GEN + "::check_input")
        proxies = [call for call, callees in ctx.cg.call_sites(f) if target is not None and any(target in ctx.cg.reachable([h_]) for h_ in callees)]
        dyn = [call for call, callees in ctx.cg.call_sites(f) if not callees and isinstance(call.func, ast.Attribute) and isinstance(call.func.value, ast.Name)
               and any(call.func.attr in c_.methods and target in ctx.cg.reachable([c_.methods[call.func.attr]]) for c_ in ctx.prog.classes.values())]
        proxies = proxies or dyn
        if len(proxies) == 1:
            ci = proxies
        elif proxies:
            chk.undecided(rule, f.where(), "check_input is reached through %d calls of main(): which one validates is not resolved" % len(proxies))
            return
    if len(ci) != 1 or not cfg.on_every_normal_path(ci[0]):
        chk.violation(rule, f.where(), "check_input is not called exactly once on every path through main()", expected="unconditional call", found="%d call(s)" % len(ci),
                      construct="main check_input call")
        return
    for m in ("gen_rnd_board", "write_robots"):
        cs = C02.calls_of(f, m)
        for c in cs:
            if cfg.dominates(ci[0], c) and cfg.stmt_of(ci[0]) is not cfg.stmt_of(c):
                chk.ok(rule, f.where(c), "check_input dominates %s" % m)
            else:
                chk.violation(rule, f.where(c), "%s can run before the parameters are validated: with refused parameters something is generated / written anyway" % m,
                              expected="check_input first", found="line %d before line %d" % (c.lineno, ci[0].lineno), construct="main %s before check_input" % m)
        if not cs:
            chk.undecided(rule, f.where(), "no call of %s in main" % m)
    # any other file creation in main before check_input
    for c in walk_no_nested_defs(f.node):
        if isinstance(c, ast.Call) and (call_name(c) in ("os.makedirs", "os.mkdir") or _opens_for_writing(c)) and not cfg.dominates(ci[0], c):
            chk.violation(rule, f.where(c), "`%s` runs before check_input" % src(c), expected="nothing written before validation", found=norm_stmt(cfg.stmt_of(c)),
                          construct="main writes before check_input")
    # ... including what runs before check_input without being written in main: helpers that main calls earlier, and the `type=`
    # callables of the parser (argparse runs them inside parse_args, and on string defaults too)
    FS_WRITERS = ("os.makedirs", "os.mkdir", "os.remove", "os.rename", "os.replace", "os.rmdir", "shutil.rmtree", "shutil.move", "shutil.copy", "os.unlink")

    def writes_files(h):
        for k in ctx.cg.reachable([h]):
            for c in walk_no_nested_defs(k.node):
                if isinstance(c, ast.Call) and (call_name(c) in FS_WRITERS or (isinstance(c.func, ast.Attribute) and c.func.attr in ("mkdir", "touch", "write_text", "unlink"))):
                    return k, c
                if isinstance(c, ast.Call) and call_name(c) == "open":
                    mode = c.args[1] if len(c.args) > 1 else next((kw.value for kw in c.keywords if kw.arg == "mode"), None)
                    if isinstance(mode, ast.Constant) and isinstance(mode.value, str) and any(ch in mode.value for ch in "wax+"):
                        return k, c
        return None
    early = []
    for call, callees in ctx.cg.call_sites(f):
        if callees and call is not ci[0] and not cfg.dominates(ci[0], call):
            for h in callees:
                if h.name != "check_input":
                    early.append((h, "`%s` in main()" % src(call)[:50]))
    ip = [h for h in ctx.prog.all_funcs((GEN,)) if not h.cls and h.name == "init_parser"]
    for h in ip:
        for c in walk_no_nested_defs(h.node):
            if isinstance(c, ast.Call) and isinstance(c.func, ast.Attribute) and c.func.attr == "add_argument":
                for kw in c.keywords:
                    if kw.arg in ("type", "action") and isinstance(kw.value, ast.Name) and kw.value.id in h.mod.funcs:
                        early.append((h.mod.funcs[kw.value.id], "the `%s=%s` callable of option %s (argparse runs it while parsing)" % (kw.arg, kw.value.id, src(c.args[0]) if c.args else "?")))
    seen_early = set()
    for h, how in early:
        if h.qual in seen_early:
            continue
        seen_early.add(h.qual)
        w = writes_files(h)
        if w is not None:
            chk.violation(rule, w[0].where(w[1]), "`%s` changes the file system and is reached through %s, before check_input has accepted the parameters: refused parameters leave "
                          "a directory / file behind" % (src(w[1])[:60], how), expected="nothing written before validation", found=norm_stmt(ctx.cfg(w[0]).stmt_of(w[1])),
                          construct="%s writes before check_input" % w[0].short)
    # parsed values flow under their own names: local p = parsed_args.p, check_input(p...) in parameter order
    sx = SymX(ctx, f, inline_depth=0).run()
    g = ctx.func(GEN + "::check_input")
    call_t = [e for e in sx.final.effects if e[1] == "call" and e[2][0] == "call" and e[2][1] == "check_input"]
    if not call_t:
        chk.undecided(rule, f.where(), "check_input call not recognised symbolically")
    else:
        args = call_t[0][2][2]
        kws = dict(call_t[0][2][3])
        # check_input(*values): a display is spelled out, anything else is not followed
        if any(a_[0] == "star" for a_ in args):
            flat = []
            for a_ in args:
                if a_[0] == "star" and a_[1][0] in ("tup", "list"):
                    flat.extend(a_[1][1])
                elif a_[0] == "star":
                    flat = None
                    break
                else:
                    flat.append(a_)
            if flat is None:
                chk.undecided(rule, f.where(), "check_input receives `%s`: an unpacked sequence that is not resolved to the parsed arguments" % show(call_t[0][2])[:100])
                return
            args = tuple(flat)
        bad, unknown = [], []
        for i, p in enumerate(g.params):
            a = args[i] if i < len(args) else kws.get(p)
            if a is not None and a[0] == "attr" and a[2] == p:
                continue
            if a is None or (a[0] == "attr" and a[2] in g.params) or a[0] == "const":
                bad.append((p, show(a) if a is not None else None))         # another parameter's value / a constant / nothing
                continue
            why = _falsy_replaced(ctx, f, a)
            if why:
                bad.append((p, show(a) + "  [" + why + "]"))
            else:
                unknown.append((p, show(a)))
        if bad:
            chk.violation(rule, f.where(), "check_input receives %s" % ", ".join("%s := %s" % b for b in bad), expected="each parameter := the parsed argument of the same name",
                          found=str(bad), construct="main check_input arguments")
        elif unknown:
            chk.undecided(rule, f.where(), "check_input receives %s: not the parsed argument itself, and how the value is derived from it is not recognised" % ", ".join("%s := %s" % b for b in unknown))
        else:
            chk.ok(rule, f.where(), "check_input(%s) receives the parsed argument of the same name in every position" % ", ".join(g.params))
    # the values that are generated with are the validated ones
    gb = [t for v in sx.final.env.values() for t in C02._sub(v) if t[0] == "call" and t[1] == "gen_rnd_board"]
    gb += [t for e in sx.final.effects for t in C02._sub(e) if t[0] == "call" and t[1] == "gen_rnd_board"]
    h = ctx.func(GEN + "::gen_rnd_board")
    if gb:
        a = gb[0][2]
        ci_args = {p: (args[i] if i < len(args) else kws.get(p)) for i, p in enumerate(g.params)} if call_t else {}
        bad = [(p, show(a[i])) for i, p in enumerate(h.params) if i < len(a) and not (a[i][0] == "attr" and a[i][2] == p) and a[i] != ci_args.get(p, a[i])]
        bad += [(p, show(a[i])) for i, p in enumerate(h.params) if i < len(a) and not (a[i][0] == "attr" and a[i][2] == p) and p not in ci_args and a[i][0] in ("attr", "const")]
        odd = [(p, show(a[i])) for i, p in enumerate(h.params) if i < len(a) and not (a[i][0] == "attr" and a[i][2] == p) and (p, show(a[i])) not in bad and p not in ci_args]
        if bad:
            chk.violation(rule, f.where(), "gen_rnd_board receives %s" % bad, expected="the value that check_input judged, under the same name", found=str(bad), construct="main gen_rnd_board arguments")
        elif odd:
            chk.undecided(rule, f.where(), "gen_rnd_board receives %s: not recognised as the parsed argument" % odd)
        else:
            chk.ok(rule, f.where(), "gen_rnd_board(%s) receives the validated values under their own names" % ", ".join(h.params[:len(a)]))
    # open(..., 'w') only in write_robots
    writers = []
    for fn in ctx.prog.all_funcs((GEN, "stochastic_game_from_roborta_board.py")):
        for c in walk_no_nested_defs(fn.node):
            if isinstance(c, ast.Call) and call_name(c) == "open":
                mode = c.args[1] if len(c.args) > 1 else next((k.value for k in c.keywords if k.arg == "mode"), None)
                if mode is not None and isinstance(mode, ast.Constant) and any(ch in str(mode.value) for ch in "wax+"):
                    writers.append(fn)
    if {w.name for w in writers} <= {"write_robots"}:
        chk.ok(rule, GEN, "the only file creation in the generator modules is open(file_name, 'w') in write_robots")
    else:
        for w in writers:
            if w.name != "write_robots":
                chk.violation(rule, w.where(), "%s creates a file outside write_robots" % w.short, expected="only write_robots writes", found=w.short, construct="%s writes a file" % w.short)


RANDOM_DRAWS = {"random.random", "random.choices", "random.randrange", "random.randint", "random.choice", "random.uniform", "random.shuffle",
                "random.sample", "random.gauss", "random.getrandbits", "random.betavariate", "random.expovariate", "random.triangular"}


DRAW_METHODS = {x.split(".")[1] for x in RANDOM_DRAWS}


def _own_generator(ctx, chk, rule, f):
    """The other way to be reproducible: a generator object of the board's own, `rng = random.Random(seed)`, from which every
    draw of the board construction is taken.  Returns True when this idiom is present (and has been judged: ok / violation /
    undecided were reported), False when it is not the idiom (the module-level rule then applies)."""
    cfg = ctx.cfg(f)
    mk = [st for st in walk_no_nested_defs(f.node) if isinstance(st, ast.Assign) and isinstance(st.value, ast.Call) and call_name(st.value) in ("random.Random", "Random")
          and len(st.targets) == 1 and isinstance(st.targets[0], ast.Name)]
    if len(mk) != 1:
        return False
    a = mk[0]
    X = a.targets[0].id
    args = a.value.args
    if not (len(args) == 1 and isinstance(args[0], ast.Name) and args[0].id in f.params and (args[0].id == f.params[0] or "seed" in args[0].id)
            and not any(isinstance(n, ast.Name) and isinstance(n.ctx, ast.Store) and n.id == args[0].id for n in walk_no_nested_defs(f.node))):
        chk.violation(rule, f.where(a), "the board's generator is created as `%s`, not from the seed parameter: the same parameters do not give the same board" % src(a.value),
                      expected="random.Random(seed)", found=src(a.value), construct="gen_rnd_board generator seed")
        return True
    if not cfg.on_every_normal_path(a) or sum(1 for n in walk_no_nested_defs(f.node) if isinstance(n, ast.Name) and n.id == X and isinstance(n.ctx, ast.Store)) != 1:
        chk.undecided(rule, f.where(a), "`%s` is created conditionally or re-assigned" % X)
        return True
    scope = ctx.cg.reachable([f])
    # which parameter of which function carries the generator
    carrier = {f.qual: {X}}
    changed = True
    bad = False
    while changed:
        changed = False
        for g in scope:
            names = carrier.get(g.qual, set())
            for call, cs in ctx.cg.call_sites(g):
                for h in cs:
                    if h not in scope:
                        continue
                    hp = [p for p in h.params if p != "self"]
                    for i, arg in enumerate(call.args):
                        if isinstance(arg, ast.Name) and arg.id in names and i < len(hp) and hp[i] not in carrier.get(h.qual, set()):
                            carrier.setdefault(h.qual, set()).add(hp[i])
                            changed = True
                    for k in call.keywords:
                        if k.arg and isinstance(k.value, ast.Name) and k.value.id in names and k.arg not in carrier.get(h.qual, set()):
                            carrier.setdefault(h.qual, set()).add(k.arg)
                            changed = True
    n = 0
    for g in scope:
        names = carrier.get(g.qual, set())
        gcfg = ctx.cfg(g)
        for c in walk_no_nested_defs(g.node):
            if not isinstance(c, ast.Call):
                continue
            if call_name(c) in RANDOM_DRAWS or call_name(c) == "random.seed":
                n += 1
                bad = True
                chk.violation(rule, g.where(c), "`%s` uses the module-level generator, which `%s = random.Random(seed)` does not seed: the board depends on the generator's previous state" % (src(c)[:60], X),
                              expected="every draw from %s" % X, found=src(c)[:80], construct="%s module-level draw" % g.short)
            elif isinstance(c.func, ast.Attribute) and c.func.attr in DRAW_METHODS and isinstance(c.func.value, ast.Name):
                r = c.func.value.id
                n += 1
                if r in names:
                    # the carrier name may be re-bound only by the `if rng is None: rng = random` fallback; every caller in the board
                    # construction passes the generator, so the fallback is not taken there
                    stores = [st for st in walk_no_nested_defs(g.node) if isinstance(st, ast.Assign) and any(isinstance(t, ast.Name) and t.id == r for t in st.targets)]
                    if g is f and not (cfg.dominates(a, c) and cfg.stmt_of(c) is not a):
                        bad = True
                        chk.violation(rule, g.where(c), "draw `%s` before the generator exists" % src(c)[:60], expected="after %s = random.Random(seed)" % X, found=norm_stmt(cfg.stmt_of(c)),
                                      construct="%s draw before generator" % g.short)
                    elif g is not f and stores and not all(_none_fallback(st, r) for st in stores):
                        chk.undecided(rule, g.where(c), "`%s` is re-bound in %s" % (r, g.short))
                        bad = True
                    elif g is not f and not _always_passed(ctx, scope, g, r, carrier):
                        chk.undecided(rule, g.where(c), "not every call of %s in the board construction passes the generator as `%s`" % (g.short, r))
                        bad = True
                    else:
                        chk.ok(rule, g.where(c), "draw `%s` is taken from the board's own generator (%s = random.Random(seed))" % (src(c)[:60], X))
                else:
                    gp_ = [p_ for p_ in g.params if p_ != "self"]
                    stores_ = [st for st in walk_no_nested_defs(g.node) if isinstance(st, ast.Assign) and any(isinstance(t, ast.Name) and t.id == r for t in st.targets)]
                    if g is not f and r in gp_ and g.defaults.get(r) is not None and isinstance(g.defaults[r], ast.Constant) and g.defaults[r].value is None \
                            and stores_ and all(_none_fallback(st, r) for st in stores_):
                        i_ = gp_.index(r)
                        sites = [(h, call) for h in scope for call, cs in ctx.cg.call_sites(h) if g in cs]
                        passed = [1 for h, call in sites if i_ < len(call.args) or any(k.arg == r for k in call.keywords) or any(k.arg is None for k in call.keywords)
                                  or any(isinstance(a_, ast.Starred) for a_ in call.args)]
                        if sites and not passed:
                            bad = True
                            chk.violation(rule, g.where(c), "draw `%s`: no call of %s in the board construction passes `%s`, so it falls back to the module-level generator, which "
                                          "`%s = random.Random(seed)` does not seed: this part of the board depends on the generator's previous state" % (src(c)[:50], g.short, r, X),
                                          expected="%s(..., %s=%s)" % (g.name, r, X), found=src(sites[0][1])[:80], construct="%s unseeded fallback generator" % g.short)
                            continue
                    chk.undecided(rule, g.where(c), "draw `%s`: `%s` is not known to be the board's generator" % (src(c)[:60], r))
                    bad = True
    if n < 4:
        chk.undecided(rule, f.where(), "only %d random draws found" % n)
    for g in ctx.prog.all_funcs((GEN, "stochastic_game_from_roborta_board.py")):
        if g in scope:
            continue
        for c in walk_no_nested_defs(g.node):
            if isinstance(c, ast.Call) and call_name(c).startswith("random."):
                chk.violation(rule, g.where(c), "`%s` outside the seeded board construction" % src(c), expected="all randomness inside gen_rnd_board", found=src(c),
                              construct="%s unseeded entropy" % g.short)
    for c in ast.walk(ctx.prog.mod(GEN).tree):
        if isinstance(c, ast.Call) and (call_name(c) == "random.SystemRandom" or (call_name(c) == "random.Random" and c is not a.value)):
            chk.violation(rule, GEN, "`%s`: a second generator that the seed does not determine" % src(c), expected="one generator made from the seed", found=src(c), construct="generator separate Random")
    return True


def _none_fallback(st, r):
    """`if r is None: r = random` (the module-level generator as the default of an optional parameter)"""
    p = getattr(st, "parent", None)
    return isinstance(p, ast.If) and isinstance(p.test, ast.Compare) and len(p.test.ops) == 1 and isinstance(p.test.ops[0], ast.Is) \
        and isinstance(p.test.left, ast.Name) and p.test.left.id == r and isinstance(p.test.comparators[0], ast.Constant) and p.test.comparators[0].value is None \
        and isinstance(st.value, ast.Name) and st.value.id == "random"


def _always_passed(ctx, scope, g, r, carrier):
    gp = [p for p in g.params if p != "self"]
    if r not in gp:
        return False
    i = gp.index(r)
    for h in scope:
        for call, cs in ctx.cg.call_sites(h):
            if g in cs:
                arg = call.args[i] if i < len(call.args) else next((k.value for k in call.keywords if k.arg == r), None)
                if not (isinstance(arg, ast.Name) and arg.id in carrier.get(h.qual, set())):
                    return False
    return True


def r3_reproducible(ctx, chk, rule="C15.3"):
    f = ctx.func(GEN + "::gen_rnd_board")
    cfg = ctx.cfg(f)
    seeds = [c for c in walk_no_nested_defs(f.node) if isinstance(c, ast.Call) and call_name(c) == "random.seed"]
    if not seeds and _own_generator(ctx, chk, rule, f):
        return
    if len(seeds) != 1:
        chk.violation(rule, f.where(), "%d random.seed calls in gen_rnd_board" % len(seeds), expected="exactly one random.seed(seed)", found=len(seeds), construct="gen_rnd_board seed calls")
        return
    s = seeds[0]
    if not (len(s.args) == 1 and isinstance(s.args[0], ast.Name) and s.args[0].id in f.params and (s.args[0].id == f.params[0] or "seed" in s.args[0].id)
            and not any(isinstance(n, ast.Name) and isinstance(n.ctx, ast.Store) and n.id == s.args[0].id for n in walk_no_nested_defs(f.node))):
        chk.violation(rule, f.where(s), "the generator is seeded with `%s`, not with the seed parameter: the same parameters do not give the same board" % (src(s.args[0]) if s.args else "system entropy"),
                      expected="random.seed(seed)", found=src(s), construct="gen_rnd_board seed argument")
        return
    if not cfg.on_every_normal_path(s):
        chk.violation(rule, f.where(s), "random.seed(seed) is conditional", expected="unconditional", found=norm_stmt(cfg.stmt_of(s)), construct="gen_rnd_board conditional seed")
        return
    scope = ctx.cg.reachable([f])
    n = 0
    for g in scope:
        # local names for the draw functions: `rnd = random.random` (bound once)
        alias = {}
        for a_ in walk_no_nested_defs(g.node):
            if isinstance(a_, ast.Assign) and len(a_.targets) == 1 and isinstance(a_.targets[0], ast.Name) and isinstance(a_.value, ast.Attribute) \
                    and attr_path(a_.value) in RANDOM_DRAWS:
                nm = a_.targets[0].id
                if sum(1 for x in walk_no_nested_defs(g.node) if isinstance(x, ast.Name) and x.id == nm and isinstance(x.ctx, ast.Store)) == 1 and nm not in g.params:
                    alias[nm] = attr_path(a_.value)
        for c in walk_no_nested_defs(g.node):
            if isinstance(c, ast.Call) and (call_name(c) in RANDOM_DRAWS or (isinstance(c.func, ast.Name) and c.func.id in alias)):
                n += 1
                if g is f:
                    ok = cfg.dominates(s, c) and cfg.stmt_of(s) is not cfg.stmt_of(c)
                else:
                    sites = [call for call, cs in ctx.cg.call_sites(f) if g in ctx.cg.reachable(cs)]
                    ok = bool(sites) and all(cfg.dominates(s, call) for call in sites)
                if ok:
                    chk.ok(rule, g.where(c), "draw `%s` is dominated by random.seed(seed)" % src(c)[:60])
                else:
                    chk.violation(rule, g.where(c), "draw `%s` can happen before random.seed(seed): the board depends on the generator's previous state" % src(c)[:60],
                                  expected="seed before every draw", found=norm_stmt(ctx.cfg(g).stmt_of(c)), construct="%s draw before seed" % g.short)
    if n < 4:
        chk.undecided(rule, f.where(), "only %d random draws found" % n)
    # no draw / entropy elsewhere in the generator modules
    for g in ctx.prog.all_funcs((GEN, "stochastic_game_from_roborta_board.py")):
        if g in scope:
            continue
        for c in walk_no_nested_defs(g.node):
            if isinstance(c, ast.Call) and call_name(c).startswith("random."):
                chk.violation(rule, g.where(c), "`%s` outside the seeded board construction" % src(c), expected="all randomness inside gen_rnd_board after seeding", found=src(c),
                              construct="%s unseeded entropy" % g.short)
    m = ctx.prog.mod(GEN)
    # clocks / OS entropy: an import alone decides nothing (os.path, timing of a run); a use inside the board construction does
    ent_mods = ("time", "uuid", "secrets", "datetime")
    ent_calls = ("os.urandom", "os.getpid", "os.getenv", "os.times", "os.getrandom")
    for g in ctx.prog.all_funcs((GEN, "stochastic_game_from_roborta_board.py")):
        for c in walk_no_nested_defs(g.node):
            if not isinstance(c, ast.Call):
                continue
            nm = call_name(c)
            head = nm.split(".")[0]
            full = nm
            if head in g.mod.imports:
                m2, attr = g.mod.imports[head]
                full = (m2 + "." + attr if attr else m2) + nm[len(head):]
            if full.split(".")[0] in ent_mods or full in ent_calls:
                if g in scope:
                    chk.violation(rule, g.where(c), "`%s` inside the board construction: the board depends on the clock / the environment, not only on the seed" % src(c),
                                  expected="only the seeded module-level generator", found=src(c), construct="%s entropy call" % g.short)
                else:
                    chk.undecided(rule, g.where(c), "`%s` in the generator outside the board construction: its influence on the generated file is not tracked" % src(c))
    for c in ast.walk(m.tree):
        if isinstance(c, ast.Call) and call_name(c) in ("random.SystemRandom", "random.Random"):
            chk.violation(rule, GEN, "`%s`: a separate generator is not covered by random.seed(seed)" % src(c), expected="module-level generator", found=src(c), construct="generator separate Random")


def r3c_no_generator_state(ctx, chk, rule="C15.3"):
    """The board is a function of its parameters: the board construction writes no module-level state (a cache of the last
    layer, a counter): with such state the position in the random stream - hence the board - depends on earlier calls."""
    f = ctx.func(GEN + "::gen_rnd_board")
    scope = ctx.cg.reachable([f])
    n = 0
    for g in scope:
        mod_names = set(g.mod.consts)
        declared = set()
        for x in walk_no_nested_defs(g.node):
            if isinstance(x, (ast.Global, ast.Nonlocal)):
                declared.update(x.names)
        local_names = set(g.params) | {x.id for x in walk_no_nested_defs(g.node) if isinstance(x, ast.Name) and isinstance(x.ctx, ast.Store) and x.id not in declared}
        for x in walk_no_nested_defs(g.node):
            if isinstance(x, ast.Name) and isinstance(x.ctx, ast.Store) and x.id in declared:
                n += 1
                chk.violation(rule, g.where(x), "`%s` assigns the module-level name `%s` while a board is generated: what the next call draws depends on this call "
                              "(same seed and parameters, different board)" % (norm_stmt(ctx.cfg(g).stmt_of(x)), x.id), expected="no state kept between calls of gen_rnd_board",
                              found=norm_stmt(ctx.cfg(g).stmt_of(x)), construct="%s writes global %s" % (g.short, x.id))
            tgt = None
            if isinstance(x, ast.Call) and isinstance(x.func, ast.Attribute) and x.func.attr in _MUTATORS:
                tgt = x.func.value
            elif isinstance(x, ast.Subscript) and isinstance(x.ctx, (ast.Store, ast.Del)):
                tgt = x.value
            if tgt is not None:
                base = tgt
                while isinstance(base, (ast.Attribute, ast.Subscript)):
                    base = base.value
                if isinstance(base, ast.Name) and base.id not in local_names and base.id in mod_names:
                    n += 1
                    chk.violation(rule, g.where(x), "`%s` modifies the module-level object `%s` while a board is generated" % (norm_stmt(ctx.cfg(g).stmt_of(x)), base.id),
                                  expected="no state kept between calls of gen_rnd_board", found=norm_stmt(ctx.cfg(g).stmt_of(x)), construct="%s mutates %s" % (g.short, base.id))
        for d in g.node.decorator_list:
            if "cache" in src(d):
                n += 1
                chk.violation(rule, g.where(), "%s is memoised (`@%s`) although it draws from the random stream: a repeated call skips its draws" % (g.short, src(d)),
                              expected="no memoisation of functions that draw", found=src(d), construct="%s memoised" % g.short)
    if not n:
        chk.ok(rule, f.where(), "the board construction (%d functions) writes no module-level state and is not memoised" % len(scope))


def r3b_no_hash_order(ctx, chk, rule="C15.3"):
    """Reproducible across interpreter runs: no random draw may depend on the iteration order of a set (string hashing is
    randomised per process), e.g. random.choices(list(some_set), ...)."""
    f = ctx.func(GEN + "::gen_rnd_board")
    scope = ctx.cg.reachable([f])
    n = 0
    for g in scope:
        sets, ordered = set(), set()

        def is_set_expr(e):
            if isinstance(e, (ast.Set, ast.SetComp)):
                return True
            if isinstance(e, ast.Call) and call_name(e) in ("set", "frozenset"):
                return True
            if isinstance(e, ast.Name) and e.id in sets:
                return True
            if isinstance(e, ast.BinOp) and isinstance(e.op, (ast.Sub, ast.BitOr, ast.BitAnd, ast.BitXor)) and (is_set_expr(e.left) or is_set_expr(e.right)):
                return True
            if isinstance(e, ast.IfExp):
                return is_set_expr(e.body) or is_set_expr(e.orelse)
            if isinstance(e, ast.Call) and isinstance(e.func, ast.Attribute) and e.func.attr in ("union", "intersection", "difference", "symmetric_difference", "copy") \
                    and is_set_expr(e.func.value):
                return True
            if isinstance(e, ast.Call) and isinstance(e.func, ast.Attribute) and e.func.attr in ("keys",) :
                return False
            return False

        def is_hash_ordered(e):
            if isinstance(e, ast.Name) and e.id in ordered:
                return True
            if isinstance(e, ast.Call) and call_name(e) in ("list", "tuple", "iter", "enumerate") and e.args and (is_set_expr(e.args[0]) or is_hash_ordered(e.args[0])):
                return True
            if isinstance(e, (ast.ListComp, ast.GeneratorExp)) and e.generators and (is_set_expr(e.generators[0].iter) or is_hash_ordered(e.generators[0].iter)):
                return True
            if isinstance(e, ast.IfExp):
                return is_hash_ordered(e.body) or is_hash_ordered(e.orelse)
            return False
        for _ in range(3):       # small fixpoint over straight-line assignments
            for st in walk_no_nested_defs(g.node):
                if isinstance(st, ast.Assign) and len(st.targets) == 1 and isinstance(st.targets[0], ast.Name):
                    if is_set_expr(st.value):
                        sets.add(st.targets[0].id)
                    if is_hash_ordered(st.value):
                        ordered.add(st.targets[0].id)
        for c in walk_no_nested_defs(g.node):
            if isinstance(c, ast.Call) and call_name(c).startswith("random.") and call_name(c) != "random.seed":
                for a in list(c.args) + [k.value for k in c.keywords]:
                    if is_hash_ordered(a) or is_set_expr(a):
                        n += 1
                        chk.violation(rule, g.where(c), "`%s` draws from a sequence in set-iteration order (`%s`): the order of a set of strings changes from one interpreter run to the next "
                                      "(hash randomisation), so the same seed gives different boards" % (src(c)[:80], src(a)[:40]),
                                      expected="a literal or sorted population", found=src(a)[:60], construct="%s hash-ordered population" % g.short)
    if not n:
        chk.ok(rule, f.where(), "no random draw in the board construction takes its population / weights in set-iteration order")


def _first_use_constants(sx, t):
    """`(E if guard@L is None else w@L)` where w is only ever set to the loop-invariant E under that very test: E."""
    def invariant(e):
        return not mentions(e, lambda x: x[0] in ("acc", "elem", "pos", "res", "compr") or (x[0] == "call" and x[1].startswith("random.")))

    def g(x):
        if x[0] == "ite" and x[1][0] == "cmp" and x[1][1] in ("is", "==") and x[1][3] == C(None) and x[1][2][0] == "acc" and x[3][0] == "acc" and invariant(x[2]):
            w = x[3]
            L = sx.loops.get(w[1])
            if L is None:
                return None
            uw = L.update.get(w[2])
            if uw == x or uw == w:
                return x[2]
        return None
    from ..symx import subst as _subst, deep_simp as _ds
    return _ds(_subst(t, g))


def _bitlength_reward(val, mr):
    """`n - random.getrandbits(n).bit_length()` with n = max_reward + 1 (leading zeros of an n-bit word): ranges over 0..n, i.e.
    up to max_reward + 1.  Returns the text of n, or None when the expression is something else."""
    n = simp(("add", (mr, C(1))))
    bl = ("mcall", ("call", "random.getrandbits", (n,), ()), "bit_length", (), ())
    if val == simp(("add", (n, negate(bl)))) or val == simp(("add", (negate(bl), n))) or val == simp(("add", (negate(bl), mr, C(1)))):
        return show(n)
    return None


def table_cells(sx, name, rows_src, cols_src):
    """How the table `name` is filled: ('ok', element term) if it is `rows` rows of `cols` unconditional appends - in the
    idiom `t.append([]); t[i].append(x)`, `row = []; row.append(x); t.append(row)` or nested comprehensions;
    ('bad', text) if recognisably something else; (None, text) if not recognised."""
    for Lo in sx.loops.values():
        if Lo.kind != "for" or Lo.source != rows_src:
            continue
        if Lo.has_break or Lo.has_return:
            return "bad", "the row loop exits early"
        if Lo.init.get(name) != ("list", ()):
            continue
        up = Lo.update.get(name)
        acc = ("acc", Lo.id, name)
        inner = [sx.loops[i] for i in Lo.inner if sx.loops[i].kind == "for"]
        # idiom A: t.append([]) per row, t[i].append(x) per column
        if up == simp(("cat", acc, ("list", (("list", ()),)))):
            cells = []
            for Li in inner:
                for e in Li.effects:
                    if e[1] == "call" and e[2][0] == "mcall" and e[2][2] == "append" and e[2][1][0] == "idx" and e[2][1][2] == ("elem", Lo.id) \
                            and any(t == acc for t in C02._sub(e[2][1][1])):
                        cells.append((Li, e[0], e[2][3][0]))
            if not cells:
                # the row is appended first and filled through its own name afterwards: `row = []; t.append(row); row.append(x)`
                import ast as _ast
                rows = [st.value.args[0].id for st in Lo.node.body if isinstance(st, _ast.Expr) and isinstance(st.value, _ast.Call)
                        and isinstance(st.value.func, _ast.Attribute) and st.value.func.attr == "append" and isinstance(st.value.func.value, _ast.Name)
                        and st.value.func.value.id == name and len(st.value.args) == 1 and isinstance(st.value.args[0], _ast.Name)]
                if len(rows) == 1:
                    r = rows[0]
                    fresh = [st for st in Lo.node.body if isinstance(st, _ast.Assign) and len(st.targets) == 1 and isinstance(st.targets[0], _ast.Name)
                             and st.targets[0].id == r and isinstance(st.value, _ast.List) and not st.value.elts]
                    stores_r = [n for n in _ast.walk(Lo.node) if isinstance(n, _ast.Name) and n.id == r and isinstance(n.ctx, _ast.Store)]
                    fills = [Li for Li in inner if classify(Li).get(r) is not None]
                    if len(fresh) == 1 and len(stores_r) == 1 and len(fills) == 1:
                        Li = fills[0]
                        fo = classify(Li).get(r)
                        if Li.source != cols_src:
                            return "bad", "columns are filled by a loop over `%s`" % show(Li.source)
                        if fo.kind == "COLLECT" and Li.filter == TRUE and not Li.has_break and Li.cont == FALSE and getattr(fo, "own_filter", None) in (None, TRUE):
                            return "ok", fo.term
                        return None, "a row is filled through `%s` in a way that is not `width` unconditional appends" % r
                # the rows are anonymous fresh lists, reachable only through the table: when nothing in the row loop touches the
                # table except that append, the rows stay empty
                touched = 0

                def _count(effs):
                    nonlocal touched
                    for e in effs:
                        if e[1] == "loop":
                            _count(sx.loops[e[2]].effects)
                        elif any(t == acc or (t[0] == "acc" and t[2] == name) or t == ("v", name) for t in C02._sub(tuple(x for x in e[1:] if isinstance(x, tuple)))):
                            touched += 1
                _count(Lo.effects)
                import ast as _ast2
                syntactic = [n for n in _ast2.walk(Lo.node) if isinstance(n, _ast2.Name) and n.id == name]
                if touched == 0 and len(syntactic) == 1:
                    return "bad", "every row of `%s` is appended empty and never filled" % name
                return None, "no append to %s[i] per column recognised" % name
            if len(cells) != 1:
                return "bad", "%d appends to %s[i] per column" % (len(cells), name)
            Li, cond, val = cells[0]
            if Li.source != cols_src:
                return "bad", "columns are filled by a loop over `%s`" % show(Li.source)
            if cond != TRUE or Li.has_break:
                return "bad", "the per-column append is conditional (`%s`)" % show(cond)
            return "ok", val
        # idiom B: row = []; row.append(x) per column; t.append(row)
        if up is not None and up[0] == "cat" and up[1] == acc and up[2][0] == "list" and len(up[2][1]) == 1:
            row = up[2][1][0]
            if row[0] == "res" and row[1] in sx.loops:
                Li = sx.loops[row[1]]
                fo = classify(Li).get(row[2])
                if Li.source != cols_src:
                    return "bad", "columns are filled by a loop over `%s`" % show(Li.source)
                if fo is not None and fo.kind == "COLLECT" and Li.init.get(row[2]) == ("list", ()) and Li.filter == TRUE and not Li.has_break and Li.cont == FALSE:
                    return "ok", fo.term
                # one unconditional append per column whose element refers to values computed once, on first use
                # (`if eps is None: eps = ...; scale = ...`): those are what they are computed from
                ur = Li.update.get(row[2])
                acc_r = ("acc", Li.id, row[2])
                if ur is not None and ur[0] == "cat" and ur[1] == acc_r and ur[2][0] == "list" and len(ur[2][1]) == 1 and Li.init.get(row[2]) == ("list", ()) \
                        and not Li.has_break and not Li.has_return and Li.cont == FALSE:
                    el = _first_use_constants(sx, ur[2][1][0])
                    if not mentions(el, lambda x: x[0] == "acc"):
                        return "ok", el
                    return None, "a row element refers to values carried between the tiles: `%s`" % show(el)[:100]
                return "bad", "a row is not `width` unconditional appends (%s)" % (fo,)
            if row[0] == "compr":
                Li = sx.loops[row[1]]
                if Li.filters:
                    return "bad", "row comprehension is filtered"
                if Li.source == cols_src:
                    return "ok", Li.elt
                # a projection of a per-column list built just before: `tiles = [draw() for _ in range(width)]; [r for r, _ in tiles]`
                if Li.source[0] == "compr" and Li.source[1] in sx.loops:
                    Lc = sx.loops[Li.source[1]]
                    if Lc.source == cols_src and not Lc.filters and Lc.ckind == "list" and Lc.whole:
                        from ..symx import subst, deep_simp
                        el = ("elem", Li.id)
                        return "ok", deep_simp(subst(Li.elt, lambda x: Lc.elt if x == el else None))
                if Li.source[0] == "call" and Li.source[1] == "range":
                    return "bad", "columns come from `%s`" % show(Li.source)
                return None, "columns come from `%s`" % show(Li.source)[:60]
            return None, "row value `%s`" % show(row)[:80]
    return None, "no row loop over `%s` filling `%s`" % (show(rows_src), name)


def table_expr(sx, t, rows_src, cols_src, depth=0):
    """Cell term of a length x width table given as an expression: a nested comprehension over range(length) x
    range(width), a per-cell projection of another such table (`[[f(c) for c in row] for row in T]`), or a variable
    filled by the loop idioms of table_cells.  ('ok', cell) | ('bad', text) | (None, text)."""
    from ..symx import subst
    if depth > 3:
        return None, "table expression too deep"
    if t[0] == "res":
        return table_cells(sx, t[2], rows_src, cols_src)
    if t[0] == "compr" and t[1] in sx.loops:
        Lo = sx.loops[t[1]]
        if Lo.ckind != "list" or Lo.elt[0] != "compr":
            return None, "`%s` is not a comprehension of row comprehensions" % show(t)[:60]
        Li = sx.loops[Lo.elt[1]]
        if Lo.filters or Li.filters or Li.ckind != "list":
            return "bad", "the table comprehension is filtered"
        if Lo.source == rows_src:
            if Li.source != cols_src:
                return "bad", "columns come from `%s`" % show(Li.source)
            return "ok", Li.elt
        if Li.source == ("elem", Lo.id):
            v, cell = table_expr(sx, Lo.source, rows_src, cols_src, depth + 1)
            if v != "ok":
                return v, cell
            el = ("elem", Li.id)
            return "ok", subst(Li.elt, lambda x: cell if x == el else None, ) if True else None
        return "bad", "rows come from `%s`" % show(Lo.source)
    return None, "`%s`" % show(t)[:80]


def _is_generator(t):
    """a random generator object: the module, random.Random(...), a conditional between such, or a variable (judged by rule 3)"""
    if t == ("v", "random") or (t[0] == "call" and t[1] in ("random.Random", "Random")):
        return True
    if t[0] == "ite":
        return _is_generator(t[2]) and _is_generator(t[3])
    return t[0] == "v" and any(k in t[1] for k in ("rng", "rand", "gen", "prng"))


def _module_form(t):
    """Which generator object a draw is taken from does not change its distribution (rule 3 decides whether it is the seeded
    one): `rng.random()` is read as `random.random()` for the value rules."""
    from ..symx import subst
    return subst(t, lambda x: ("call", "random." + x[2], x[3], x[4]) if x[0] == "mcall" and x[2] in DRAW_METHODS and _is_generator(x[1]) else None)


def r45_shape_values(ctx, chk, rule4="C15.4", rule5="C15.5", rule6="C15.6"):
    f = ctx.func(GEN + "::gen_rnd_board")
    sx = SymX(ctx, f, inline_depth=2, no_inline=("get_random_moves",)).run()
    length, width = ("v", "length"), ("v", "width")
    rows_src, cols_src = ("call", "range", (length,), ()), ("call", "range", (width,), ())
    ret = sx.ret
    if ret[0] != "tup" or len(ret[1]) != 3:
        chk.undecided(rule4, f.where(), "gen_rnd_board does not return (moves, rewards, loose_tiles): %s" % show(ret)[:80])
        return
    from ..symx import deep_simp
    U = ("call", "random.random", (), ())
    vals = {}
    for slot, what in ((1, "rewards"), (2, "loose_tiles")):
        verdict, val = table_expr(sx, ret[1][slot], rows_src, cols_src)
        if verdict == "ok":
            val = _module_form(deep_simp(val))
        if verdict == "ok":
            chk.ok(rule4, f.where(), "%s: `length` rows x `width` unconditional appends" % what)
            vals[what] = val
        elif verdict == "bad":
            chk.violation(rule4, f.where(), "%s is not a length x width table: %s" % (what, val), expected="range(length) rows of range(width) appends", found=val,
                          construct="gen_rnd_board %s shape" % what)
        else:
            chk.undecided(rule4, f.where(), "%s: %s" % (what, val))
    if "loose_tiles" in vals:
        val = vals["loose_tiles"]
        p = ("v", [q for q in f.params if "loose" in q][0])
        want = simp(("ite", simp(("cmp", "<", U, p)), C(1), C(0)))
        alt = simp(("call", "int", (simp(("cmp", "<", U, p)),), ()))
        if val in (want, alt):
            chk.ok(rule5, f.where(), "loose flag = 1 if random.random() < %s else 0 (Bernoulli(%s); values in {0,1})" % (p[1], p[1]))
        else:
            chk.violation(rule5, f.where(), "loose flag is `%s`; specification: 1 if U < %s else 0 with a fresh uniform U" % (show(val), p[1]), expected=show(want), found=show(val),
                          construct="gen_rnd_board loose flag")
    if "rewards" in vals:
        val = vals["rewards"]
        verdict = reward_formula(val, U, ("v", "max_reward"))
        if verdict is True:
            chk.ok(rule6, f.where(), "reward = floor(-log(a + U*(1-a)) / log 2), a = 2^-(max_reward+1): argument in [a,1] => reward in [0, max_reward] (max_reward+1 only for U == 0.0)")
        elif verdict is None and _bitlength_reward(val, ("v", "max_reward")) is not None:
            n_bits = _bitlength_reward(val, ("v", "max_reward"))
            chk.violation(rule6, f.where(), "reward = %s - bit_length(getrandbits(%s)): the random word is 0 with probability 2^-(%s), its bit_length is then 0 and the reward is %s, "
                          "one more than max_reward" % (n_bits, n_bits, n_bits, n_bits), expected="0 <= reward <= max_reward", found=show(val)[:120],
                          construct="gen_rnd_board reward range")
        elif verdict is None:
            chk.undecided(rule6, f.where(), "reward expression `%s` not recognised" % show(val)[:200])
        else:
            chk.violation(rule6, f.where(), "reward expression: %s" % verdict, expected="floor(-log(a + U*(1-a))/log(2)) with a = 2^-(max_reward+1)", found=show(val)[:200],
                          construct="gen_rnd_board reward formula")
    # moves
    g = ctx.func(GEN + "::get_random_moves")
    r0 = ret[1][0]
    called = r0 == ("call", "get_random_moves", (length, width, ("v", "force_down")), ())
    if not called and r0[0] == "call" and r0[1] == "get_random_moves" and r0[2][:3] == (length, width, ("v", "force_down")) and \
            all(_is_generator(a) for a in r0[2][3:]) and all(_is_generator(v) for _, v in r0[3]):
        called = True           # the board's own generator handed on (which generator is used is judged by rule 3)
    if not called and r0[0] == "call" and r0[1] == "get_random_moves" and r0[2][:3] == (length, width, ("v", "force_down")):
        chk.undecided(rule4, f.where(), "get_random_moves receives further arguments that are not recognised: `%s`" % show(r0)[:120])
    elif not called:
        chk.violation(rule4, f.where(), "gen_rnd_board does not return get_random_moves(length, width, force_down) as the arrows (returns `%s`)" % show(ret[1][0])[:80],
                      expected="get_random_moves(length, width, force_down)", found=show(ret[1][0])[:120], construct="gen_rnd_board moves")
    sg = SymX(ctx, g, inline_depth=1).run()
    mret = sg.ret
    gl, gw, gfd = ("v", g.params[0]), ("v", g.params[1]), ("truthy", ("v", g.params[2]))
    from ..symx import assume_deep as assume, deep_simp, subst
    if mret[0] == "compr" and mret[1] in sg.loops:
        # [row(...) for _ in range(length)]
        L = sg.loops[mret[1]]
        if L.ckind != "list" or L.filters or L.source != ("call", "range", (gl,), ()):
            chk.violation(rule4, g.where(), "get_random_moves does not build one row per `range(length)`", expected="one row per range(length)", found=show(L.source),
                          construct="get_random_moves rows")
            return
        acc, var = ("acc", L.id, "$rows"), "$rows"
        u = simp(("cat", acc, ("list", (L.elt,))))
    elif mret[0] == "res":
        L = sg.loops[mret[1]]
        var = mret[2]
        if L.kind != "for" or L.source != ("call", "range", (gl,), ()) or L.init.get(var) != ("list", ()) or L.has_break or L.cont != FALSE:
            chk.violation(rule4, g.where(), "get_random_moves does not build one row per `range(length)`", expected="for i in range(length)", found=show(L.source),
                          construct="get_random_moves rows")
            return
        acc = ("acc", L.id, var)
        u = L.update[var]
    else:
        chk.undecided(rule4, g.where(), "get_random_moves returns `%s`" % show(mret)[:80])
        return
    rr = (("call", "random.randrange", (C(0), gw), ()), ("call", "random.randrange", (gw,), ()))

    forced_extra = {}

    def row_of(flag):
        t = assume(u, gfd, flag)
        # bool(flag) / table[flag] after the flag is fixed
        t = _module_form(deep_simp(subst(t, lambda x: C(flag) if x == ("call", "bool", (("v", g.params[2]),), ()) else None)))
        if not (t[0] == "cat" and t[1] == acc and t[2][0] == "list" and len(t[2][1]) == 1):
            return None, None
        row = t[2][1][0]
        forced = None
        if row[0] == "ite" and row[2][0] == "setitem" and row[3] == row[2][1]:
            # the tile is forced only under a further condition (on the width, ...)
            forced_extra[flag] = row[1]
            row = row[2]
        if row[0] == "setitem":
            forced = (row[2], row[3])
            row = row[1]
        sets = [e for e in L.effects if e[1] == "setitem" and e[2][0] == "idx" and e[2][2] == ("elem", L.id) and assume(e[0], gfd, flag) == TRUE]
        if sets and forced is None:
            forced = (_module_form(assume(sets[0][3], gfd, flag)), assume(sets[0][4], gfd, flag))
        return row, forced

    def population(row):
        if row is not None and row[0] == "call" and row[1] == "random.choices" and row[2] and dict(row[3]).get("k") == gw and row[2][0][0] == "list" \
                and all(is_const(x) for x in row[2][0][1]):
            return [x[1] for x in row[2][0][1]]
        return None
    free_row, free_forced = row_of(False)
    forced_row, forced_set = row_of(True)
    pf, pd = population(free_row), population(forced_row)
    if pf is None or pd is None:
        chk.undecided(rule5, g.where(L.node), "row construction not recognised as random.choices(<literal population>, ..., k=width): %s" % show(u)[:140])
        return
    if sorted(pf) == [0, 1, 2] and free_forced is None:
        chk.ok(rule5, g.where(L.node), "without force_down every row is random.choices([0, 1, 2], k=width): no down-only tile")
    else:
        chk.violation(rule5, g.where(L.node), "without force_down a row is drawn from %s%s" % (pf, " and a tile is forced to %s" % show(free_forced[1]) if free_forced else ""),
                      expected="choices([0,1,2], k=width)", found=str(pf), construct="get_random_moves free population")
    if True in forced_extra:
        chk.violation(rule5, g.where(L.node), "with force_down the down-only tile of a row is forced only if `%s`: rows for which that fails (a one-column board) can come out without any "
                      "down-only tile although force_down is set" % show(forced_extra[True]), expected="one forced 3 in every row", found=show(forced_extra[True]),
                      construct="get_random_moves conditional forcing")
    elif sorted(pd) == [0, 1, 2, 3] and forced_set is not None and forced_set[0] in rr and forced_set[1] == C(3):
        chk.ok(rule5, g.where(L.node), "with force_down every row is random.choices([0, 1, 2, 3], k=width) and one position randrange(0, width) is set to 3: at least one down-only tile per row")
    else:
        chk.violation(rule5, g.where(L.node), "with force_down a row is drawn from %s with forced tile %s; specification: population [0,1,2,3] and one position in range(width) forced to 3" % (
            pd, (show(forced_set[0]), show(forced_set[1])) if forced_set else None), expected="one forced 3 per row", found=str(pd), construct="get_random_moves forced population")


def reward_formula(val, U, m):
    """True / None / text."""
    if not (val[0] == "call" and val[1] in ("math.floor", "int") and len(val[2]) == 1):
        return None
    x = val[2][0]
    if not (x[0] == "div" and x[2] in (("call", "math.log", (C(2.0),), ()), ("call", "math.log", (C(2),), ()))):
        if x[0] == "neg" and x[1][0] == "call" and x[1][1] == "math.log2":
            arg = x[1][2][0]
        else:
            return None
    else:
        num = x[1]
        if not (num[0] == "neg" and num[1][0] == "call" and num[1][1] == "math.log" and len(num[1][2]) == 1):
            return None
        arg = num[1][2][0]
    a_forms = (("div", C(1.0), ("pow", C(2.0), mk_add(m, C(1)))), ("pow", C(2.0), negate(mk_add(m, C(1)))), ("div", C(1), ("pow", C(2), mk_add(m, C(1)))))
    for a in a_forms:
        want = mk_add(a, mk_mul(U, mk_add(C(1.0), negate(a))))
        want2 = mk_add(a, mk_mul(U, mk_add(C(1), negate(a))))
        if arg in (want, want2):
            if a[0] == "div":
                return ("the offset is computed as 1/2**(max_reward+1): the power overflows (OverflowError) for max_reward >= 1023, "
                        "a value check_input accepts - use 2.0**-(max_reward+1), which underflows to 0.0 instead")
            return True
        if arg == mk_add(a, U):
            return "the uniform draw is not scaled by (1 - a): the log argument ranges over [a, 1+a) and exceeds 1, so the reward can be -1"
        if arg == mk_mul(U, mk_add(C(1.0), negate(a))) or arg == U:
            return "the offset a is missing: the log argument can be 0 (math domain error) or arbitrarily small (reward above max_reward)"
    if any(t == U for t in C02._sub(arg)):
        return "the log argument `%s` is not the convex combination a + U*(1-a) with a = 2^-(max_reward+1)" % show(arg)
    return None


def run(ctx, chk):
    shared.rule_single_use_iterators(ctx, chk, "C15.0:iter", shared.GENERATOR_MODULES)      # a zip / map / filter walked twice: the second check sees nothing
    shared.rule_no_module_level_iterators(ctx, chk, "C15.0:iter", shared.GENERATOR_MODULES)
    shared.rule_mutable_defaults(ctx, chk, "C15.0:defaults", shared.GENERATOR_MODULES)      # a call must not depend on the calls made before it
    r1_ranges(ctx, chk)
    r2_order(ctx, chk)
    parse_args_source(ctx, chk, "C15.2")
    r3_reproducible(ctx, chk)
    r3b_no_hash_order(ctx, chk)
    r3c_no_generator_state(ctx, chk)
    r45_shape_values(ctx, chk)
    C08.argument_swap_rule(ctx, chk, "C15.2:swap")
    chk.require_instances("C15.1", 9)
    chk.require_instances("C15.3", 4)
