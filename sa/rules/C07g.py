"""C07, second recogniser: the backward search as a work-list closure, judged on the symbolic summary of its loops.

The pattern rules of C07.py know the search the repository ships (one search per final state, a visited set handed in) and
its functional / union variants.  A maintainer may just as well write *one* traversal seeded with all final states, keep
bound methods in locals (`add = visited.add`), or pop inside the subscript.  This module decides those by the shape of the
closure computation itself:

    roots      every element of the final-state list (whole list, no early exit) that is not yet marked is marked and put on
               the work list                                                                         (-> C07.2)
    expansion  the loop runs while the work list is non-empty and has no other exit; every iteration takes one state off the
               work list and walks the WHOLE predecessor list `table[state]` of it; every predecessor that is not yet marked
               is marked and put on the work list - nothing else is ever marked or queued                (-> C07.3)
    once       a state is queued only at the moment it is marked (mark and push under the same condition `x not in marked`),
               so it is expanded at most once and the loop terminates                                  (-> C07.5)

With these three, at exit the marked set is closed under predecessors and contains the finals (completeness), and contains
nothing else (every marked state is a root or a predecessor of a marked state): it is exactly the set of states that can
reach a final state.  Anything that does not fit is reported as 'undecided' - this recogniser never reports a violation
for a form it does not know - except for the specific deviations it can name (a sliced / early-exit root loop, a predecessor
list walked partially, a push without a mark).
"""
import ast

from ..loader import walk_no_nested_defs, call_name, norm_stmt
from ..symx import SymX, classify, show, simp, subst, C, TRUE, FALSE


def _norm(t):
    """bound-method aliases: (X.m)(args) is X.m(args)"""
    return subst(t, lambda x: ("mcall", x[1][1], x[1][2], x[2], x[3]) if x[0] == "apply" and len(x) == 4 and x[1][0] == "attr" else None)


def _marks_and_pushes(L, names):
    """[(cond, collection term, element term, method)] for every add/append that one iteration of loop L performs on one of
    `names` (terms), taken from the loop's effects and from the fold form of locals / parameters that are appended to."""
    out = []
    for e in L.effects:
        if e[1] != "call":
            continue
        t = _norm(e[2])
        if t[0] == "mcall" and t[2] in ("add", "append", "appendleft") and len(t[3]) == 1:
            out.append((e[0], t[1], t[3][0], t[2]))
    for v, u in L.update.items():
        acc = ("acc", L.id, v)
        if u == acc:
            continue

        def grow(t):
            return t[2][1][0] if t[0] == "cat" and t[1] == acc and t[2][0] == "list" and len(t[2][1]) == 1 else None
        if grow(u) is not None:
            out.append((TRUE, acc, grow(u), "append"))
        elif u[0] == "ite" and u[3] == acc and grow(u[2]) is not None:
            out.append((u[1], acc, grow(u[2]), "append"))
        elif u[0] == "ite" and u[2] == acc and grow(u[3]) is not None:
            out.append((simp(("not", u[1])), acc, grow(u[3]), "append"))
        elif any(x == acc for x in _subterms(u)):
            out.append((None, acc, None, "?"))          # the collection changes in a way that is not one conditional append
    return out


def generic(ctx, chk, entry, finals, rule2, rule3, rule5):
    """Returns the name of the visited set in the entry function when this recogniser took the case (and reported ok / violation /
    undecided for the three rules), False otherwise."""
    f = entry
    # the entry function: table = reverse_transition_list(tl); visited = set(); search(finals, table, visited)
    table_name = visited_name = None
    for n in walk_no_nested_defs(f.node):
        if isinstance(n, ast.Assign) and len(n.targets) == 1 and isinstance(n.targets[0], ast.Name) and isinstance(n.value, ast.Call):
            cs = ctx.cg.resolve(n.value, f)
            if cs and "reverse_transition" in cs[0].name:
                table_name = n.targets[0].id
            elif call_name(n.value) == "set" and not n.value.args:
                visited_name = n.targets[0].id
    if table_name is None or visited_name is None:
        return False
    calls = []
    for call, callees in ctx.cg.call_sites(f):
        if callees and any(isinstance(a, ast.Name) and a.id == visited_name for a in call.args) and callees[0] is not f:
            calls.append((call, callees[0]))
    if len(calls) != 1:
        return False
    call, S = calls[0]
    ps = list(S.params)
    amap = dict(zip(ps, call.args))
    amap.update({k.arg: k.value for k in call.keywords if k.arg})
    p_roots = [p for p, a in amap.items() if isinstance(a, ast.Name) and a.id == finals]
    p_table = [p for p, a in amap.items() if isinstance(a, ast.Name) and a.id == table_name]
    p_vis = [p for p, a in amap.items() if isinstance(a, ast.Name) and a.id == visited_name]
    if not (len(p_roots) == len(p_table) == len(p_vis) == 1):
        return False            # a per-root search (the pattern rules' business) or something else
    pr, pt, pv = p_roots[0], p_table[0], p_vis[0]
    where = S.where()
    cfg = ctx.cfg(f)
    if not cfg.on_every_normal_path(call):
        chk.undecided(rule2, f.where(call), "the search call `%s` is conditional" % norm_stmt(cfg.stmt_of(call)))
        return visited_name
    # nothing else touches the visited set in the entry function before the result is taken from it
    for n in walk_no_nested_defs(f.node):
        if isinstance(n, ast.Call) and isinstance(n.func, ast.Attribute) and isinstance(n.func.value, ast.Name) and n.func.value.id == visited_name \
                and n.func.attr in ("add", "update", "discard", "remove", "clear", "pop", "difference_update", "intersection_update"):
            chk.undecided(rule3, f.where(n), "`%s` modifies the visited set in the entry function" % norm_stmt(cfg.stmt_of(n)))
            return visited_name
    try:
        sx = SymX(ctx, S, inline_depth=2).run()
    except Exception as e:       # noqa: the symbolic executor gave up: not this recogniser's case
        chk.undecided(rule3, where, "search function %s: symbolic execution failed (%s)" % (S.short, e))
        return visited_name
    whiles = [l for l in sx.loops.values() if l.kind == "while"]
    if len(whiles) != 1:
        chk.undecided(rule3, where, "%d while loops in %s; a work-list search has one" % (len(whiles), S.short))
        return visited_name
    W = whiles[0]
    V = ("v", pv)
    T = ("v", pt)

    def is_V(t):
        # the visited set itself, or its value carried through the root loop (marks on a parameter are folded into the loop)
        return t == V or (t[0] in ("acc", "res") and t[2] == pv)

    # ---- the work list: what the while test looks at -------------------------------------------------------------------
    c = W.cond
    wl = None
    if c[0] == "truthy":
        wl = c[1]
    elif c[0] == "cmp" and c[1] in ("<", "!=") and C(0) in (c[2], c[3]):
        o = c[3] if c[2] == C(0) else c[2]
        if o[0] == "call" and o[1] == "len" and len(o[2]) == 1:
            wl = o[2][0]
    if wl is None or wl[0] not in ("res", "acc", "v", "list"):
        chk.undecided(rule3, where, "the loop test `%s` is not 'the work list is non-empty'" % show(c))
        return visited_name
    wl_name = wl[2] if wl[0] in ("res", "acc") else (wl[1] if wl[0] == "v" else None)

    def is_W(t):
        return t == wl or (t[0] in ("acc", "res") and t[2] == wl_name) or (t[0] == "v" and t[1] == wl_name)
    if W.has_break or W.has_return:
        chk.violation(rule3, S.where(W.node), "the work-list loop of %s has a second exit (break / return): states still queued are never expanded" % S.short,
                      expected="the loop ends only when the work list is empty", found=norm_stmt(W.node)[:80], construct="%s work-list early exit" % S.short)
        return visited_name
    # ---- roots ---------------------------------------------------------------------------------------------------------
    roots = [l for l in sx.loops.values() if l.kind == "for" and l.id not in W.inner and l.source == ("v", pr)]
    sliced = [l for l in sx.loops.values() if l.kind == "for" and l.id not in W.inner and l.source[0] == "slice" and l.source[1] == ("v", pr)]
    if sliced:
        chk.violation(rule2, S.where(sliced[0].node), "the root loop iterates `%s`, not the whole final-state list: final states outside the slice never start the search" % show(sliced[0].source),
                      expected="for <f> in %s" % pr, found=norm_stmt(sliced[0].node)[:80], construct="%s root loop sliced" % S.short)
        return visited_name
    seeded_whole = False
    if not roots:
        # the work list starts as a copy of the roots and the roots are marked in one go
        init = sx.loops[wl[1]].init.get(wl_name) if wl[0] in ("res", "acc") and wl[1] in sx.loops else None
        chk.undecided(rule2, where, "no loop over `%s` in %s that marks and queues the roots" % (pr, S.short))
        return visited_name
    R = roots[0]
    if len(roots) != 1 or not R.whole or R.has_break or R.has_return:
        chk.violation(rule2, S.where(R.node), "the root loop can skip final states (slice / break / return)", expected="every final state is a root",
                      found=norm_stmt(R.node)[:80], construct="%s root loop early exit" % S.short)
        return visited_name
    el = ("elem", R.id)
    ops = _marks_and_pushes(R, None)
    marks = [o for o in ops if o[1] is not None and is_V(o[1]) and o[3] in ("add", "append")]
    pushes = [o for o in ops if o[1] is not None and is_W(o[1])]
    unknown = [o for o in ops if o[0] is None]
    fresh = (TRUE, simp(("cmp", "notin", el, ("acc", R.id, pv))), simp(("cmp", "notin", el, V)))
    if unknown or len(marks) != 1 or len(pushes) != 1:
        chk.undecided(rule2, S.where(R.node), "the root loop of %s does not mark and queue its element in the recognised way (%d marks, %d pushes)" % (S.short, len(marks), len(pushes)))
        return visited_name
    if marks[0][2] != el or pushes[0][2] != el or marks[0][0] not in fresh or pushes[0][0] != marks[0][0] or R.cont not in (FALSE,) + tuple(simp(("not", x)) for x in fresh[1:]):
        if pushes[0][0] != marks[0][0] and marks[0][0] in fresh and pushes[0][0] in fresh and marks[0][2] == el and pushes[0][2] == el:
            chk.violation(rule2, S.where(R.node), "a root is queued under `%s` but marked under `%s`" % (show(pushes[0][0]), show(marks[0][0])),
                          expected="marked and queued together", found=norm_stmt(R.node)[:80], construct="%s root mark/push mismatch" % S.short)
        else:
            chk.undecided(rule2, S.where(R.node), "root loop: marks `%s` if `%s`, queues `%s` if `%s`" % (show(marks[0][2]), show(marks[0][0]), show(pushes[0][2]), show(pushes[0][0])))
        return visited_name
    chk.ok(rule2, S.where(R.node), "every element of `%s` (whole list, no early exit) that is not yet marked is marked and queued; the search %s runs unconditionally" % (finals, S.short))
    # ---- expansion -----------------------------------------------------------------------------------------------------
    inner = [sx.loops[i] for i in W.inner if sx.loops[i].kind == "for"]
    if len(inner) != 1:
        chk.undecided(rule3, S.where(W.node), "%d loops inside the work-list loop; expected the walk over the predecessors of the state taken off the list" % len(inner))
        return visited_name
    P = inner[0]
    src_t = _norm(P.source)
    if src_t[0] == "slice" and src_t[1][0] == "idx" and src_t[1][1] == T:
        chk.violation(rule3, S.where(P.node), "only a slice of the predecessor list `%s` is walked: some predecessor of an expanded state is never examined" % show(src_t)[:80],
                      expected="for p in table[state]: whole list", found=norm_stmt(P.node)[:80], construct="%s partial predecessor walk" % S.short)
        return visited_name
    popped = None
    if src_t[0] == "idx" and src_t[1] == T:
        k = src_t[2]
        if k[0] == "mcall" and is_W(k[1]) and k[2] in ("pop", "popleft"):
            popped = k
        elif k[0] == "acc" or k[0] == "v":
            # x = W.pop() first
            for v_, u_ in W.update.items():
                pass
            popped = None
    if popped is None:
        # a local assigned from W.pop() at the top of the iteration
        pops = [_norm(e[2]) for e in W.effects if e[1] == "call" and _norm(e[2])[0] == "mcall" and is_W(_norm(e[2])[1]) and _norm(e[2])[2] in ("pop", "popleft")]
        if src_t[0] == "idx" and src_t[1] == T and len(pops) == 1 and any(x == pops[0] for x in _subterms(src_t[2])) or (src_t[0] == "idx" and src_t[1] == T and len(pops) == 1 and src_t[2] == pops[0]):
            popped = pops[0]
    if popped is None:
        chk.undecided(rule3, S.where(P.node), "the inner loop iterates `%s`, not recognised as table[<state taken off the work list>]" % show(P.source)[:100])
        return visited_name
    n_pops = sum(1 for e in W.effects if e[1] == "call" and _norm(e[2])[0] == "mcall" and _norm(e[2])[2] in ("pop", "popleft")) + \
        sum(1 for x in _subterms(_norm(P.source)) if x[0] == "mcall" and x[2] in ("pop", "popleft"))
    if not P.whole or P.has_break or P.has_return:
        chk.violation(rule3, S.where(P.node), "the predecessors of an expanded state are walked only partially (slice / break / return): some predecessor is never examined",
                      expected="for p in table[state]: whole list", found=norm_stmt(P.node)[:80], construct="%s partial predecessor walk" % S.short)
        return visited_name
    pe = ("elem", P.id)
    ops = _marks_and_pushes(P, None)
    marks = [o for o in ops if o[1] is not None and is_V(o[1]) and o[3] in ("add", "append")]
    pushes = [o for o in ops if o[1] is not None and is_W(o[1])]
    if any(o[0] is None for o in ops) or len(marks) != 1 or len(pushes) != 1:
        if len(marks) == 0 and len(pushes) == 1:
            chk.violation(rule5, S.where(P.node), "a predecessor is put on the work list without being marked: it is queued again every time it is met (on a cycle the loop never ends)",
                          expected="mark when queued", found=norm_stmt(P.node)[:80], construct="%s push without mark" % S.short)
        else:
            chk.undecided(rule3, S.where(P.node), "the expansion loop does not mark and queue a predecessor in the recognised way (%d marks, %d pushes)" % (len(marks), len(pushes)))
        return visited_name
    fresh_p = {simp(("cmp", "notin", pe, x)) for x in (V, ("acc", P.id, pv), ("res", R.id, pv), ("acc", W.id, pv))}
    mc, pc = marks[0][0], pushes[0][0]
    if marks[0][2] != pe or pushes[0][2] != pe:
        chk.undecided(rule3, S.where(P.node), "the expansion loop marks `%s` and queues `%s`, not the predecessor itself" % (show(marks[0][2]), show(pushes[0][2])))
        return visited_name
    if mc in fresh_p and pc == mc and P.cont in (FALSE,) + tuple(simp(("not", x)) for x in fresh_p):
        chk.ok(rule3, S.where(P.node), "work list: while it is non-empty (no other exit) one state is taken off it and every predecessor in table[state] (whole list) that is not yet marked is marked and queued")
        chk.ok(rule5, S.where(P.node), "a state is queued only when it is marked (same condition `%s`): each state is expanded at most once" % show(mc))
    elif pc != mc and mc in fresh_p | {TRUE} and pc in fresh_p | {TRUE}:
        chk.violation(rule5, S.where(P.node), "a predecessor is marked under `%s` but queued under `%s`: %s" % (
            show(mc), show(pc), "states already expanded are queued again" if pc == TRUE else "a newly marked state may never be expanded"),
            expected="marked and queued together, when not yet marked", found=norm_stmt(P.node)[:80], construct="%s mark/push mismatch" % S.short)
    else:
        chk.undecided(rule3, S.where(P.node), "a predecessor is marked if `%s` and queued if `%s`: not the recognised `not yet marked` test" % (show(mc), show(pc)))
    return visited_name


def _subterms(t):
    out = []

    def walk(x):
        if isinstance(x, tuple):
            if x and isinstance(x[0], str):
                out.append(x)
            for y in x:
                walk(y)
    walk(t)
    return out
