"""Rules used by more than one property (prerequisite obligations, DESIGN section 5)."""
import ast

from ..loader import AnalysisError, attr_path, src, walk_no_nested_defs, norm_stmt, call_name
from ..pointsto import PointsTo, MUTATORS

SOLVER_MODULES = ("tad.py", "reverse_dfs.py")
GENERATOR_MODULES = ("roberta_generator.py", "stochastic_game_from_roborta_board.py")

GAME_INPUT_SCHEMA = {"rewards": ("rewards", 1), "players": ("players", 1),
                     "transition_list": ("transition_list", 2), "final_states": ("final_states", 1)}


def solver_entry(ctx):
    init = ctx.func("tad.py::StochasticGame.__init__")
    solve = ctx.func("tad.py::StochasticGame.solve")
    return init, solve


def solver_scope(ctx):
    init, solve = solver_entry(ctx)
    return ctx.cg.reachable([init, solve])


def solver_pointsto(ctx):
    if "solver_pt" not in ctx.cache:
        init, solve = solver_entry(ctx)
        binds = {p: GAME_INPUT_SCHEMA[p] for p in init.params if p in GAME_INPUT_SCHEMA}
        missing = set(GAME_INPUT_SCHEMA) - set(binds)
        if missing:
            raise AnalysisError("StochasticGame.__init__ no longer takes %s" % sorted(missing))
        ctx.cache["solver_pt"] = PointsTo(ctx, {init: binds}, funcs=[f for f in ctx.prog.funcs.values()
                                                                      if f.mod.name in SOLVER_MODULES])
    return ctx.cache["solver_pt"]


def body_effects(ctx, pt, f, body_nodes):
    """Effects and field stores executed by the given statements of f, directly or through calls.
    Returns (effects [(Effect, call chain)], stores [(FieldStore, call chain, via_receiver)])."""
    inside = set()
    for b in body_nodes:
        for n in ast.walk(b):
            inside.add(n)
    effs, stores = [], []
    for e in pt.effects:
        if e.func is f and e.node in inside:
            effs.append((e, []))
    for s in pt.field_stores:
        if s.func is f and s.node in inside:
            stores.append((s, [], attr_path(s.recv_expr)))
    for call, callees in ctx.cg.call_sites(f):
        if call not in inside:
            continue
        recv = attr_path(call.func.value) if isinstance(call.func, ast.Attribute) else None
        for g in callees:
            reach = ctx.cg.reachable([g])
            for h in reach:
                chain = ctx.cg.path(g, h) or [h]
                for e in pt.effects:
                    if e.func is h:
                        effs.append((e, [call] + chain))
                for s in pt.field_stores:
                    if s.func is h:
                        stores.append((s, [call] + chain, recv if attr_path(s.recv_expr) == "self" else None))
    return effs, stores


ALLOC_CALLS = ("list", "set", "dict", "sorted", "tuple", "deque", "collections.deque")


def is_fresh_local(ctx, f, node, recv_expr):
    """The receiver is a local name that, at `node`, can only hold an object allocated in this very
    invocation and not yet visible through the heap (allocation-site abstraction would otherwise merge it
    with objects allocated by earlier invocations)."""
    if not isinstance(recv_expr, ast.Name):
        return False
    name = recv_expr.id
    cfg = ctx.cfg(f)
    try:
        defs = cfg.defs_reaching(node, name)
    except AnalysisError:
        return False
    if not defs:
        return False
    for d in defs:
        if isinstance(d, ast.AugAssign) and isinstance(d.target, ast.Name) and d.target.id == name and isinstance(d.op, ast.Add):
            # `fresh += [...]` extends the same (still private) list object
            v = d.value
            if isinstance(v, (ast.List, ast.ListComp)) or (isinstance(v, ast.Call) and call_name(v) in ALLOC_CALLS):
                continue
            return False
        if not (isinstance(d, ast.Assign) and len(d.targets) == 1 and isinstance(d.targets[0], ast.Name)):
            return False
        v = d.value
        if not (isinstance(v, (ast.List, ast.Dict, ast.Set, ast.ListComp, ast.SetComp, ast.DictComp)) or
                (isinstance(v, ast.Call) and call_name(v) in ALLOC_CALLS)):
            return False
    # escapes that can execute between a definition and the effect
    target_stmt = cfg.stmt_of(node)
    for u in cfg.uses_of(name):
        p = u.parent
        harmless = (isinstance(p, ast.Attribute) and p.value is u) or isinstance(p, (ast.Compare, ast.Subscript)) or \
            (isinstance(p, ast.Call) and call_name(p) in ("len", "sorted", "set", "list", "sum", "min", "max", "enumerate", "zip") and u in p.args) or \
            isinstance(p, (ast.For, ast.While, ast.If, ast.comprehension, ast.UnaryOp, ast.BoolOp))
        if harmless:
            continue
        us = cfg.stmt_of(u)
        for d in defs:
            if (us is d or cfg.path_exists(d, us, avoiding=[x for x in defs if x is not d])) and \
                    (us is target_stmt or cfg.path_exists(us, target_stmt, avoiding=list(defs))):
                return False
    return True


def chain_text(f, loop, chain, node):
    parts = ["%s:%d loop over `%s`" % (f.mod.name, loop.lineno, src(loop.iter))]
    for c in chain:
        if isinstance(c, ast.AST):
            parts.append("call `%s` (line %d)" % (call_name(c), c.lineno))
        else:
            parts.append(c.short)
    return " -> ".join(parts)


def rule_iterator_invalidation(ctx, chk, rule, modules=SOLVER_MODULES):
    """No list is structurally changed or rebound while a `for` loop iterates it (C03.1)."""
    pt = solver_pointsto(ctx) if set(modules) <= set(SOLVER_MODULES) else PointsTo(ctx)
    nloops = 0
    for f in ctx.prog.all_funcs(modules):
        for loop in walk_no_nested_defs(f.node):
            if not isinstance(loop, ast.For):
                continue
            nloops += 1
            where = f.where(loop)
            it_ = loop.iter
            # filter(pred, xs) / filterfalse(pred, xs) / map(f, xs, ..) / takewhile(pred, xs): what is traversed is xs - the predicate
            # (often a bound method of the very set the body adds to: `seen.__contains__`) is consulted, not iterated
            objs = None
            if isinstance(it_, ast.Call) and call_name(it_) in ("filter", "filterfalse", "itertools.filterfalse", "map", "takewhile", "itertools.takewhile", "dropwhile",
                                                                "itertools.dropwhile") and len(it_.args) >= 2 and not it_.keywords:
                objs = set()
                for a_ in it_.args[1:]:
                    objs |= pt.underlying_iterables(a_, f)
            if objs is None:
                objs = pt.underlying_iterables(loop.iter, f)
            effs, stores = body_effects(ctx, pt, f, loop.body)
            bad = False
            for e, chain in effs:
                if e.op == "__setitem__":
                    continue  # replacing an element does not change the structure being traversed
                if is_fresh_local(ctx, e.func, e.node, e.recv_expr) and src(e.recv_expr) != src(loop.iter):
                    continue  # object allocated in this invocation, not yet reachable from the heap
                hit = objs & e.recv
                if hit:
                    bad = True
                    chk.violation(
                        rule, where,
                        "the collection being iterated is structurally modified inside the loop: %s -> `%s` (%s, %s:%d)" % (
                            chain_text(f, loop, chain, e.node), norm_stmt(e.node), e.op, e.func.mod.name, e.node.lineno),
                        expected="no in-place %s on an object the loop iterates" % e.op,
                        found="receiver `%s` may be the iterated object" % src(e.recv_expr),
                        construct="%s iterates %s while %s applies %s" % (f.short, src(loop.iter), e.func.short, e.op))
            p = attr_path(loop.iter)
            if p and "." in p:
                base, field = p.rsplit(".", 1)
                for s, chain, via in stores:
                    if s.field != field:
                        continue
                    same_recv = (via == base) if chain else (attr_path(s.recv_expr) == base)
                    if same_recv:
                        bad = True
                        chk.violation(
                            rule, where,
                            "the attribute being iterated is rebound inside the loop (the loop continues over the old object "
                            "while later operations use the new one): %s -> `%s` (%s:%d)" % (
                                chain_text(f, loop, chain, s.node), norm_stmt(s.node), s.func.mod.name, s.node.lineno),
                            expected="`%s` is not assigned while it is iterated" % p,
                            found=norm_stmt(s.node),
                            construct="%s iterates %s while %s rebinds %s" % (f.short, p, s.func.short, field))
            if not bad:
                chk.ok(rule, where, "for %s in %s: no structural mutator / rebinding reaches the iterated object (%d effect(s), %d store(s) examined)" % (
                    src(loop.target), src(loop.iter), len(effs), len(stores)))
    return nloops


def rule_input_ownership(ctx, chk, rule):
    """No in-place mutator reachable from solve() has a receiver that may be an input object (C10.1)."""
    pt = solver_pointsto(ctx)
    scope = solver_scope(ctx)
    n = 0
    ok = True
    for e in pt.effects:
        if e.func not in scope:
            continue
        n += 1
        hit = sorted(o for o in e.recv if pt.is_input(o))
        if hit:
            ok = False
            names = ", ".join("IN.%s%s" % (o[1], "[*]" * o[2]) for o in hit)
            path = ctx.cg.path(solver_entry(ctx)[1], e.func) or ctx.cg.path(solver_entry(ctx)[0], e.func) or [e.func]
            chk.violation(
                rule, e.func.where(e.node),
                "in-place `%s` on `%s`, which may be the caller's %s; reached through %s" % (
                    e.op, src(e.recv_expr), names, " -> ".join(x.short for x in path)),
                expected="solve() never mutates an object passed to StochasticGame(...)",
                found=norm_stmt(e.node),
                construct="%s applies %s to alias of %s" % (e.func.short, e.op, names))
        else:
            chk.ok(rule, e.func.where(e.node), "`%s`: receiver `%s` -> %s" % (
                e.op, src(e.recv_expr), "fresh objects only" if e.recv else "no container object"))
    for g, call in getattr(pt, "unresolved", ()):
        if g in scope:
            ok = False
            chk.undecided(rule, g.where(call), "`%s` hands (part of) the caller's description to a callable picked at run time that is not resolved: "
                          "whether an alias of it is kept and later modified is not known" % src(call)[:80])
    if ok:
        chk.note("%s: %d in-place operations reachable from StochasticGame.__init__/solve, none on an input alias; "
                 "transient constructor stores: %s" % (rule, n, sorted(pt.transient_readers)))
    return n


def rule_no_recursion(ctx, chk, rule, roots, what):
    scope = ctx.cg.reachable(roots)
    cyc = ctx.cg.cycles(scope)
    # functions defined inside a function call each other by local name: cycles among those
    nested_cyc = []
    for f in scope:
        inner = {d.name: d for d in ast.walk(f.node) if isinstance(d, (ast.FunctionDef, ast.AsyncFunctionDef)) and d is not f.node}
        for st in ast.walk(f.node):
            if isinstance(st, ast.Assign) and len(st.targets) == 1 and isinstance(st.targets[0], ast.Name) and isinstance(st.value, ast.Lambda):
                inner[st.targets[0].id] = st.value
        if not inner:
            continue
        edges = {nm: {c.func.id for c in ast.walk(d) if isinstance(c, ast.Call) and isinstance(c.func, ast.Name) and c.func.id in inner} |
                     {a.id for c in ast.walk(d) if isinstance(c, ast.Call) for a in c.args if isinstance(a, ast.Name) and a.id in inner} for nm, d in inner.items()}
        for nm in inner:
            seen, todo = set(), list(edges[nm])
            while todo:
                g = todo.pop()
                if g in seen:
                    continue
                seen.add(g)
                todo.extend(edges[g])
            if nm in seen:
                nested_cyc.append((f, nm, inner[nm]))
    for f, nm, d in nested_cyc:
        chk.violation(rule, f.where(d), "`%s` (defined inside %s) calls itself: recursion depth grows with the size of the game graph "
                      "(the interpreter's recursion limit is about 1000 frames)" % (nm, f.short),
                      expected="no recursion reachable from %s" % what, found="local function %s is recursive" % nm, construct="%s.%s recursive" % (f.short, nm))
    if nested_cyc and not cyc:
        return len(scope)
    if cyc:
        for f in cyc:
            chk.violation(rule, f.where(), "%s lies on a call cycle: recursion depth grows with the size of the game graph "
                          "(the interpreter's recursion limit is about 1000 frames)" % f.short,
                          expected="no recursion reachable from %s" % what, found="call cycle through %s" % f.short,
                          construct="%s recursive" % f.short)
    else:
        chk.ok(rule, roots[0].where(), "call graph reachable from %s: %d functions, acyclic" % (what, len(scope)))
    return len(scope)


def init_states_table(ctx):
    """Scenario table of StochasticGame.init_states: for each player kind (and an unknown one) and for an empty /
    non-empty transition list, what one iteration of the construction loop appends.
    Returns dict(loop=L, var=v, rows={(player, nonempty): term}, sx=sx, f=f) or raises AnalysisError."""
    from ..symx import SymX, subst, simp, assume_deep, deep_simp, C, TRUE, FALSE
    if "init_states_table" in ctx.cache:
        return ctx.cache["init_states_table"]
    f = ctx.func("tad.py::StochasticGame.init_states")
    sx = SymX(ctx, f, "StochasticGame", inline_depth=2).run()
    loops = [l for l in sx.loops.values() if l.kind == "for" and l.source[0] == "call" and l.source[1] == "zip"]
    if len(loops) != 1:
        raise AnalysisError("init_states: %d loops over zip(...)" % len(loops))
    L = loops[0]
    cands = [v for v in L.update if L.init.get(v) == ("list", ())]
    if len(cands) != 1:
        raise AnalysisError("init_states: node list variable not identified")
    v = cands[0]
    u = L.update[v]
    elem = ("elem", L.id)
    player_t, trans_t = simp(("idx", elem, C(0))), simp(("idx", elem, C(1)))
    rows = {}
    for P in list(ctx.cg.player_class) + ["<unknown player>"]:
        for nonempty in (True, False):
            t = deep_simp(subst(u, lambda x: C(P) if x == player_t else None))
            t = assume_deep(t, ("truthy", trans_t), nonempty)
            t = assume_deep(t, simp(("cmp", "==", C(0), ("call", "len", (trans_t,), ()))), not nonempty)
            # table look-ups with the scenario's constant key: {P1: K1, ...}[P] and `P in {...}`
            def _tab(x):
                if x[0] == "idx" and x[1][0] == "dict" and x[2][0] == "c":
                    y = simp(x)
                    return y if y != x else None
                if x[0] == "cmp" and x[1] in ("in", "notin") and x[2][0] == "c" and x[3][0] in ("dict", "list", "tup", "set") \
                        and all(k[0] == "c" for k in ([k for k, _ in x[3][1]] if x[3][0] == "dict" else x[3][1])):
                    keys = [k for k, _ in x[3][1]] if x[3][0] == "dict" else list(x[3][1])
                    return C((x[2] in keys) == (x[1] == "in"))
                return None
            t = subst(t, _tab)
            # class-valued applications: apply(('v', Class), args) == call Class(args); apply(None) impossible branches vanish
            t = subst(t, lambda x: ("call", x[1][1], x[2], x[3]) if x[0] == "apply" and x[1][0] == "v" and x[1][1] in ctx.prog.classes else None)
            for _ in range(3):
                t = subst(t, lambda x: (x[2] if x[1][1] else x[3]) if x[0] == "ite" and x[1][0] == "c" and isinstance(x[1][1], bool) else None)
                t = subst(t, lambda x: C(x[2] == x[3] if x[1] in ("==", "is") else x[2] != x[3]) if x[0] == "cmp" and x[1] in ("==", "!=", "is", "isnot")
                          and all(y[0] == "v" and y[1] in ctx.prog.classes or y == C(None) for y in (x[2], x[3])) and (x[2][0] == "v" or x[3][0] == "v") else None)
            t = deep_simp(t)
            t = deep_simp(assume_deep(t, ("truthy", trans_t), nonempty))
            # an instance just constructed is not None
            t = deep_simp(subst(t, lambda x: C(x[1] in ("isnot", "!=")) if x[0] == "cmp" and x[1] in ("is", "isnot", "==", "!=") and C(None) in (x[2], x[3])
                                and any(y[0] == "call" and y[1] in ctx.prog.classes for y in (x[2], x[3])) else None))
            rows[(P, nonempty)] = t
    out = dict(loop=L, var=v, rows=rows, sx=sx, f=f, elem=elem)
    ctx.cache["init_states_table"] = out
    return out


def _numeric_names(f):
    """Local names / parameters of f that positively hold numbers: counters of range loops, and names that are added to /
    subtracted from / divided by a number somewhere in f (a list or an object there would raise TypeError)."""
    names = set()
    for x in walk_no_nested_defs(f.node):
        if isinstance(x, (ast.For, ast.comprehension)) and isinstance(x.iter, ast.Call) and call_name(x.iter) == "range" and isinstance(x.target, ast.Name):
            names.add(x.target.id)

    def numeric(e):
        if isinstance(e, ast.Constant):
            return isinstance(e.value, (int, float)) and not isinstance(e.value, bool)
        if isinstance(e, ast.Name):
            return e.id in names
        if isinstance(e, ast.UnaryOp) and isinstance(e.op, ast.USub):
            return numeric(e.operand)
        if isinstance(e, ast.BinOp):
            if isinstance(e.op, (ast.Sub, ast.Div, ast.FloorDiv, ast.Mod, ast.Pow)):
                return numeric(e.left) or numeric(e.right)
            if isinstance(e.op, ast.Add):
                return numeric(e.left) or numeric(e.right)
            if isinstance(e.op, ast.Mult):
                return numeric(e.left) and numeric(e.right)
        if isinstance(e, ast.Call) and call_name(e) in ("len", "int", "float", "round", "abs"):
            return True
        return False
    changed = True
    while changed:
        changed = False
        for x in walk_no_nested_defs(f.node):
            new = set()
            if isinstance(x, ast.BinOp) and isinstance(x.op, (ast.Add, ast.Sub, ast.Div, ast.FloorDiv, ast.Mod)) and numeric(x):
                # every operand of a numeric sum / difference is a number
                todo = [x]
                while todo:
                    y = todo.pop()
                    if isinstance(y, ast.BinOp) and isinstance(y.op, (ast.Add, ast.Sub)):
                        todo += [y.left, y.right]
                    elif isinstance(y, ast.Name):
                        new.add(y.id)
            if isinstance(x, ast.Assign) and len(x.targets) == 1 and isinstance(x.targets[0], ast.Name) and numeric(x.value):
                new.add(x.targets[0].id)
            if new - names:
                names |= new
                changed = True
    return names


def identity_on_values(ctx, chk, rule, modules):
    """`x is y` / `x is not y` where neither side is None / True / False / Ellipsis / a class: identity of numbers and strings
    is an implementation detail (CPython shares ints only from -5 to 256), so the test silently changes its answer with the
    size of the values.  Returns the number of such comparisons."""
    n = 0
    for f in ctx.prog.all_funcs(modules):
        numeric_names = _numeric_names(f)
        for c in walk_no_nested_defs(f.node):
            if not isinstance(c, ast.Compare):
                continue
            operands = [c.left] + list(c.comparators)
            for op, a, b in zip(c.ops, operands, operands[1:]):
                if not isinstance(op, (ast.Is, ast.IsNot)):
                    continue
                def singleton(x):
                    return (isinstance(x, ast.Constant) and (x.value is None or x.value is True or x.value is False or x.value is Ellipsis)) \
                        or (isinstance(x, ast.Name) and (x.id in ctx.prog.classes or x.id in ("NotImplemented",)))
                if singleton(a) or singleton(b):
                    continue

                def sentinel(x):
                    # a module-level (or local) name bound to `object()`: made to be compared by identity, equal to nothing else
                    if not isinstance(x, ast.Name):
                        return False
                    v = f.mod.consts.get(x.id)
                    if v is None:
                        for st_ in f.mod.tree.body:
                            if isinstance(st_, ast.Assign) and any(isinstance(t_, ast.Name) and t_.id == x.id for t_ in st_.targets):
                                v = st_.value
                    return isinstance(v, ast.Call) and call_name(v) == "object" and not v.args
                if sentinel(a) or sentinel(b):
                    continue

                def value_typed(x):
                    # positively a number / string / tuple value (not an object whose identity means something): a literal, arithmetic,
                    # or the result of a builtin that makes numbers / strings
                    if isinstance(x, ast.Constant):
                        return isinstance(x.value, (int, float, complex, str, bytes))
                    if isinstance(x, ast.UnaryOp) and isinstance(x.op, (ast.USub, ast.UAdd)):
                        return value_typed(x.operand)
                    if isinstance(x, (ast.BinOp, ast.JoinedStr, ast.Tuple)):
                        return True
                    if isinstance(x, ast.Call) and call_name(x) in ("len", "int", "float", "str", "round", "abs", "sum", "min", "max", "repr", "tuple", "math.floor", "math.ceil"):
                        return True
                    if isinstance(x, ast.Name) and x.id in numeric_names:
                        return True
                    if isinstance(x, ast.Name) and x.id in f.mod.consts and isinstance(f.mod.consts[x.id], ast.Constant) and \
                            isinstance(f.mod.consts[x.id].value, (int, float, str)) and not isinstance(f.mod.consts[x.id].value, bool):
                        return True
                    return False
                if not (value_typed(a) or value_typed(b)):
                    continue          # identity of objects (nodes, types, sentinels) is a legitimate question
                n += 1
                chk.violation(rule, f.where(c), "`%s` compares identity, not value: equal numbers / strings are the same object only by accident of the interpreter "
                              "(small integers up to 256), so the branch taken depends on the size of the operands" % src(c),
                              expected="== / !=", found=src(c), construct="%s identity comparison" % f.short)
    return n


def solver_names(ctx):
    """Names that the rules must not hard-code (a maintainer may rename them): the local variable of solve() that holds the
    node list, the Solver field that stores it, and the game field that stores the prune flag.
    Returns dict(var=..., field=..., flag_field=..., flag_param=...); falls back to the names of the pinned tree."""
    if "solver_names" in ctx.cache:
        return ctx.cache["solver_names"]
    out = {"var": "state_list", "field": "state_list", "flag_field": "prune_states", "flag_param": "prune_states"}
    try:
        init, solve = solver_entry(ctx)
        # state_list = self.init_states()
        for st in walk_no_nested_defs(solve.node):
            if isinstance(st, ast.Assign) and len(st.targets) == 1 and isinstance(st.targets[0], ast.Name) and isinstance(st.value, ast.Call) \
                    and isinstance(st.value.func, ast.Attribute) and st.value.func.attr == "init_states":
                out["var"] = st.targets[0].id
        # Solver(<param>=state_list) -> self.<field> = <param>
        sinit = ctx.prog.resolve_method("Solver", "__init__")
        param = None
        for c in walk_no_nested_defs(solve.node):
            if isinstance(c, ast.Call) and isinstance(c.func, ast.Name) and c.func.id == "Solver":
                ps = [p for p in sinit.params if p != "self"]
                for i, a in enumerate(c.args):
                    if (isinstance(a, ast.Name) and a.id == out["var"]) or (isinstance(a, ast.Call) and isinstance(a.func, ast.Attribute) and a.func.attr == "init_states"):
                        param = ps[i] if i < len(ps) else None
                for k in c.keywords:
                    a = k.value
                    if (isinstance(a, ast.Name) and a.id == out["var"]) or (isinstance(a, ast.Call) and isinstance(a.func, ast.Attribute) and a.func.attr == "init_states"):
                        param = k.arg
        if param is not None and sinit is not None:
            for st in walk_no_nested_defs(sinit.node):
                if isinstance(st, ast.Assign) and len(st.targets) == 1 and isinstance(st.targets[0], ast.Attribute) and attr_path(st.targets[0]) \
                        and attr_path(st.targets[0]).startswith("self.") and isinstance(st.value, ast.Name) and st.value.id == param:
                    out["field"] = st.targets[0].attr
        # self.<flag_field> = <flag_param>  (the constructor parameter with a boolean default, named like the pruning flag)
        flags = [p for p in init.params if "prune" in p]
        if not flags:
            flags = [p for p, d in init.defaults.items() if isinstance(d, ast.Constant) and isinstance(d.value, bool)]
        if flags:
            out["flag_param"] = flags[0]
            for st in walk_no_nested_defs(init.node):
                if isinstance(st, ast.Assign) and len(st.targets) == 1 and isinstance(st.targets[0], ast.Attribute) and isinstance(st.value, ast.Name) \
                        and st.value.id == flags[0] and attr_path(st.targets[0]) and attr_path(st.targets[0]).startswith("self."):
                    out["flag_field"] = st.targets[0].attr
    except AnalysisError:
        pass
    ctx.cache["solver_names"] = out
    return out


def SLIST(ctx):
    """The term `self.<node list field>` inside Solver methods."""
    return ("attr", ("v", "self"), solver_names(ctx)["field"])


GAME_CORE_FIELDS = ("rewards", "players", "transition_list", "final_states", "prune_states", "num_states")


def _written_elsewhere(ctx, ctor):
    """Attribute names that may be stored on an object of ctor's class outside ctor: `self.x = ...` in another method of the class
    (or of a class related to it by inheritance), `other.x = ...` through any receiver that is not `self`, anywhere."""
    family = set(ctx.prog.mro(ctor.cls.name)) | set(ctx.prog.subclasses(ctor.cls.name))
    out = set()
    for g in ctx.prog.all_funcs():
        if g is ctor:
            continue
        for n in walk_no_nested_defs(g.node):
            if isinstance(n, ast.Attribute) and isinstance(n.ctx, (ast.Store, ast.Del)):
                via_self = isinstance(n.value, ast.Name) and n.value.id == "self" and g.cls is not None
                if not via_self or g.cls.name in family:
                    out.add(n.attr)
            elif isinstance(n, ast.Call) and call_name(n) in ("setattr", "delattr"):
                raise AnalysisError("setattr in %s: field constants are not established" % g.short)
    return out


def game_option_consts(ctx):
    """{field: constant} for fields of StochasticGame that its constructor copies from an OPTIONAL parameter the documented game
    description does not have (`initial_state=0`, `max_iterations=None`): the property speaks about the documented description,
    i.e. about these options at their defaults.  Fields written anywhere else are left out."""
    if "game_option_consts" in ctx.cache:
        return ctx.cache["game_option_consts"]
    out = {}
    try:
        init, _ = solver_entry(ctx)
        written_elsewhere = _written_elsewhere(ctx, init)
        stores = {}
        for st in walk_no_nested_defs(init.node):
            if isinstance(st, ast.Attribute) and isinstance(st.ctx, ast.Store) and attr_path(st) == "self." + st.attr:
                stores.setdefault(st.attr, []).append(st)
        for st in init.node.body:
            if isinstance(st, ast.Assign) and len(st.targets) == 1 and isinstance(st.targets[0], ast.Attribute) and attr_path(st.targets[0]) == "self." + st.targets[0].attr \
                    and isinstance(st.value, ast.Name) and st.value.id in init.defaults and st.value.id not in GAME_INPUT_SCHEMA and st.value.id != "prune_states":
                fld = st.targets[0].attr
                if fld in written_elsewhere or fld in GAME_CORE_FIELDS or len(stores.get(fld, [])) != 1:
                    continue
                # the parameter itself is not reassigned before
                if any(isinstance(n, ast.Name) and n.id == st.value.id and isinstance(n.ctx, ast.Store) for n in walk_no_nested_defs(init.node)):
                    continue
                ok, v = ctx.prog.try_const(init.defaults[st.value.id], init.mod)
                if ok and isinstance(v, (int, float, str, bool, type(None))):
                    out[fld] = v
    except AnalysisError:
        pass
    ctx.cache["game_option_consts"] = out
    return out


def option_field_consts(ctx, cls_name):
    """Option fields (not the documented core) of the game / the solver that are constants in the documented configuration."""
    if cls_name == "StochasticGame":
        return game_option_consts(ctx)
    if cls_name == "Solver":
        core = ("threshold", "floor", solver_names(ctx).get("field"))
        return {k: v for k, v in solver_field_consts(ctx).items() if k not in core}
    return {}


def solver_field_consts(ctx):
    """{field: constant} for Solver fields that the constructor sets to a compile-time constant, given the one construction site
    in StochasticGame.solve (explicit arguments or defaults) - e.g. an optional `max_iterations=None` that nobody passes.
    Fields assigned anywhere else are left out."""
    if "solver_field_consts" in ctx.cache:
        return ctx.cache["solver_field_consts"]
    out = {}
    try:
        init, solve = solver_entry(ctx)
        sinit = ctx.prog.resolve_method("Solver", "__init__")
        ctor = [c for c in walk_no_nested_defs(solve.node) if isinstance(c, ast.Call) and isinstance(c.func, ast.Name) and c.func.id == "Solver"]
        if sinit is not None and len(ctor) == 1:
            c = ctor[0]
            ps = [p for p in sinit.params if p != "self"]
            env = {}
            bound = dict(zip(ps, c.args))
            bound.update({k.arg: k.value for k in c.keywords if k.arg})
            for p_ in ps + sinit.kwonly:
                node = bound.get(p_, sinit.defaults.get(p_))
                if node is None:
                    continue
                ok, v = ctx.prog.try_const(node, solve.mod if p_ in bound else sinit.mod)
                if not ok and p_ in bound and isinstance(node, ast.Attribute) and attr_path(node) == "self." + node.attr and node.attr in game_option_consts(ctx):
                    ok, v = True, game_option_consts(ctx)[node.attr]         # an option of the game at its default
                if ok:
                    env[p_] = v
            written_elsewhere = _written_elsewhere(ctx, sinit)
            for st in walk_no_nested_defs(sinit.node):
                if isinstance(st, ast.Assign) and len(st.targets) == 1 and isinstance(st.targets[0], ast.Attribute) and attr_path(st.targets[0]) \
                        and attr_path(st.targets[0]).startswith("self."):
                    fld = st.targets[0].attr
                    if fld in written_elsewhere:
                        continue
                    val_ = st.value
                    # `self.x = check_x(x)`: a validator that hands its argument back on every return
                    if isinstance(val_, ast.Call) and isinstance(val_.func, ast.Name) and len(val_.args) == 1 and not val_.keywords and val_.func.id in sinit.mod.funcs:
                        h_ = sinit.mod.funcs[val_.func.id]
                        hp_ = [p_ for p_ in h_.params]
                        rets_ = [r_ for r_ in walk_no_nested_defs(h_.node) if isinstance(r_, ast.Return)]
                        def _hands_back(r_):
                            if isinstance(r_.value, ast.Name) and r_.value.id == hp_[0]:
                                return True
                            par_ = getattr(r_, "parent", None)       # `if x is None: return` hands back None, which is x
                            return (r_.value is None or (isinstance(r_.value, ast.Constant) and r_.value.value is None)) and isinstance(par_, ast.If) \
                                and isinstance(par_.test, ast.Compare) and len(par_.test.ops) == 1 and isinstance(par_.test.ops[0], ast.Is) \
                                and isinstance(par_.test.left, ast.Name) and par_.test.left.id == hp_[0] \
                                and isinstance(par_.test.comparators[0], ast.Constant) and par_.test.comparators[0].value is None and r_ in par_.body
                        if len(hp_) == 1 and rets_ and all(_hands_back(r_) for r_ in rets_) and isinstance(h_.node.body[-1], ast.Return) \
                                and not any(isinstance(n_, ast.Name) and isinstance(n_.ctx, ast.Store) and n_.id == hp_[0] for n_ in walk_no_nested_defs(h_.node)):
                            val_ = val_.args[0]
                    ok, v = ctx.prog.try_const(val_, sinit.mod, env)
                    if ok and isinstance(v, (int, float, str, bool, type(None))):
                        out[fld] = v
    except AnalysisError:
        pass
    ctx.cache["solver_field_consts"] = out
    return out


def solver_search_fields(ctx):
    """(fields of the solver that hold the backward search's result, fields that hold the final-state list): assigned in a
    Solver method from a local whose only definitions are `reverse_dfs(...)` calls / from a parameter named like the finals."""
    if "solver_search_fields" in ctx.cache:
        return ctx.cache["solver_search_fields"]
    reach_f, final_f = set(), set()
    for m in ctx.prog.classes["Solver"].methods.values():
        cfg_m = None
        for st_ in walk_no_nested_defs(m.node):
            val_ = getattr(st_, "value", None)
            while isinstance(val_, ast.Call) and call_name(val_) in ("set", "frozenset", "list", "tuple", "sorted") and len(val_.args) == 1 and not val_.keywords:
                val_ = val_.args[0]
            if isinstance(st_, ast.Assign) and len(st_.targets) == 1 and isinstance(st_.targets[0], ast.Attribute) and attr_path(st_.targets[0]) \
                    and attr_path(st_.targets[0]).startswith("self.") and isinstance(val_, ast.Name):
                fld = st_.targets[0].attr
                cfg_m = cfg_m or ctx.cfg(m)
                defs = cfg_m.defs_reaching(st_, val_.id)
                if defs and all(isinstance(d, ast.Assign) and isinstance(d.value, ast.Call) and call_name(d.value) == "reverse_dfs" for d in defs):
                    reach_f.add(fld)
                elif (not defs or all(isinstance(d, str) for d in defs)) and val_.id in m.params and "final" in val_.id:
                    final_f.add(fld)
    ctx.cache["solver_search_fields"] = (reach_f, final_f)
    return reach_f, final_f


def restorers(ctx):
    """Node methods that only put fields back to what the constructor set them to (`reset`): every statement is
    `self.F = <the expression the constructor assigns to self.F>`, or `self.next_states = list(self.S)` with S a snapshot of the
    transition list taken in the constructor, or a call of another restorer.  {Func: set of restored fields}."""
    if "restorers" in ctx.cache:
        return ctx.cache["restorers"]
    from . import kernels as K
    out = {}
    classes = set()
    for c in K.role_classes(ctx).values():
        classes.update(ctx.prog.mro(c))
    norm = lambda e: ast.dump(e, annotate_fields=False)
    for cn in sorted(classes):
        cls = ctx.prog.classes.get(cn)
        if cls is None:
            continue
        ctor_vals, snaps = {}, set()
        for c2 in ctx.prog.mro(cn):
            ini = ctx.prog.classes[c2].methods.get("__init__") if c2 in ctx.prog.classes else None
            if ini is None:
                continue
            # `self.p = p`: later uses of the parameter p in the constructor are uses of the field
            as_field = {st.value.id for st in walk_no_nested_defs(ini.node) if isinstance(st, ast.Assign) and isinstance(st.value, ast.Name) and st.value.id in ini.params
                        and any(isinstance(t, ast.Attribute) and attr_path(t) == "self." + st.value.id for t in st.targets)}
            rebound = {n_.id for n_ in walk_no_nested_defs(ini.node) if isinstance(n_, ast.Name) and isinstance(n_.ctx, ast.Store)}

            class _P(ast.NodeTransformer):
                def visit_Name(self, n_):
                    if isinstance(n_.ctx, ast.Load) and n_.id in as_field and n_.id not in rebound:
                        return ast.Attribute(value=ast.Name(id="self", ctx=ast.Load()), attr=n_.id, ctx=ast.Load())
                    return n_
            import copy as _copy
            for st in walk_no_nested_defs(ini.node):
                if isinstance(st, ast.Assign):
                    for t in st.targets:
                        if isinstance(t, ast.Attribute) and attr_path(t) == "self." + t.attr:
                            ctor_vals.setdefault(t.attr, set()).add(norm(st.value))
                            ctor_vals[t.attr].add(norm(_P().visit(_copy.deepcopy(st.value))))
                            v = st.value
                            if isinstance(v, ast.Call) and call_name(v) in ("tuple", "list") and len(v.args) == 1 and src(v.args[0]) in ("self.next_states", "next_states"):
                                snaps.add(t.attr)
        for m in cls.methods.values():
            if m.name == "__init__":
                continue
            body = [b for b in m.node.body if not (isinstance(b, ast.Expr) and isinstance(b.value, ast.Constant))]
            fields, ok = set(), bool(body)
            for b in body:
                if isinstance(b, ast.Assign) and len(b.targets) == 1 and isinstance(b.targets[0], ast.Attribute) and attr_path(b.targets[0]) == "self." + b.targets[0].attr:
                    F = b.targets[0].attr
                    v = b.value
                    if norm(v) in ctor_vals.get(F, ()):
                        fields.add(F)
                        continue
                    if F == "next_states" and isinstance(v, ast.Call) and call_name(v) == "list" and len(v.args) == 1 and isinstance(v.args[0], ast.Attribute) \
                            and attr_path(v.args[0]) and attr_path(v.args[0]).startswith("self.") and v.args[0].attr in snaps:
                        fields.add(F)
                        continue
                ok = False
                break
            if ok and fields:
                out[m] = fields
    ctx.cache["restorers"] = out
    return out


SWEPT_FIELDS = ("expected_rewards", "expected_rewards_min_reach", "expected_reach_min_rewards")


def rule_no_sweep_memo(ctx, chk, rule):
    """`if self._x is None: self._x = <choice made from the successors' current values>` in a node method: the choice is made in
    the first sweep - when the values are still the one-step rewards - and kept, while the values it was made from change in every
    sweep.  (A memo of something that no longer changes - the reachability strategies after the reachability phase - is not this.)"""
    from . import kernels as K
    roles = K.role_classes(ctx)
    classes = set()
    for c in roles.values():
        classes.update(ctx.prog.mro(c))
    n = hits = 0
    for cn in sorted(classes):
        cls = ctx.prog.classes.get(cn)
        if cls is None:
            continue
        for m in cls.methods.values():
            if m.name == "__init__":
                continue
            for iff in walk_no_nested_defs(m.node):
                if not (isinstance(iff, ast.If) and isinstance(iff.test, ast.Compare) and len(iff.test.ops) == 1 and isinstance(iff.test.ops[0], (ast.Is, ast.Eq))
                        and isinstance(iff.test.comparators[0], ast.Constant) and iff.test.comparators[0].value is None
                        and isinstance(iff.test.left, ast.Attribute) and attr_path(iff.test.left) and attr_path(iff.test.left).startswith("self.")):
                    continue
                fld = iff.test.left.attr
                for st in iff.body:
                    if isinstance(st, ast.Assign) and any(isinstance(t, ast.Attribute) and attr_path(t) == "self." + fld for t in st.targets):
                        n += 1
                        read = sorted({x.attr for x in ast.walk(st.value) if isinstance(x, ast.Attribute) and x.attr in SWEPT_FIELDS})
                        # reset anywhere outside the constructors?
                        resets = [g for g in ctx.prog.all_funcs(("tad.py",)) if g.name != "__init__" and g is not m and any(
                            isinstance(a, ast.Assign) and any(isinstance(t, ast.Attribute) and t.attr == fld for t in a.targets) for a in walk_no_nested_defs(g.node))]
                        if read and not resets:
                            hits += 1
                            chk.violation(rule, m.where(st), "`self.%s` is chosen once (`if self.%s is None`) from the successors' `%s`, which every sweep changes: the choice made in the first "
                                          "sweep (from the one-step values) is kept for all later ones" % (fld, fld, read[0]), expected="recomputed in every sweep",
                                          found=norm_stmt(st)[:100], construct="%s memoises a choice made from swept values" % m.short)
    if not hits:
        chk.ok(rule, "tad.py", "%d lazily initialised node field(s): none keeps a choice made from values that the sweeps change" % n)


def rule_node_keeps_transitions(ctx, chk, rule):
    """A node starts from exactly the transition list it is given (the list itself or a copy of it): a constructor that
    filters or rewrites the list changes the game before anything is solved (an action named "" or a probability 0 is still a
    transition)."""
    from ..symx import SymX, show, TRUE
    from . import kernels as K
    roles = K.role_classes(ctx)
    n = 0
    classes_all = set()
    for c_ in roles.values():
        classes_all.update(ctx.prog.mro(c_))
    for cls in sorted(set(roles.values())):
        ctor = ctx.prog.resolve_method(cls, "__init__")
        if ctor is None:
            continue
        sx = SymX(ctx, ctor, cls, inline_depth=4).run()
        stores = [e for e in sx.final.effects if e[1] == "store" and e[3] == "next_states" and e[2] == ("v", "self")]
        if not stores:
            chk.undecided(rule, ctor.where(), "%s.__init__ does not store next_states" % cls)
            continue
        # options of the constructor that no construction site sets (`drop_repeated_entries=False`) are at their defaults
        from ..symx import subst as _subst, deep_simp as _deep_simp, C as _C, FALSE as _FALSE
        unset = {}
        passed_somewhere = set()
        for g_ in ctx.prog.all_funcs(("tad.py",)):
            for call_ in walk_no_nested_defs(g_.node):
                if isinstance(call_, ast.Call) and (call_name(call_) in classes_all or (isinstance(call_.func, ast.Attribute) and call_.func.attr == "__init__")):
                    forwarded = lambda a_, name_: isinstance(a_, ast.Name) and a_.id == name_ and name_ in g_.defaults      # handing one's own option on
                    passed_somewhere |= {k.arg for k in call_.keywords if k.arg and not forwarded(k.value, k.arg)}
                    cp_ = [q_ for q_ in ctor.params if q_ != "self"]
                    for i_, a_ in enumerate(call_.args):
                        if i_ >= 6 and i_ < len(cp_) and not forwarded(a_, cp_[i_]):
                            passed_somewhere.add(cp_[i_])
        for p_, d_ in ctor.defaults.items():
            if p_ not in passed_somewhere and isinstance(d_, ast.Constant) and p_ != "is_final_node":
                unset[("v", p_)] = _C(d_.value)
        if unset:
            def _fold(c_):
                c_ = _subst(c_, lambda x: unset.get(x))
                c_ = _subst(c_, lambda x: _C(bool(x[1][1])) if x[0] == "truthy" and x[1][0] == "c" else None)
                return _deep_simp(c_)
            stores = [(_fold(e[0]),) + tuple(e[1:]) for e in stores]
        stores = [e for e in stores if e[0] != _FALSE] or stores
        cond, _, _, _, val = stores[-1]
        pname = [p for p in ctor.params if "next" in p]
        param = ("v", pname[0]) if pname else None

        def same_list(t, depth=0):
            """True / text of the deviation / None"""
            if depth > 4:
                return None
            if t == param:
                return True
            if t[0] == "call" and t[1] in ("list", "copy.copy", "copy.deepcopy") and len(t[2]) == 1:
                return same_list(t[2][0], depth + 1)
            if t[0] == "mcall" and t[2] == "copy" and not t[3]:
                return same_list(t[1], depth + 1)
            if t[0] == "slice" and t[2:] == (("c", None), ("c", None), ("c", None)):
                return same_list(t[1], depth + 1)
            # duplicates removed: list(dict.fromkeys(xs)), list(set(xs)), sorted(set(xs)) - two equal `(p, target)` entries of a
            # probabilistic state are two shares of its probability mass, and the generator writes such states (width 1)
            if t[0] == "call" and t[1] in ("set", "frozenset", "dict.fromkeys", "OrderedDict.fromkeys", "collections.OrderedDict.fromkeys") and t[2] \
                    and same_list(t[2][0], depth + 1) is True:
                return "drops repeated transitions (`%s`): a probabilistic state that lists the same (probability, target) pair twice loses that share of its probability mass" % show(t)[:50]
            if t[0] == "mcall" and t[2] == "fromkeys" and t[3] and same_list(t[3][0], depth + 1) is True:
                return "drops repeated transitions (`%s`): a probabilistic state that lists the same (probability, target) pair twice loses that share of its probability mass" % show(t)[:50]
            if t[0] == "call" and t[1] in ("list", "tuple", "sorted") and len(t[2]) == 1 and isinstance(same_list(t[2][0], depth + 1), str):
                return same_list(t[2][0], depth + 1)
            if t[0] == "compr" and t[1] in sx.loops:
                L = sx.loops[t[1]]
                inner = same_list(L.source, depth + 1)
                if inner is not True:
                    return inner
                if L.filters:
                    return "keeps only the transitions with `%s`" % show(L.filters[0] if len(L.filters) == 1 else ("and", tuple(L.filters)))
                if L.elt != ("elem", L.id) and L.elt != ("tup", (("idx", ("elem", L.id), ("c", 0)), ("idx", ("elem", L.id), ("c", 1)))) \
                        and L.elt != ("call", "tuple", (("elem", L.id),), ()):
                    return "rewrites every transition as `%s`" % show(L.elt)
                return True if L.whole else "takes a slice of the list"
            return None
        v = same_list(val)
        n += 1
        if v is True and cond == TRUE:
            chk.ok(rule, ctor.where(), "%s starts from the transition list it is given (`%s`)" % (cls, show(val)[:60]))
        elif v is None or cond != TRUE:
            chk.undecided(rule, ctor.where(), "%s.__init__ stores next_states := `%s`%s; not recognised as the given list or a copy of it" % (
                cls, show(val)[:100], "" if cond == TRUE else " under `%s`" % show(cond)[:60]))
        else:
            chk.violation(rule, ctor.where(), "%s.__init__ %s: the node does not start from the game's transition list (an action named \"\" or a probability 0 "
                          "is still a transition - successors, strategies and the backward search disagree afterwards)" % (cls, v),
                          expected="self.next_states = list(next_states)", found=show(val)[:140], construct="%s constructor rewrites next_states" % cls)
    return n


ITER_MAKERS = ("filter", "map", "zip", "iter", "reversed", "enumerate", "itertools.chain", "itertools.chain.from_iterable", "itertools.islice")
CONSUMERS = ("list", "tuple", "set", "frozenset", "sorted", "sum", "max", "min", "any", "all", "dict", "next", "len")


def rule_single_use_iterators(ctx, chk, rule, modules=None):
    """A lazy iterator (filter / map / zip / generator expression / generator function) can be walked once.  A local that holds
    one and is consumed at two places - iterated, or handed to a function that iterates that parameter - gives the second
    consumer nothing.  Returns the number of iterator-valued locals examined."""
    modules = modules or SOLVER_MODULES
    funcs = ctx.prog.all_funcs(modules)

    def makes_iterator(e, f):
        if isinstance(e, ast.GeneratorExp):
            return True
        if isinstance(e, ast.Call):
            if call_name(e) == "iter":
                return False          # an explicit iter(xs) is made to be consumed step by step (`any(...)` up to a title line, then the rest)
            if call_name(e) in ITER_MAKERS:
                return True
            for g in ctx.cg.resolve(e, f):
                if any(isinstance(n, (ast.Yield, ast.YieldFrom)) for n in walk_no_nested_defs(g.node)):
                    return True
                rets = [n for n in walk_no_nested_defs(g.node) if isinstance(n, ast.Return) and n.value is not None]
                if rets and all(isinstance(r.value, ast.GeneratorExp) or (isinstance(r.value, ast.Call) and call_name(r.value) in ITER_MAKERS) for r in rets):
                    return True
        return False

    def consumes_param(g, p, depth=0):
        """does function g walk its parameter p?"""
        for n in walk_no_nested_defs(g.node):
            if isinstance(n, (ast.For, ast.comprehension)) and isinstance(n.iter, ast.Name) and n.iter.id == p:
                return True
            if isinstance(n, ast.Call) and call_name(n) in CONSUMERS and n.args and isinstance(n.args[0], ast.Name) and n.args[0].id == p:
                return True
        return False
    n_exam = 0
    for f in funcs:
        names = {}
        for st in walk_no_nested_defs(f.node):
            if isinstance(st, ast.Assign) and len(st.targets) == 1 and isinstance(st.targets[0], ast.Name) and makes_iterator(st.value, f):
                names.setdefault(st.targets[0].id, []).append(st)
        for name, defs in names.items():
            stores = [x for x in walk_no_nested_defs(f.node) if isinstance(x, ast.Name) and x.id == name and isinstance(x.ctx, ast.Store)]
            if len(stores) != len(defs):
                continue          # also bound to something else: not tracked
            n_exam += 1
            uses = []
            for n in walk_no_nested_defs(f.node):
                if isinstance(n, (ast.For, ast.comprehension)) and isinstance(n.iter, ast.Name) and n.iter.id == name:
                    uses.append((n.iter, "iterated"))
                if isinstance(n, ast.Call):
                    if call_name(n) in CONSUMERS and n.args and isinstance(n.args[0], ast.Name) and n.args[0].id == name:
                        uses.append((n, "consumed by %s()" % call_name(n)))
                        continue
                    for i, a in enumerate(n.args):
                        if isinstance(a, ast.Name) and a.id == name:
                            for g in ctx.cg.resolve(n, f):
                                ps = [p for p in g.params if p != "self"]
                                if i < len(ps) and consumes_param(g, ps[i]):
                                    uses.append((n, "walked inside %s" % g.short))
                                    break
            # two consumers in one pass through the code (a loop body counts once: the definition is inside the same body)
            if len(uses) >= 2:
                u0, u1 = uses[0], uses[1]
                chk.violation(rule, f.where(u1[0]), "`%s` holds a single-use iterator (`%s`) and is consumed twice: %s at line %d, then %s - the second consumer finds it already exhausted "
                              "(e.g. whenever the first one actually runs)" % (name, src(defs[0].value)[:60], u0[1], u0[0].lineno, u1[1]),
                              expected="a list, or one consumer", found=norm_stmt(ctx.cfg(f).stmt_of(u1[0])), construct="%s iterator %s consumed twice" % (f.short, name))
    return n_exam


def solve_delegate(ctx):
    """(M, n) when StochasticGame.solve only hands over to another method of the game - `return self.M()`,
    `return self.M()[:n]`, `return tuple(self.M()[:n])` (n a constant; None for the whole value): `obj.M()[k]` is `obj.solve()[k]`
    for every slot k < n, so a caller of M is a caller of solve as far as those slots go.  None otherwise."""
    if "solve_delegate" in ctx.cache:
        return ctx.cache["solve_delegate"]
    out = None
    try:
        cls = ctx.prog.classes.get("StochasticGame")
        f = cls.methods.get("solve") if cls else None
        body = [st for st in f.node.body if not (isinstance(st, ast.Expr) and isinstance(st.value, ast.Constant))] if f is not None else []
        if len(body) == 1 and isinstance(body[0], ast.Return) and body[0].value is not None:
            e, n = body[0].value, None
            if isinstance(e, ast.Call) and isinstance(e.func, ast.Name) and e.func.id == "tuple" and len(e.args) == 1 and not e.keywords:
                e = e.args[0]
            if isinstance(e, ast.Subscript) and isinstance(e.slice, ast.Slice) and e.slice.lower is None and e.slice.step is None and e.slice.upper is not None:
                ok, v = ctx.prog.try_const(e.slice.upper, f.mod)
                if ok and isinstance(v, int) and v > 0:
                    e, n = e.value, v
                else:
                    e = None
            if isinstance(e, ast.Call) and isinstance(e.func, ast.Attribute) and isinstance(e.func.value, ast.Name) and e.func.value.id == "self" \
                    and not e.args and not e.keywords and e.func.attr in cls.methods and e.func.attr != "solve":
                out = (e.func.attr, n)
    except AnalysisError:
        out = None
    ctx.cache["solve_delegate"] = out
    return out


def solve_names(ctx):
    d = solve_delegate(ctx)
    return ("solve", d[0]) if d else ("solve",)


def solve_calls_in(ctx, f):
    from .C02 import calls_of
    return [c for nm in solve_names(ctx) for c in calls_of(f, nm)]


def _delegate_fields(ctx, m):
    """Field names of the named tuple the delegate returns (every return is a display of the same named-tuple type), else None."""
    key = ("delegate_fields", m)
    if key not in ctx.cache:
        out = None
        f = ctx.prog.classes["StochasticGame"].methods.get(m)
        if f is not None:
            names = set()
            for r in walk_no_nested_defs(f.node):
                if isinstance(r, ast.Return):
                    names.add(getattr(r.value, "_nt_name", None))
            if len(names) == 1 and None not in names:
                out = getattr(f.mod, "named_tuples", {}).get(next(iter(names)))
        ctx.cache[key] = out
    return ctx.cache[key]


def as_solve(ctx, t):
    """Rename `obj.M()` to `obj.solve()` under a slot index the two share (see solve_delegate)."""
    d = solve_delegate(ctx)
    if not d:
        return t
    from ..symx import subst, is_const
    m, n = d
    fields = _delegate_fields(ctx, m)
    if fields:
        def h(x):
            if x[0] == "attr" and x[1][0] == "mcall" and x[1][2] == m and not x[1][3] and not x[1][4] and x[2] in fields:
                return ("idx", x[1], ("c", fields.index(x[2])))
            if x[0] == "attr" and x[1][0] == "tup" and len(x[1][1]) == len(fields) and x[2] in fields:
                return x[1][1][fields.index(x[2])]          # a constant of that type (NO_SOLUTION.rewards)
            return None
        t = subst(t, h)

    def g(x):
        if x[0] == "idx" and x[1][0] == "mcall" and x[1][2] == m and not x[1][3] and not x[1][4] and is_const(x[2]) and isinstance(x[2][1], int) \
                and (n is None or 0 <= x[2][1] < n):
            return ("idx", ("mcall", x[1][1], "solve", (), ()), x[2])
        return None
    return subst(t, g)


class Recorder:
    """Collects the verdicts of a rule run so that two runs (on two views of the same function) can be compared before one of them
    is reported."""
    def __init__(self, chk=None):
        self.items = []
        self.extra = {}
        self._chk = chk

    def ok(self, rule, where, text, **kw):
        self.items.append(("ok", rule, where, text, kw))

    def violation(self, rule, where, text, **kw):
        self.items.append(("violation", rule, where, text, kw))

    def undecided(self, rule, where, text, **kw):
        self.items.append(("undecided", rule, where, text, kw))

    def note(self, *a, **kw):
        self.items.append(("note", None, None, a, kw))

    def count(self, kind):
        return sum(1 for i in self.items if i[0] == kind)

    def replay(self, chk, only=None):
        for kind, rule, where, text, kw in self.items:
            if only is not None and kind not in only:
                continue
            if kind == "note":
                chk.note(*text, **kw)
            else:
                getattr(chk, kind)(rule, where, text, **kw)
        for k, v in self.extra.items():
            chk.extra[k] = v


def on_both_views(ctx, chk, qual, run):
    """run(recorder, f) on the documented-configuration view of `qual` and on its all-options view.  A violation found in either
    is a violation (each names a construct of the program); otherwise the view that leaves less undecided is reported."""
    doc = ctx.func(qual)
    allv = ctx.prog.pipeline_view(qual, all_options=True)
    a = Recorder()
    run(a, doc)
    if allv.node is doc.node:
        a.replay(chk)
        return
    b = Recorder()
    try:
        run(b, allv)
    except AnalysisError as e:
        b.undecided("-", allv.where(), str(e))
    if a.count("violation"):
        a.replay(chk)
    elif b.count("violation"):
        b.replay(chk)
    elif b.count("undecided") < a.count("undecided"):
        b.replay(chk)
    else:
        a.replay(chk)


MEMO_DECORATORS = ("lru_cache", "cache", "functools.lru_cache", "functools.cache", "cached_property", "functools.cached_property")


def rule_no_memoised_io(ctx, chk, rule, funcs, what):
    """A function of the file pipeline wrapped in a memoising decorator answers a later call from its cache: the caller gets the
    object of the first call back - whatever was done to it since (run_games writes a key into every game) and whatever the
    file holds now.  Returns the number of functions examined."""
    n = 0
    for f in funcs:
        n += 1
        for d in f.node.decorator_list:
            name = call_name(d) if isinstance(d, ast.Call) else (attr_path(d) if isinstance(d, (ast.Name, ast.Attribute)) else None)
            if name in MEMO_DECORATORS:
                chk.violation(rule, f.where(d), "%s is memoised (`@%s`): a second call with the same arguments returns the first call's object - modified by whoever used it "
                              "since, and blind to what the file holds now - so %s" % (f.short, src(d), what),
                              expected="the file is read (the value is computed) at every call", found="@" + src(d), construct="%s memoised" % f.short)
    return n


def rule_no_module_level_iterators(ctx, chk, rule, modules):
    """A module-level name bound to a lazy iterator (`MODES = zip(...)`, `map(...)`, a generator expression) is used up by the
    first loop that walks it: every later loop over it - the next game of the batch, the next call - gets nothing.
    Returns the number of module-level bindings examined."""
    n = 0
    for mname in modules:
        m = ctx.prog.mods.get(mname)
        if m is None:
            continue
        for name, val in m.consts.items():
            n += 1
            lazy = isinstance(val, ast.GeneratorExp) or (isinstance(val, ast.Call) and call_name(val) in ITER_MAKERS)
            if not lazy:
                continue
            for f in ctx.prog.all_funcs((mname,)):
                if any(isinstance(x, ast.Name) and x.id == name and isinstance(x.ctx, ast.Store) for x in walk_no_nested_defs(f.node)) or name in f.params:
                    continue
                for x in walk_no_nested_defs(f.node):
                    it = x.iter if isinstance(x, (ast.For, ast.comprehension)) else None
                    if isinstance(it, ast.Name) and it.id == name:
                        chk.violation(rule, f.where(x if isinstance(x, ast.For) else f.node), "`%s` iterates the module-level `%s = %s`, a one-shot iterator: the first loop over it uses it up, "
                                      "every later one (the next game, the next call of %s) runs zero times" % (norm_stmt(x)[:60] if isinstance(x, ast.For) else "a comprehension", name, src(val)[:50], f.short),
                                      expected="a tuple / list (or the iterator built where it is used)", found="%s = %s" % (name, src(val)[:80]), construct="%s module-level iterator %s" % (mname, name))
    return n


def rule_mutable_defaults(ctx, chk, rule, modules):
    """A parameter whose default is a list / dict / set display (or list() / dict() / set()) and that the function changes in place:
    the default object is created once, at definition time, so what one call puts into it is what the next call starts from -
    the result of a call depends on the calls made before it in the same process.  True if something was reported."""
    MUT = ("append", "add", "update", "setdefault", "extend", "insert", "pop", "popitem", "clear", "remove", "discard", "sort", "reverse", "appendleft")
    hit = False
    n = 0
    for f in ctx.prog.all_funcs(tuple(modules)):
        a = f.node.args
        params = a.posonlyargs + a.args
        defaults = dict(zip([p.arg for p in params[len(params) - len(a.defaults):]], a.defaults))
        defaults.update({p.arg: d for p, d in zip(a.kwonlyargs, a.kw_defaults) if d is not None})
        for name, d in defaults.items():
            mutable = isinstance(d, (ast.List, ast.Dict, ast.Set)) or (isinstance(d, ast.Call) and call_name(d) in ("list", "dict", "set", "collections.defaultdict", "defaultdict"))
            if not mutable:
                continue
            n += 1
            rebinds = [x for x in walk_no_nested_defs(f.node) if isinstance(x, ast.Name) and x.id == name and isinstance(x.ctx, ast.Store)]
            for x in walk_no_nested_defs(f.node):
                bad = None
                if isinstance(x, ast.Call) and isinstance(x.func, ast.Attribute) and x.func.attr in MUT and isinstance(x.func.value, ast.Name) and x.func.value.id == name:
                    bad = x
                elif isinstance(x, ast.Subscript) and isinstance(x.ctx, (ast.Store, ast.Del)) and isinstance(x.value, ast.Name) and x.value.id == name:
                    bad = x
                elif isinstance(x, ast.AugAssign) and isinstance(x.target, ast.Name) and x.target.id == name:
                    bad = x
                if bad is not None and not rebinds:
                    hit = True
                    chk.violation(rule, f.where(bad), "%s changes its parameter `%s` in place, and the default of `%s` is a mutable object created once when the function is defined: "
                                  "every call that relies on the default starts from what the earlier calls left in it (the second file of a process is not named / built like the first)"
                                  % (f.short, name, name), expected="a None default and a fresh object per call", found=norm_stmt(ctx.cfg(f).stmt_of(bad))[:100],
                                  construct="%s mutable default %s" % (f.short, name))
                    break
    if not hit:
        chk.ok(rule, ", ".join(modules), "no function changes a mutable default argument in place (%d mutable default(s) examined)" % n)
    return hit


def rule_no_module_state(ctx, chk, rule, roots, what):
    """The functions reachable from `roots` write no module-level state (a `global` name, a module-level container changed in place,
    a memoising decorator): with such state what a call produces depends on the calls made before it in the same process."""
    MUT = ("append", "add", "update", "setdefault", "extend", "insert", "pop", "popitem", "clear", "remove", "discard", "sort", "reverse", "appendleft")
    scope = ctx.cg.reachable(list(roots))
    n = 0
    for g in scope:
        mod_names = set(g.mod.consts) | {t.id for st in g.mod.tree.body if isinstance(st, (ast.Assign, ast.AnnAssign))
                                         for tt in (st.targets if isinstance(st, ast.Assign) else [st.target]) for t in ast.walk(tt) if isinstance(t, ast.Name)}
        declared = set()
        for x in walk_no_nested_defs(g.node):
            if isinstance(x, (ast.Global, ast.Nonlocal)):
                declared.update(x.names)
        local_names = set(g.params) | {x.id for x in walk_no_nested_defs(g.node) if isinstance(x, ast.Name) and isinstance(x.ctx, ast.Store) and x.id not in declared}
        for x in walk_no_nested_defs(g.node):
            if isinstance(x, ast.Name) and isinstance(x.ctx, ast.Store) and x.id in declared:
                n += 1
                chk.violation(rule, g.where(x), "`%s` assigns the module-level name `%s` while %s: what the next call produces depends on this call" % (
                    norm_stmt(ctx.cfg(g).stmt_of(x))[:80], x.id, what), expected="no state kept between calls", found=norm_stmt(ctx.cfg(g).stmt_of(x))[:100],
                    construct="%s writes global %s" % (g.short, x.id))
            tgt = None
            if isinstance(x, ast.Call) and isinstance(x.func, ast.Attribute) and x.func.attr in MUT:
                tgt = x.func.value
            elif isinstance(x, ast.Subscript) and isinstance(x.ctx, (ast.Store, ast.Del)):
                tgt = x.value
            elif isinstance(x, ast.AugAssign) and isinstance(x.target, ast.Name) and x.target.id in declared:
                tgt = None
            if tgt is not None:
                base = tgt
                while isinstance(base, (ast.Attribute, ast.Subscript)):
                    base = base.value
                if isinstance(base, ast.Name) and base.id not in local_names and base.id in mod_names:
                    n += 1
                    chk.violation(rule, g.where(x), "`%s` modifies the module-level object `%s` while %s: a table kept between calls - the second call of a process starts from what "
                                  "the first one left there" % (norm_stmt(ctx.cfg(g).stmt_of(x))[:80], base.id, what), expected="no state kept between calls",
                                  found=norm_stmt(ctx.cfg(g).stmt_of(x))[:100], construct="%s mutates %s" % (g.short, base.id))
        for d in g.node.decorator_list:
            if "cache" in src(d):
                n += 1
                chk.violation(rule, g.where(), "%s is memoised (`@%s`): a repeated call returns the object the first call built (shared, and blind to anything but the arguments)" % (g.short, src(d)),
                              expected="no memoisation", found=src(d), construct="%s memoised" % g.short)
    if not n:
        chk.ok(rule, ", ".join(sorted({g.mod.name for g in scope})), "%d functions (%s): no module-level state written, none memoised" % (len(scope), what))
    return n


def rule_no_keyed_collapse(ctx, chk, rule, only=None):
    """No kernel of a node class funnels its successor list through a dictionary keyed by a PART of the transition (the successor
    index, the label): two transitions that agree in that part - parallel edges, one label on two moves - overwrite each other and
    one of them disappears from what is computed (a probability share, an optimal action).  `only`: method names to look at."""
    from . import kernels as K
    from . import C13 as _C13
    from ..symx import C, simp
    from ..nf import SELF_NEXT
    hits = n = 0
    for role, cls, m, f in _C13.node_kernels(ctx):
        if only is not None and m not in only:
            continue
        try:
            k = K.kernel(ctx, cls, m)
        except Exception:
            continue
        for lid, L in k.sx.loops.items():
            le = k.listexpr(L.source) if L.source != SELF_NEXT else None
            over_s = L.source == SELF_NEXT or (le is not None and le[0] == SELF_NEXT)
            if not over_s:
                continue
            n += 1
            el = ("elem", lid)
            parts = {simp(("idx", el, C(0))): "label / probability", simp(("idx", el, C(1))): "successor index"}
            if le is not None and le[2] != ("e",):
                continue            # the loop runs over values computed from the transitions: their slots mean something else
            keyed = None
            if L.kind == "for":
                for v, u in L.update.items():
                    if u is not None and u[0] == "setitem" and u[1] == ("acc", lid, v) and u[2] in parts and L.init.get(v) in (("dict", ()), ("call", "dict", (), ())):
                        used = any(t == ("res", lid, v) for t in _terms_of_kernel(k))
                        if used and _reads_more_than(u[3], el, u[2]):
                            keyed = (v, u[2])
            elif getattr(L, "ckind", None) == "dict" and L.elt is not None and L.elt[0] == "tup" and len(L.elt[1]) == 2 and L.elt[1][0] in parts \
                    and _reads_more_than(L.elt[1][1], el, L.elt[1][0]):
                keyed = ("<dict comprehension>", L.elt[1][0])
            if keyed:
                hits += 1
                chk.violation(rule, f.where(), "%s.%s collects its transitions in a dictionary keyed by the %s (`%s[%s] = ...`): two transitions with the same %s - parallel edges - "
                              "overwrite each other, so one of them is missing from what is computed" % (cls, m, parts[keyed[1]], keyed[0], show_(keyed[1]), parts[keyed[1]]),
                              expected="every transition of the list takes part", found="dict keyed by %s" % show_(keyed[1]), construct="%s.%s keyed collapse" % (cls, m))
    # itertools.groupby groups CONSECUTIVE items with equal keys: on a list that is not sorted by that key, equal keys that are not
    # neighbours form several groups - collected into a dictionary the later group overwrites the earlier one
    KERNELS = {"value_iteration_reach", "value_iteration_rewards", "prune_paths", "remove_path", "prune_paths_reachability", "get_best_strategies_reachability",
               "get_worst_strategies_reachability", "get_best_strategies_total_rewards", "get_worst_strategies_total_rewards"}
    for role, cls in K.role_classes(ctx).items():
        for cname in ctx.prog.mro(cls):
            for m, f in ctx.prog.classes[cname].methods.items():
                if only is not None and m not in only and m in KERNELS:
                    continue
                for c in walk_no_nested_defs(f.node):
                    # xs[xs.index(m): xs.index(m) + xs.count(m)]: first occurrence + number of occurrences is the run of equal values only
                    # when they are ADJACENT
                    if isinstance(c, ast.Subscript) and isinstance(c.slice, ast.Slice) and c.slice.lower is not None and c.slice.upper is not None \
                            and any(isinstance(x, ast.Call) and isinstance(x.func, ast.Attribute) and x.func.attr == "count" for x in ast.walk(c.slice.upper)) \
                            and (any(isinstance(x, ast.Call) and isinstance(x.func, ast.Attribute) and x.func.attr == "index" for x in ast.walk(c.slice.lower))
                                 or isinstance(c.slice.lower, ast.Name)) and (cname, m, c.lineno) not in getattr(chk, "_groupby_seen", set()):
                        seen = getattr(chk, "_groupby_seen", set())
                        seen.add((cname, m, c.lineno))
                        chk._groupby_seen = seen
                        hits += 1
                        chk.violation(rule, f.where(c), "%s.%s cuts `%s` out of a list by the first position of a value and the number of its occurrences: that is the set of equal "
                                      "values only when they are adjacent - with another successor in between a wrong one is included and a right one dropped" % (cname, m, src(c)[:70]),
                                      expected="a filter by equality", found=src(c)[:100], construct="%s.%s index/count slice" % (cname, m))
                    if isinstance(c, ast.Call) and call_name(c) in ("groupby", "itertools.groupby") and c.args:
                        a0 = c.args[0]
                        srt = isinstance(a0, ast.Call) and call_name(a0) == "sorted"
                        if isinstance(a0, ast.Name):
                            srt = any(isinstance(st, ast.Assign) and any(isinstance(t, ast.Name) and t.id == a0.id for t in st.targets) and isinstance(st.value, ast.Call)
                                      and call_name(st.value) == "sorted" for st in walk_no_nested_defs(f.node))
                        if not srt and (cname, m, c.lineno) not in getattr(chk, "_groupby_seen", set()):
                            seen = getattr(chk, "_groupby_seen", set())
                            seen.add((cname, m, c.lineno))
                            chk._groupby_seen = seen
                            hits += 1
                            chk.violation(rule, f.where(c), "%s.%s groups `%s` with itertools.groupby without sorting it by the key first: groupby only merges NEIGHBOURS, so successors with "
                                          "equal keys that are not adjacent in the transition list fall into separate groups (and a dictionary built from the groups keeps the last one only)"
                                          % (cname, m, src(a0)[:50]), expected="sorted by the key first, or a plain loop", found=src(c)[:100], construct="%s.%s groupby unsorted" % (cname, m))
    if not hits:
        chk.ok(rule, "tad.py node classes", "no kernel funnels its transitions through a dictionary keyed by the successor or the label (%d loops over successor lists examined)" % n)
    return hits


def show_(t):
    from ..symx import show
    return show(t)


def _reads_more_than(value, el, key):
    """The value stored under `key` reads something of the element besides the key itself (a table whose entry is a function of its
    key alone - the rounded value of successor t under key t - loses nothing when two transitions share the key)."""
    from ..symx import subst
    marker = ("$key$",)
    stripped = subst(value, lambda x: marker if x == key else None)
    found = []

    def walk(x):
        if isinstance(x, tuple):
            if x == el:
                found.append(x)
            for y in x:
                walk(y)
    walk(stripped)
    return bool(found)


def _terms_of_kernel(k):
    from . import C02
    out = list(C02._sub(k.ret)) if k.ret is not None else []
    for e in k.sx.final.effects:
        out += C02._sub(e)
    for L in k.sx.loops.values():
        for u in list(L.init.values()) + list(L.update.values()):
            if isinstance(u, tuple):
                out += C02._sub(u)
        for e in L.effects:
            out += C02._sub(e)
        if L.elt is not None:
            out += C02._sub(L.elt)
        for c in (L.filters or []):
            out += C02._sub(c)
        if isinstance(L.source, tuple):
            out += C02._sub(L.source)
    return out


def rule_no_complement_keys(ctx, chk, rule, modules):
    """A dictionary display (or comprehension) keyed by a computed number AND by its complement (`{p: a, 1 - p: b}`): for
    p == 0.5 the two keys are one key and the first entry is overwritten - the outcome of probability p disappears and the
    distribution no longer adds up to 1."""
    n = hits = 0
    for f in ctx.prog.all_funcs(tuple(modules)):
        for d in walk_no_nested_defs(f.node):
            if not isinstance(d, ast.Dict) or len(d.keys) < 2 or any(k is None for k in d.keys):
                continue
            n += 1
            texts = [src(k) for k in d.keys]
            for k in d.keys:
                if isinstance(k, ast.BinOp) and isinstance(k.op, ast.Sub) and isinstance(k.left, ast.Constant) and k.left.value in (1, 1.0) and src(k.right) in texts \
                        and not isinstance(k.right, ast.Constant):
                    hits += 1
                    chk.violation(rule, f.where(d), "%s keys a dictionary by `%s` and by `%s`: when the probability is 0.5 the two keys coincide, the later entry replaces the earlier one, "
                                  "and the state is left with a single transition of probability 0.5" % (f.short, src(k.right), src(k)), expected="a list of (probability, target) pairs",
                                  found=src(d)[:100], construct="%s complement keys" % f.short)
                    break
    if not hits:
        chk.ok(rule, ", ".join(modules), "no dictionary keyed by a probability and its complement (%d dictionary displays examined)" % n)
    return hits
