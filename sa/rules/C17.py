"""C17 - generated file names identify the parameters that produced them."""
import ast

from ..loader import AnalysisError, attr_path, src, walk_no_nested_defs, norm_stmt, call_name
from ..symx import SymX, show, C, TRUE, FALSE, simp, is_const, mk_mul, is_term
from . import C08, shared

EXPLANATION = (
    "(1) percentage conversion: in prob_to_str the float product prob*100 reaches str() through a rounding conversion "
    "(round / %.0f / :.0f / int(round(.))), never through int(), floor, // or trunc - an exact rule for the property, "
    "because k/100*100 is within one ulp of k, so rounding returns k for every k in 1..99 while truncation does not "
    "(29, 57, 58); (2) name template: symbolic evaluation of the file-name expression in main() and in "
    "create_sg_from_board() yields a sequence of literal pieces and holes; every parameter appears exactly once, "
    "immediately after its own literal prefix (robot_ seed, w, l, r, rb robot, lb light, tb tile break, lt loose "
    "tile), separated by '_', probabilities through prob_to_str, the force-down flag as a suffix chosen by the flag "
    "itself; holes are traced back to the parsed argument of the same name. Also the argument-swap rule over the "
    "generator modules."
    ' Also: no function of the generator changes a mutable default argument (0:defaults): the name of the second file of a process is built like that of the first.'
    ' No one-shot iterator is consumed twice on the way to the name (0:iter).')
ASSUMPTIONS = ["probabilities are given as whole percentages k/100 (the property's domain for the 'appears as k' clause)"]
TECHNIQUE = "symbolic string-template extraction + conversion idiom classification (ast)"

MAIN_TABLE = [("inputs/robot_", "seed", False), ("w", "width", False), ("l", "length", False), ("r", "max_reward", False),
              ("rb", "prob_robot_break", True), ("lb", "prob_light_break", True), ("tb", "prob_tile_break", True), ("lt", "prob_loose_tile", True)]
MANUAL_TABLE = [("w", "width", False), ("l", "length", False), ("r", "max_reward", False),
                ("rb", "prob_robot_break", True), ("lb", "prob_light_break", True), ("tb", "prob_tile_break", True)]


NO_INLINE = ("write_robots", "check_input", "gen_rnd_board", "init_parser", "prob_to_str", "get_max_from_matrix")


def r1_conversion(ctx, chk, rule="C17.1"):
    f = ctx.func("roberta_generator.py::prob_to_str")
    sx = SymX(ctx, f).run()
    r = sx.ret
    p = ("v", f.params[0])
    prod = (mk_mul(p, C(100)), mk_mul(p, C(100.0)))
    # rounding the probability to two decimals first does not help: round(0.29, 2) is 0.29 and 0.29*100 is 28.999999999999996
    for nd in (C(2), C(3), C(4)):
        rp = ("call", "round", (p, nd), ())
        prod += (mk_mul(rp, C(100)), mk_mul(rp, C(100.0)))
    where = f.where()

    def rounded(t):
        """t is a rounding of prob*100 to an integer value."""
        if t[0] == "call" and t[1] == "round" and t[2] and t[2][0] in prod and (len(t[2]) == 1 or t[2][1] in (C(0), C(None))) and not t[3]:
            return True
        if t[0] == "call" and t[1] == "int" and len(t[2]) == 1:
            x = t[2][0]
            if rounded(x):
                return True
            if x[0] == "add" and len(x[1]) == 2 and C(0.5) in x[1] and any(y in prod for y in x[1]):
                return True    # round half up
        return False

    def truncated(t):
        if t[0] == "call" and t[1] in ("int", "math.floor", "math.trunc") and t[2] and t[2][0] in prod:
            return t[1]
        if t[0] == "floordiv":
            return "//"
        # the integer part split off the product: divmod(x, 1)[0], math.modf(x)[1], x - x % 1
        if t[0] == "idx" and t[1][0] == "call" and t[1][1] == "divmod" and len(t[1][2]) == 2 and t[1][2][0] in prod and t[1][2][1] in (C(1), C(1.0)) and t[2] == C(0):
            return "divmod(.., 1)[0]"
        if t[0] == "idx" and t[1][0] == "call" and t[1][1] == "math.modf" and len(t[1][2]) == 1 and t[1][2][0] in prod and t[2] == C(1):
            return "math.modf(..)[1]"
        return None
    if r[0] == "call" and r[1] == "str" and len(r[2]) == 1:
        x = r[2][0]
        if rounded(x):
            chk.ok(rule, where, "prob_to_str = str(%s): rounding conversion of prob*100 (returns k for every k/100)" % show(x))
            return
        tr = truncated(x)
        if tr:
            chk.violation(rule, where, "prob_to_str converts prob*100 with %s, which truncates the floating-point product: 0.29*100 = 28.999999999999996 is written as 28 "
                          "(likewise 0.57, 0.58) and collides with the neighbouring parameter set" % tr, expected="str(round(prob*100))", found=show(r),
                          construct="prob_to_str truncation")
            return
        if x[0] == "call" and x[1] == "math.ceil" and x[2] and x[2][0] in prod:
            chk.violation(rule, where, "prob_to_str converts prob*100 with math.ceil, which rounds the floating-point product UP: 0.07*100 = 7.000000000000001 is written as 8 "
                          "(likewise 0.14, 0.28, 0.55, 0.56) and collides with the neighbouring parameter set", expected="str(round(prob*100))", found=show(r),
                          construct="prob_to_str truncation")
            return
    if r[0] == "fstr" or (r[0] == "binop" and r[1] == "Mod"):
        parts = r[1] if r[0] == "fstr" else ()
        if r[0] == "fstr" and len(parts) == 1 and parts[0][0] == "fmt" and parts[0][1] in prod and parts[0][3] in ("'.0f'", ".0f") and parts[0][2] == -1:
            chk.ok(rule, where, "prob_to_str = f'{prob*100:.0f}': rounding conversion")
            return
    if r[0] == "binop" and r[1] == "Mod" and r[2] == C("%.0f") and r[3] in prod:
        chk.ok(rule, where, "prob_to_str = '%.0f' % (prob*100): rounding conversion")
        return
    # any int()/floor of something derived from the product inside a larger expression
    for t in C08_sub(r):
        if truncated(t):
            chk.violation(rule, where, "prob_to_str truncates the floating-point product (`%s`) inside `%s`: percentages such as 0.29, 0.57, 0.58 come out one too small" % (show(t), show(r)[:160]),
                          expected="rounding conversion of prob*100", found=show(r)[:200], construct="prob_to_str truncation")
            return
    chk.undecided(rule, where, "conversion `%s` not recognised as rounding or truncating" % show(r)[:200])


def C08_sub(t):
    out = []

    def walk(x):
        if isinstance(x, tuple):
            if is_term(x):
                out.append(x)
            for y in x:
                walk(y)
    walk(t)
    return out


def flatten_str(t):
    """strcat tree -> [piece]; pieces: ('lit', str) | ('hole', term)."""
    if t[0] == "strcat":
        return flatten_str(t[1]) + flatten_str(t[2])
    if is_const(t) and isinstance(t[1], str):
        return [("lit", t[1])]
    if t[0] == "fstr":
        out = []
        for p in t[1]:
            if is_const(p):
                out.append(("lit", p[1]))
            else:
                out.append(("hole", p))
        return out
    if t[0] == "ite":
        # (P + X + S if c else P + Y + S)  ==  P + (X if c else Y) + S
        a, b = flatten_str(t[2]), flatten_str(t[3])
        n = 0
        while n < len(a) and n < len(b) and a[n] == b[n]:
            n += 1
        m = 0
        while m < len(a) - n and m < len(b) - n and a[len(a) - 1 - m] == b[len(b) - 1 - m]:
            m += 1
        if n or m:
            mid_a, mid_b = a[n:len(a) - m], b[n:len(b) - m]
            return a[:n] + [("hole", simp(("ite", t[1], _rebuild(mid_a), _rebuild(mid_b))))] + (a[len(a) - m:] if m else [])
    return [("hole", t)]


def _rebuild(pieces):
    out = None
    for k, v in merge_lits(pieces):
        x = C(v) if k == "lit" else v
        out = x if out is None else simp(("strcat", out, x))
    return out if out is not None else C("")


def merge_lits(pieces):
    out = []
    for k, v in pieces:
        if k == "lit" and out and out[-1][0] == "lit":
            out[-1] = ("lit", out[-1][1] + v)
        elif not (k == "lit" and v == ""):
            out.append((k, v))
    return out


def _is_directory(t):
    """t evaluates to a string that ends with a path separator on every branch (or is empty)."""
    if is_const(t) and isinstance(t[1], str):
        return t[1] == "" or t[1].endswith("/")
    if t[0] == "ite":
        return _is_directory(t[2]) and _is_directory(t[3])
    if t[0] == "strcat":
        return _is_directory(t[2]) and not (is_const(t[2]) and t[2][1] == "")
    if t[0] == "fstr" and t[1]:
        return _is_directory(t[1][-1])
    if t[0] == "fmt" and t[2] in (-1, 115) and t[3] is None:
        return _is_directory(t[1])
    if t[0] == "call" and t[1] in ("os.path.join", "join") and t[2] and is_const(t[2][-1]) and t[2][-1][1] == "":
        return True
    return False


def _split_directory(name_term, marker):
    """The name is judged from the literal that contains `marker` ('robot_') on: what precedes it is the directory the file
    goes to (an --output_dir option, os.path.join) and says nothing about the parameters.  Returns (pieces with the
    canonical directory 'inputs/', note) or (None, why) when what precedes the marker is not recognisably a directory."""
    t = name_term
    lead = []
    while t[0] == "call" and t[1] in ("os.path.join", "join", "posixpath.join") and len(t[2]) >= 2 and not t[3]:
        lead += list(t[2][:-1])
        t = t[2][-1]
    pieces = merge_lits(flatten_str(t))
    for i, (k, v) in enumerate(pieces):
        if k == "lit" and marker in v:
            pos = v.index(marker)
            before = pieces[:i] + ([("lit", v[:pos])] if v[:pos] else [])
            rest = [("lit", v[pos:])] + pieces[i + 1:]
            if lead and not before:
                return [("lit", "inputs/" + rest[0][1])] + rest[1:], "directory given by os.path.join"
            if lead:
                return None, "a path joined with a name that has its own directory part"
            if not before:
                return None, "no directory in front of `%s`" % marker
            if before == [("lit", "inputs/")]:
                return [("lit", "inputs/" + rest[0][1])] + rest[1:], ""
            last = before[-1]
            if (last[0] == "lit" and last[1].endswith("/")) or (last[0] == "hole" and _is_directory(last[1])):
                return [("lit", "inputs/" + rest[0][1])] + rest[1:], "directory `%s`" % "".join(x if kk == "lit" else "{%s}" % show(x)[:30] for kk, x in before)
            return None, "what precedes `%s` is not recognisably a directory (it does not end with '/')" % marker
    return pieces, ""


def _same_percent(t, x):
    """t is x brought to the percent grid: True for round(x*100)/100 (nearest, as prob_to_str rounds: idempotent on the grid);
    False for a floor / ceil / int / trunc of x*100 (moves values that sit a hair beside the integer); None otherwise."""
    from ..symx import mentions as _m
    prod = (simp(("mul", (x, C(100)))), simp(("mul", (C(100), x))))
    if t[0] == "div" and t[2] in (C(100), C(100.0)) and t[1][0] == "call" and t[1][1] == "round" and len(t[1][2]) == 1 and t[1][2][0] in prod:
        return True
    if t[0] == "call" and t[1] == "round" and len(t[2]) == 2 and t[2][0] == x and t[2][1] == C(2):
        return None
    if _m(t, lambda y: y[0] == "call" and y[1] in ("math.floor", "math.ceil", "int", "math.trunc")) or _m(t, lambda y: y[0] == "floordiv"):
        return False
    return None


def template_rule(ctx, chk, rule, f, name_term, table, source_of, tail_spec, head, sx=None):
    """name_term: symbolic file name; table: [(prefix, parameter, through prob_to_str)]; source_of(param) -> expected hole term."""
    where = f.where()
    pieces, dir_note = _split_directory(name_term, "manual_robot_" if head.endswith("manual_robot_") else "robot_")
    if pieces is None:
        chk.undecided(rule, where, "file name `%s`: %s" % (show(name_term)[:160], dir_note))
        return
    text = "".join(v if k == "lit" else "{%s}" % show(v)[:40] for k, v in pieces)
    from ..symx import mentions
    def _value_called(x):
        # `args.prob_tile_break(args.prob_tile_break)`: a parsed option (a number) used as a function - not a computed sequence
        return x[0] == "apply" and x[1][0] == "attr" and mentions(x[1], lambda y: y[0] == "mcall" and y[2] == "parse_args")
    opaque = [v for k, v in pieces if k == "hole" and mentions(v, lambda x: (x[0] in ("compr", "res", "apply") and not _value_called(x)) or (x[0] == "mcall" and x[2] in ("join", "format"))
                                                              or (x[0] == "call" and x[1] in ("itertools.chain", "chain", "map", "zip", "itertools.starmap")))]
    if opaque and sx is not None:
        # parts joined from a FILTERED sequence: a part whose value fails the filter (a parameter that is 0, an empty text) vanishes
        # from the name, and two parameter sets share one file
        for v in opaque:
            for t in C08_sub(v):
                if t[0] == "mcall" and t[2] == "join" and t[3] and t[3][0][0] == "compr" and t[3][0][1] in sx.loops and sx.loops[t[3][0][1]].filters:
                    L_ = sx.loops[t[3][0][1]]
                    chk.violation(rule, where, "the name is joined from the parts that pass `%s`: a parameter whose part fails that test (a value of 0) is left out of the name, "
                                  "so different parameter sets get the same file name" % show(L_.filters[0])[:60], expected="every parameter written, whatever its value",
                                  found=show(t)[:100], construct="%s name parts filtered" % f.short)
                    return
    if opaque:
        # the name is assembled from a computed sequence of parts (tag tables, map / chain / comprehensions): its pieces are not
        # spelled out here
        chk.undecided(rule, where, "file name `%s`: a piece is joined from a computed sequence (`%s`), the template is not spelled out" % (text[:120], show(opaque[0])[:60]))
        return
    # expected alternation lit, hole, lit, hole ...
    i = 0
    ok = True
    seen = []
    prob_fn = "prob_to_str"
    for n, (prefix, param, is_prob) in enumerate(table):
        want_lit = (head if n == 0 else "_") + prefix if n > 0 or not prefix.startswith("inputs") else prefix
        if n == 0:
            want_lit = head + prefix if not prefix.startswith("inputs") else prefix
        if i + 1 >= len(pieces) or pieces[i][0] != "lit" or pieces[i + 1][0] != "hole":
            chk.violation(rule, where, "file-name template `%s`: expected literal %r followed by the value of %s at piece %d" % (text, want_lit, param, i),
                          expected="...%s{%s}..." % (want_lit, param), found=text, construct="%s name template shape" % f.short)
            return
        lit, hole = pieces[i][1], pieces[i + 1][1]
        if hole[0] == "fmt" and hole[2] in (-1, 115) and hole[3] is None:
            # f"{x}" is str(x); f"{prob_to_str(p)}" is prob_to_str(p)
            inner = hole[1]
            hole = inner if (inner[0] == "call" and inner[1] in ("str", "prob_to_str")) else ("call", "str", (inner,), ())
        if lit != want_lit:
            ok = False
            chk.violation(rule, where, "file-name template `%s`: the value of %s must follow the literal %r, found %r (parameters run together or carry the wrong prefix)" % (text, param, want_lit, lit),
                          expected=want_lit, found=lit, construct="%s name prefix of %s" % (f.short, param))
        want_hole = source_of(param)
        if is_prob:
            want = ("call", prob_fn, (want_hole,), ())
            inl = None
        else:
            want = ("call", "str", (want_hole,), ())
        got = hole
        matches = got == want
        if not matches and is_prob:
            # prob_to_str may have been inlined by the symbolic executor: str(round(100 * x))
            inner = [t for t in C08_sub(got) if t == want_hole]
            matches = bool(inner) and got[0] == "call" and got[1] == "str"
        if not matches:
            ok_before = ok
            ok = False
            others = [p for _, p, _ in table if p != param and any(t == source_of(p) for t in C08_sub(got))]
            if others:
                chk.violation(rule, where, "file-name template: the prefix %r is followed by the value of %s, not of %s: the name misstates the parameters" % (prefix, others[0], param),
                              expected=show(want), found=show(got), construct="%s name hole %s" % (f.short, prefix))
            elif is_prob and got[0] == "call" and got[1] == "prob_to_str" and len(got[2]) == 1 and _same_percent(got[2][0], want_hole) is True:
                ok = ok_before
                chk.ok(rule, where, "after %r: prob_to_str of the value rounded to its nearest whole percent (`round(x*100)/100`, the rounding prob_to_str itself applies): the same text" % prefix)
            elif is_prob and got[0] == "call" and got[1] == "prob_to_str" and len(got[2]) == 1 and _same_percent(got[2][0], want_hole) is None:
                chk.undecided(rule, where, "file-name template: after %r comes prob_to_str of `%s`, a transformed value of %s: whether it names the same percent is not decided" % (
                    prefix, show(got[2][0])[:80], param))
            elif is_prob and any(t == want_hole for t in C08_sub(got)):
                chk.violation(rule, where, "file-name template: %s is not written through prob_to_str: `%s`" % (param, show(got)), expected=show(want), found=show(got),
                              construct="%s name conversion %s" % (f.short, param))
            else:
                chk.violation(rule, where, "file-name template: after %r comes `%s`, expected the value of %s" % (prefix, show(got)[:80], param),
                              expected=show(want), found=show(got)[:120], construct="%s name hole %s" % (f.short, prefix))
        seen.append(param)
        i += 2
    rest = pieces[i:]
    tail_ok, tail_text = tail_spec(rest)
    if tail_ok is None:
        ok = False
        chk.undecided(rule, where, "file-name template `%s`: %s" % (text, tail_text))
    elif not tail_ok:
        ok = False
        chk.violation(rule, where, "file-name template `%s`: tail %s" % (text, tail_text), expected="force-down suffix chosen by the flag, then '.py'", found=text,
                      construct="%s name tail" % f.short)
    if ok:
        chk.ok(rule, where, "name template `%s`: every parameter once, under its own prefix, '_'-separated, probabilities through prob_to_str; %s" % (text, tail_text))


def r2_templates(ctx, chk, rule="C17.2"):
    # main()
    f = ctx.func("roberta_generator.py::main")
    sx = SymX(ctx, f, inline_depth=3, no_inline=NO_INLINE).run()
    wr = [e for e in sx.final.effects if e[1] == "call" and e[2][0] == "call" and e[2][1] == "write_robots"]
    if len(wr) != 1:
        chk.undecided(rule, f.where(), "write_robots call not found in main()")
    else:
        name_term = wr[0][2][2][0]
        pa = None
        for t in C08_sub(name_term):
            if t[0] == "attr" and t[2] == "seed":
                pa = t[1]
        if pa is None:
            chk.undecided(rule, f.where(), "parsed arguments object not identified in the file name")
        else:
            fd = ("attr", pa, "force_down")

            def tail(rest):
                if len(rest) == 2 and rest[0][0] == "hole" and rest[1] == ("lit", ".py"):
                    h = rest[0][1]
                    if h[0] == "fmt" and h[2] in (-1, 115) and h[3] is None:
                        h = h[1]
                    if h == simp(("ite", ("truthy", fd), C("_force_down"), C(""))):
                        return True, "suffix '_force_down' iff the force_down flag"
                    return False, "`%s` is not ('_force_down' if force_down else '')" % show(h)
                return False, "pieces %s" % [(k, v if k == "lit" else show(v)[:40]) for k, v in rest]
            template_rule(ctx, chk, rule, f, name_term, MAIN_TABLE, lambda p: ("attr", pa, p), tail, "", sx=sx)
        # parser destinations: --seed etc. exist with the right dest names
        g = ctx.func("roberta_generator.py::init_parser")
        dests = set()
        for c in walk_no_nested_defs(g.node):
            if isinstance(c, ast.Call) and isinstance(c.func, ast.Attribute) and c.func.attr == "add_argument":
                for a in c.args:
                    if isinstance(a, ast.Constant) and isinstance(a.value, str) and a.value.startswith("--"):
                        dests.add(a.value[2:])
        need = {p for _, p, _ in MAIN_TABLE} | {"force_down"}
        if need <= dests:
            chk.ok(rule, g.where(), "the parser defines an option for each of %s" % sorted(need))
        else:
            chk.violation(rule, g.where(), "parser options missing for %s" % sorted(need - dests), expected=sorted(need), found=sorted(dests), construct="init_parser options")
    # create_sg_from_board
    q = "stochastic_game_from_roborta_board.py::create_sg_from_board"
    if ctx.prog.has_func(q):
        f2 = ctx.func(q)
        sx2 = SymX(ctx, f2, inline_depth=3, no_inline=NO_INLINE).run()
        wr2 = [e for e in sx2.final.effects if e[1] == "call" and e[2][0] == "call" and e[2][1] == "write_robots"]
        if len(wr2) != 1:
            chk.undecided(rule, f2.where(), "write_robots call not found in create_sg_from_board")
        else:
            name_term = wr2[0][2][2][0]
            env = sx2.final.env

            wr_f = ctx.func("roberta_generator.py::write_robots")
            wr_args = dict(zip(wr_f.params, wr2[0][2][2]))
            wr_args.update({k: v for k, v in wr2[0][2][3] if k})

            def src_of(p):
                # by meaning, not by the name of a local: the board dimensions are what write_robots receives as length / width,
                # the maximum reward is the local computed from the rewards table
                if p in env:
                    return env[p]
                if p in ("length", "width") and p in wr_args:
                    return wr_args[p]
                if p == "max_reward":
                    rp = [q for q in f2.params if "reward" in q]
                    for v in env.values():
                        if isinstance(v, tuple) and rp and any(t == ("v", rp[0]) for t in C08_sub(v)) and v != ("v", rp[0]) \
                                and any(t[0] == "call" and t[1] in ("get_max_from_matrix", "max") for t in C08_sub(v)):
                            return v
                return ("v", p)

            def tail2(rest):
                if len(rest) == 3 and rest[0] == ("lit", "_") and rest[1][0] == "hole" and rest[2] == ("lit", ".py"):
                    h = rest[1][1]
                    if h[0] == "fmt" and h[2] in (-1, 115) and h[3] is None:
                        h = h[1]
                    if h[0] == "ite" and h[2] == C("force_down") and h[3] == C(""):
                        # the condition must say "the board has a down-only tile": true exactly when the largest arrow code is 3
                        from ..symx import subst, deep_simp
                        mp = [q for q in f2.params if "move" in q]
                        cands = [v for v in env.values() if isinstance(v, tuple) and mp and any(t == ("v", mp[0]) for t in C08_sub(v)) and v != ("v", mp[0])
                                 and any(t == v for t in C08_sub(h[1]))]
                        cands.sort(key=lambda v: len(C08_sub(v)))
                        if not cands:
                            return False, "the force-down suffix is chosen by `%s`, which does not look at the arrows" % show(h[1])[:80]
                        mt = cands[0]
                        verdicts = []
                        for k_ in (0, 1, 2, 3):
                            c_ = deep_simp(subst(h[1], lambda x: C(k_) if x == mt else None))
                            if c_[0] == "truthy" and c_[1][0] == "c":
                                c_ = C(bool(c_[1][1]))
                            verdicts.append(c_)
                        if all(v in (TRUE, FALSE) for v in verdicts):
                            if [v == TRUE for v in verdicts] == [False, False, False, True]:
                                return True, "suffix 'force_down' iff the largest arrow code is 3 (a down-only tile exists)"
                            return False, "the force-down suffix is chosen by `%s`: for largest arrow code 0,1,2,3 this gives %s, specification: only for 3" % (
                                show(h[1])[:80], [v == TRUE for v in verdicts])
                        return None, "force-down condition `%s` not evaluated" % show(h[1])[:80]
                    return False, "`%s`" % show(h)
                return False, "pieces %s" % [(k, v if k == "lit" else show(v)[:40]) for k, v in rest]
            template_rule(ctx, chk, rule, f2, name_term, MANUAL_TABLE, src_of, tail2, "inputs/manual_robot_", sx=sx2)


def r3_matrix_max(ctx, chk, rule="C17.4"):
    """The manual entry point names the file after the maximum of the whole reward / arrow table."""
    q = "stochastic_game_from_roborta_board.py::get_max_from_matrix"
    if not ctx.prog.has_func(q):
        return
    f = ctx.func(q)
    sx = SymX(ctx, f).run()
    r = sx.ret
    m = ("v", f.params[0])
    ok = False
    if r[0] == "call" and r[1] == "max" and len(r[2]) == 1 and r[2][0][0] == "compr":
        L = sx.loops[r[2][0][1]]
        if L.source == m and not L.filters and L.whole and L.elt == ("call", "max", (("elem", L.id),), ()):
            ok = True
    if ok:
        chk.ok(rule, f.where(), "get_max_from_matrix = max over all rows of max(row)")
    elif r == ("call", "max", (("call", "max", (m,), ()),), ()):
        chk.violation(rule, f.where(), "get_max_from_matrix is max(max(matrix)): the maximum of the lexicographically greatest ROW, not of the whole table - "
                      "rewards [[3,0],[1,5]] are named r3, and a down-only tile outside that row drops the force_down flag", expected="max(max(row) for row in matrix)", found=show(r),
                      construct="get_max_from_matrix lexicographic")
    else:
        chk.undecided(rule, f.where(), "get_max_from_matrix returns `%s`" % show(r)[:100])


def run(ctx, chk):
    shared.rule_single_use_iterators(ctx, chk, "C17.0:iter", shared.GENERATOR_MODULES)
    shared.rule_mutable_defaults(ctx, chk, "C17.0:defaults", shared.GENERATOR_MODULES)      # a call must not depend on the calls made before it
    from . import C15 as _C15
    _C15.parse_args_source(ctx, chk, "C17.2")        # the name states the parameters of this invocation only if this invocation's arguments are parsed
    r3_matrix_max(ctx, chk)
    r1_conversion(ctx, chk)
    r2_templates(ctx, chk)
    C08.argument_swap_rule(ctx, chk, "C17.3")
    # the seed in the name identifies the board only if the board is a function of that seed (and of nothing else)
    from . import C15
    C15.r3_reproducible(ctx, chk, "C17.pre:C15.3")
    chk.require_instances("C17.1", 1)
    chk.require_instances("C17.2", 2)
