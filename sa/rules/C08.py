"""C08 - generated games encode the Roborta board rules faithfully (abstract bisimulation for all board sizes)."""
import ast
from collections import Counter

from ..loader import AnalysisError, attr_path, src, walk_no_nested_defs, norm_stmt, call_name
from ..symx import show, C, is_const
from ..genabs import (Game, Poly, Undecided, WrongTile, WrongRowCount, position_cases, model_edges, wrap_column, is_last_row, OWNER, P1, P2, PR, FRESH)
from . import shared

EXPLANATION = (
    "Abstract bisimulation between the emitted games and a rule model of Roborta, for all board sizes at once: the "
    "three write_robot_* functions are summarised symbolically (builders inlined) into blocks of L*W states plus "
    "two tail states; for every block paired with a model role (starting from Light = the block of state 0) and "
    "every case of the exact partition {W=1; W>=2,j=0; W>=2,j=W-1; W>=3,interior} x {L=1; L>=2,last row; L>=2,other "
    "row} x arrows in {<-,<>,->,v} x loose in {0,1}, the entry's labels / probabilities and target index polynomials "
    "(over non-negative fresh variables, compared by polynomial identity) must equal the model's; owners and rewards "
    "of paired blocks must agree; Win is the only final state and both tails are absorbing. Board values only pass "
    "through comparisons, so agreement in every case is agreement for every board. Also an argument-swap rule over "
    "all positional call sites of the generator modules."
    ' Also: the game writers keep no module-level state between calls (0:state) and change no mutable default argument (0:defaults).'
    ' No one-shot iterator is walked twice or kept at module level (0:iter); no dictionary is keyed by a probability and its complement (0:keys).')
ASSUMPTIONS = [
    "moves[i][j] in {0,1,2,3} and loose_tiles[i][j] in {0,1} (value sets established by C15.5 for generated boards)",
    "rewards/moves/loose_tiles are length x width tables (C15.4)",
    "a failed move leaves the robot on its tile via the tile's arrival state (the code's stated intent, frozen in the model)",
]
TECHNIQUE = "abstract interpretation over polynomial index domain + exact case partition; bisimulation against a rule model (ast)"

GAMES = {"A": "roberta_generator.py::write_robot_A", "B": "roberta_generator.py::write_robot_B", "C": "roberta_generator.py::write_robot_C"}
MOVES = {0: "<-", 1: "<>", 2: "->", 3: "v"}


def game(ctx, g):
    key = ("genabs", g)
    if key not in ctx.cache:
        ctx.cache[key] = Game(ctx, GAMES[g])
    return ctx.cache[key]


def probs_of(G):
    ps = G.func.params
    def sym(stem):
        c = [p for p in ps if stem in p]
        return Poly.sym(c[0]) if c else Poly.sym("<absent %s>" % stem)
    return sym("tile_break"), sym("robot_break"), sym("light_break")


class Pairing:
    def __init__(self, G, gname, fine=False):
        self.G, self.gname = G, gname
        # a post-processing helper introduces comparisons between successor indices: the coarse partition is exact only
        # for the comparisons of the builders, so the finer one (W in {1,2,3,>=4}) is used then
        self.cases = position_cases(fine or getattr(G, "post", None) is not None)
        self.role_block = {"Light": 0}
        self.tail = {}
        self.nb = len(G.blocks)
        self.problems = []      # (where, text, expected, found, construct)
        self.undecided = []
        self.checked = 0
        self.samples = []

    def expected_target(self, case, tgt):
        """('role', name, Poly offset within block) | ('tail', name)."""
        if tgt[0] == "T":
            return ("tail", tgt[1])
        if tgt[0] == "BELOW":
            if is_last_row(case):
                return ("tail", "win")
            return ("role", "Arrive", (case.i + 1) * case.W + case.j)
        _, role, dj = tgt
        return ("role", role, case.i * case.W + wrap_column(case, dj))

    def candidates(self, case, poly, exp):
        """Block index / tail slot that makes `poly` the index of the expected state, or None."""
        if exp[0] == "tail":
            rem = poly - self.nb * case.n
            if rem.is_const() and rem.const_value() in (0, 1):
                return ("tail", int(rem.const_value()))
            return None
        rem = poly - exp[2]
        for b in range(self.nb):
            if (rem - b * case.n).is_zero():
                return ("block", b)
        return None

    def run(self):
        G = self.G
        probs = probs_of(G)
        todo = ["Light"]
        done = set()
        while todo:
            role = todo.pop(0)
            if role in done:
                continue
            done.add(role)
            b = self.role_block[role]
            block = G.blocks[b]
            votes = {}        # referenced role / tail -> Counter of candidates
            records = []
            for case in self.cases:
                for m in (0, 1, 2, 3):
                    for lt in (0, 1):
                        exp_edges = model_edges(self.gname, role, m, lt, probs)
                        if exp_edges is None:
                            continue
                        try:
                            ce, entry = G.entry(block, case, m, lt)
                        except WrongTile as e:
                            pr = (self.where(block), str(e), "the builders read the board only at the tile whose state they build", "another tile's entry",
                                  "%s block %d reads another tile" % (self.gname, b))
                            if pr[4] not in [q[4] for q in self.problems]:
                                self.problems.append(pr)
                            continue
                        except WrongRowCount as e:
                            pr = (self.where(block), str(e), "one state per tile in every block", "several entries for one tile",
                                  "%s block %d several entries per tile" % (self.gname, b))
                            if pr[4] not in [q[4] for q in self.problems]:
                                self.problems.append(pr)
                            continue
                        except Undecided as e:
                            self.undecided.append(("%s block %d (%s)" % (self.gname, b, block.builder), str(e)))
                            continue
                        self.checked += 1
                        records.append((case, m, lt, exp_edges, ce, entry))
            # first pass: vote for the blocks of referenced roles
            parsed = []
            for case, m, lt, exp_edges, ce, entry in records:
                try:
                    code_edges = self.parse_entry(ce, entry, OWNER[role] != PR)
                except Undecided as e:
                    self.undecided.append(("%s block %d (%s)" % (self.gname, b, block.builder), str(e)))
                    continue
                parsed.append((case, m, lt, exp_edges, code_edges))
                for key, tgt in exp_edges:
                    exp = self.expected_target(case, tgt)
                    ref = exp[1]
                    for ckey, cpoly in code_edges:
                        if self.same_key(key, ckey):
                            cand = self.candidates(case, cpoly, exp)
                            if cand is not None:
                                votes.setdefault((exp[0], ref), Counter())[cand] += 1
            for (kind, ref), cnt in votes.items():
                best = cnt.most_common(1)[0][0]
                if kind == "tail":
                    if ref not in self.tail:
                        self.tail[ref] = best[1]
                else:
                    if ref not in self.role_block:
                        if best[1] in self.role_block.values():
                            other = [r for r, bb in self.role_block.items() if bb == best[1]][0]
                            self.problems.append((self.where(block), "block %d would play two roles: %s and %s" % (best[1], other, ref),
                                                  "one role per block", "%s and %s" % (other, ref), "%s block %d two roles" % (self.gname, best[1])))
                        self.role_block[ref] = best[1]
                        todo.append(ref)
            # second pass: verify
            for case, m, lt, exp_edges, code_edges in parsed:
                self.compare(role, block, case, m, lt, exp_edges, code_edges)
        return self

    def where(self, block):
        return "roberta_generator.py %s (game %s block %d)" % (block.builder, self.gname, block.index)

    @staticmethod
    def same_key(k, ck):
        if isinstance(k, str) or isinstance(ck, str):
            return k == ck
        return k == ck

    def parse_entry(self, ce, entry, player):
        """[(label str | prob Poly, target Poly)]"""
        if entry is None:
            raise Undecided("no entry appended for this tile")
        if entry[0] == "pyentry":
            out = []
            for k, tp in entry[1]:
                out.append((k, tp))
            return out
        if entry[0] != "list":
            raise Undecided("entry `%s` is not a list display" % show(entry)[:80])
        out = []
        for t in entry[1]:
            t = ce.ev(t)
            if t[0] != "tup" or len(t[1]) != 2:
                raise Undecided("transition `%s` is not a pair" % show(t)[:80])
            k, tgt = t[1]
            tp = ce.poly(tgt)
            if is_const(k) and isinstance(k[1], str):
                out.append((k[1], tp))
            else:
                try:
                    kp = ce.poly(k)
                except Undecided:
                    kp = Poly.sym("{%s}" % show(k))     # opaque probability expression: compared as an unknown
                out.append((kp, tp))
        return out

    def compare(self, role, block, case, m, lt, exp_edges, code_edges):
        G = self.G
        where = self.where(block)
        ctx_text = "role %s, case %s, arrows %s, %s tile" % (role, case.name, MOVES[m], "loose" if lt else "firm")
        player = OWNER[role] != PR
        exp = []
        for key, tgt in exp_edges:
            e = self.expected_target(case, tgt)
            if e[0] == "tail":
                if e[1] not in self.tail:
                    self.problems.append((where, "%s: no transition reaches the %s state" % (ctx_text, e[1]), "tail state", "none", "%s %s %s unreachable" % (self.gname, role, e[1])))
                    continue
                poly = self.nb * case.n + self.tail[e[1]]
            else:
                if e[1] not in self.role_block:
                    self.problems.append((where, "%s: no block plays the role %s" % (ctx_text, e[1]), "a block for " + e[1], "none", "%s role %s missing" % (self.gname, e[1])))
                    continue
                poly = self.role_block[e[1]] * case.n + e[2]
            exp.append((key, poly, e))
        if len(self.samples) < 6:
            self.samples.append({"game": self.gname, "block": block.index, "builder": block.builder, "role": role, "case": case.name,
                                 "arrows": MOVES[m], "loose": lt, "code": [(str(k), repr(p)) for k, p in code_edges],
                                 "model": [(str(k), repr(p)) for k, p, _ in exp]})
        if player:
            cd = {}
            for k, p in code_edges:
                if not isinstance(k, str):
                    self.problems.append((where, "%s: a player state has a non-string action `%r`" % (ctx_text, k), "string label", repr(k), "%s %s label type" % (self.gname, role)))
                    return
                if k in cd:
                    self.problems.append((where, "%s: action %r offered twice" % (ctx_text, k), "distinct labels", k, "%s %s duplicate label" % (self.gname, role)))
                cd[k] = p
            ed = {k: (p, e) for k, p, e in exp}
            for k in sorted(set(cd) | set(ed)):
                if k not in ed:
                    self.problems.append((where, "%s: the code offers action %r which the rules do not allow here" % (ctx_text, k),
                                          "actions %s" % sorted(ed), "actions %s" % sorted(cd), "%s %s extra action %s (%s)" % (self.gname, role, k, MOVES[m])))
                elif k not in cd:
                    self.problems.append((where, "%s: the rules allow action %r but the code does not offer it" % (ctx_text, k),
                                          "actions %s" % sorted(ed), "actions %s" % sorted(cd), "%s %s missing action %s (%s)" % (self.gname, role, k, MOVES[m])))
                elif not (cd[k] - ed[k][0]).is_zero():
                    self.problems.append((where, "%s: action %r leads to state index %r; the rules lead to %s = index %r" % (
                        ctx_text, k, cd[k], self.describe(ed[k][1]), ed[k][0]), repr(ed[k][0]), repr(cd[k]),
                        "%s %s %s target (%s)" % (self.gname, role, k, case.col if k in ("Left", "Right") else case.row)))
        else:
            cdist, edist = {}, {}
            for k, p in code_edges:
                if isinstance(k, str):
                    self.problems.append((where, "%s: a probabilistic state has a string label %r" % (ctx_text, k), "probability", k, "%s %s prob label" % (self.gname, role)))
                    return
                cdist[p] = cdist.get(p, Poly()) + k
            for k, p, e in exp:
                edist[p] = edist.get(p, Poly()) + k
            if cdist != edist:
                self.problems.append((where, "%s: the code's distribution is {%s}; the rules give {%s}" % (
                    ctx_text, ", ".join("%r -> state %r" % (v, k) for k, v in cdist.items()), ", ".join("%r -> %s" % (v, self.describe_poly(k, exp)) for k, v in edist.items())),
                    {repr(k): repr(v) for k, v in edist.items()}, {repr(k): repr(v) for k, v in cdist.items()},
                    "%s %s distribution (%s, %s)" % (self.gname, role, case.col, case.row)))

    def describe(self, e):
        if e[0] == "tail":
            return "the %s state" % e[1]
        return "%s at in-block offset %r" % (e[1], e[2])

    def describe_poly(self, p, exp):
        for k, poly, e in exp:
            if poly == p:
                return self.describe(e) + " (index %r)" % p
        return repr(p)


def structure_rules(ctx, chk, G, gname, pairing, rule="C08.2"):
    """Owners and rewards of paired blocks, tails, final states."""
    where = "roberta_generator.py %s" % G.func.name
    case = position_cases()[-1]   # generic case: lengths are polynomials in n = L*W
    n = case.n
    try:
        pseg = G.segments("players", case)
        rseg = G.segments("rewards", case)
    except Undecided as e:
        chk.undecided(rule, where, str(e))
        return

    def at_block(segs, b):
        """value term covering block b (indices [b*n, (b+1)*n)), or None if the block straddles segments."""
        start = Poly()
        for val, ln in segs:
            end = start + ln
            lo = (b * n - start).sign(FRESH)
            hi = (end - (b + 1) * n).sign(FRESH)
            if lo in ("0", "+", ">=0") and hi in ("0", "+", ">=0"):
                return val
            start = end
        return None

    def at_tail(segs, k):
        start = Poly()
        for val, ln in segs:
            end = start + ln
            if (pairing.nb * n + k - start).sign(FRESH) in ("0", "+", ">=0") and (end - (pairing.nb * n + k + 1)).sign(FRESH) in ("0", "+", ">=0"):
                return val
            start = end
        return None
    inv = {b: r for r, b in pairing.role_block.items()}
    for b in range(pairing.nb):
        role = inv.get(b)
        owner = at_block(pseg, b)
        rew = at_block(rseg, b)
        if role is None:
            continue
        if owner is None or not is_const(owner):
            chk.undecided(rule, where, "owner of block %d (%s) not determined" % (b, role))
        elif owner[1] != OWNER[role]:
            chk.violation(rule, where, "game %s: block %d plays the role %s and must belong to %s, but the players list gives it to %s" % (gname, b, role, OWNER[role], owner[1]),
                          expected=OWNER[role], found=owner[1], construct="%s block %d owner" % (gname, b))
        else:
            chk.ok(rule, where, "game %s block %d = %s: owner %s" % (gname, b, role, owner[1]))
        want_tile = role == "Light"
        if rew is None:
            chk.undecided(rule, where, "reward of block %d not determined" % b)
        elif want_tile and not (rew[0] == "tile" and rew[1] == ("v", G.names["rewards"])):
            chk.violation(rule, where, "game %s: the tile rewards are not collected on the light's turn (block %d has reward `%s`)" % (gname, b, show(rew)),
                          expected="flatten(rewards)", found=show(rew), construct="%s light reward" % gname)
        elif not want_tile and rew != C(0):
            chk.violation(rule, where, "game %s: block %d (%s) carries reward `%s`; only the light's states carry the tile reward" % (gname, b, role, show(rew)),
                          expected="0", found=show(rew), construct="%s block %d reward" % (gname, b))
        elif want_tile:
            chk.ok(rule, where, "game %s: tile rewards (row-major flatten of the rewards table) sit on the Light block" % gname)
    # tails
    if "final_states" not in G.dict:
        chk.violation(rule, where, "game %s is emitted without a 'final_states' entry (keys %s)" % (gname, sorted(G.dict)), expected="final_states = [Win]", found=sorted(G.dict),
                      construct="%s final states missing" % gname)
        return
    fin = G.dict["final_states"]
    ce_case = case
    from ..genabs import CaseEval
    ce = CaseEval(G.sx, case, {G.L: case.L, G.W: case.W}, 0, 0, G.names)
    if ("win" not in pairing.tail or "lose" not in pairing.tail) and getattr(pairing, "undecided", None):
        chk.undecided(rule, where, "game %s: the pairing of the blocks was not completed (%d undecided), so the winning / losing states were not reached" % (gname, len(pairing.undecided)))
        return
    if "win" not in pairing.tail or "lose" not in pairing.tail:
        chk.violation(rule, where, "game %s: winning / losing state not both reached (%s)" % (gname, pairing.tail), expected="win and lose", found=str(pairing.tail),
                      construct="%s tails" % gname)
        return
    if pairing.tail["win"] == pairing.tail["lose"]:
        chk.violation(rule, where, "game %s: the winning and the losing state are the same state" % gname, expected="distinct", found=str(pairing.tail), construct="%s tails equal" % gname)
    if fin[0] == "list" and len(fin[1]) == 1 and (ce.poly(fin[1][0]) - (pairing.nb * n + pairing.tail["win"])).is_zero():
        chk.ok(rule, where, "game %s: final_states = [Win] (index %r)" % (gname, ce.poly(fin[1][0])))
    else:
        chk.violation(rule, where, "game %s: final_states is `%s`; the rules make the winning state (tail %d) the only final state" % (gname, show(fin), pairing.tail["win"]),
                      expected="[%d*n + %d]" % (pairing.nb, pairing.tail["win"]), found=show(fin), construct="%s final states" % gname)
    for name in ("win", "lose"):
        k = pairing.tail[name]
        if k >= len(G.tail):
            chk.violation(rule, where, "game %s: tail state %d missing" % (gname, k), expected="two tail states", found=len(G.tail), construct="%s tail missing" % gname)
            continue
        t = G.tail[k]
        try:
            items = G.tail_entry(k, case)
        except Undecided as e:
            chk.undecided(rule, where, str(e))
            continue
        ok = items is not None and len(items) == 1 and isinstance(items[0][0], Poly) and (items[0][0] - 1).is_zero() \
            and (items[0][1] - (pairing.nb * n + k)).is_zero()
        owner = at_tail(pseg, k)
        rew = at_tail(rseg, k)
        if ok and owner == C(PR) and rew == C(0):
            chk.ok(rule, where, "game %s: %s state is absorbing [(1, self)], probabilistic, reward 0" % (gname, name))
        else:
            chk.violation(rule, where, "game %s: the %s state is `%s` (owner %s, reward %s); it must be absorbing with reward 0" % (
                gname, name, show(t), show(owner) if owner else None, show(rew) if rew else None), expected="[(1, self)]", found=show(t), construct="%s %s tail" % (gname, name))


def argument_swap_rule(ctx, chk, rule="C08.3", modules=("roberta_generator.py", "stochastic_game_from_roborta_board.py")):
    """A positional argument that is a bare name equal to the name of a *different* parameter of the callee."""
    n = hits = 0
    # the board and its parameters, as the entry points name them: these travel down the call chain under their own names
    watch = set()
    for f in ctx.prog.all_funcs(modules):
        if not f.cls and f.name in ("write_robots", "gen_rnd_board", "create_sg_from_board", "check_input"):
            watch |= set(f.params)
    for f in ctx.prog.all_funcs(modules):
        own = set(f.params) | {x.id for x in walk_no_nested_defs(f.node) if isinstance(x, ast.Name) and isinstance(x.ctx, ast.Store)}
        for call, callees in ctx.cg.call_sites(f):
            if len(callees) != 1:
                continue
            g = callees[0]
            params = [p for p in g.params if p != "self"]
            decos = {d.id for d in g.node.decorator_list if isinstance(d, ast.Name)}
            if g.cls and "classmethod" in decos and params:
                params = params[1:]                 # the class itself is not passed at the call site
            flat = []
            for a in call.args:
                if isinstance(a, ast.Starred):
                    # `*board` with `board = (length, width, ...)` bound once in this function: its elements, in place
                    defs_ = [st for st in walk_no_nested_defs(f.node) if isinstance(a.value, ast.Name) and isinstance(st, (ast.Assign, ast.AugAssign, ast.For, ast.With, ast.NamedExpr))
                             and any(isinstance(x, ast.Name) and isinstance(x.ctx, ast.Store) and x.id == a.value.id for x in ast.walk(st))]
                    if len(defs_) == 1 and isinstance(defs_[0], ast.Assign) and len(defs_[0].targets) == 1 and isinstance(defs_[0].targets[0], ast.Name) \
                            and isinstance(defs_[0].value, (ast.Tuple, ast.List)) and not any(isinstance(e_, ast.Starred) for e_ in defs_[0].value.elts) \
                            and a.value.id not in f.params:
                        flat.extend(defs_[0].value.elts)
                        continue
                    break                           # positions after an unpacked sequence of unknown length are not known from the text
                flat.append(a)
            for pos, a in enumerate(flat):
                name = a.id if isinstance(a, ast.Name) else (a.attr if isinstance(a, ast.Attribute) else None)
                if name is None or pos >= len(params):
                    continue
                n += 1
                want = params[pos]
                if isinstance(a, ast.Name) and name != want and name not in params and want in own and name in own and want in watch and name in watch:
                    # the caller has its own `want` and hands over another of the board's parameters instead
                    defs = [st for st in walk_no_nested_defs(f.node) if isinstance(st, ast.Assign) and any(isinstance(t, ast.Name) and t.id == name for t in st.targets)]
                    if not (defs and all(isinstance(st.value, ast.Name) and st.value.id == want for st in defs)):
                        hits += 1
                        chk.violation(rule, f.where(call), "`%s` is passed as argument %d (`%s`) of %s although %s has its own `%s`: the game is built with the wrong parameter" % (
                            name, pos + 1, want, g.short, f.short, want), expected="%s" % want, found=name, construct="%s -> %s argument %s := %s" % (f.short, g.short, want, name))
                        continue
                if name != params[pos] and name in params:
                    hits += 1
                    chk.violation(rule, f.where(call), "`%s` is passed as argument %d (`%s`) of %s, which also has a parameter named `%s`: arguments exchanged" % (
                        name, pos + 1, params[pos], g.short, name), expected="%s in position %d" % (name, params.index(name) + 1), found="position %d" % (pos + 1),
                        construct="%s -> %s argument %s" % (f.short, g.short, name))
            for k in call.keywords:
                if k.arg and isinstance(k.value, ast.Name) and k.value.id != k.arg and k.value.id in params:
                    n += 1
                    hits += 1
                    chk.violation(rule, f.where(call), "keyword `%s=%s` of %s: the value is named like another parameter" % (k.arg, k.value.id, g.short),
                                  expected="%s=%s" % (k.arg, k.arg), found="%s=%s" % (k.arg, k.value.id), construct="%s -> %s keyword %s" % (f.short, g.short, k.arg))
    if not hits:
        chk.ok(rule, ", ".join(modules), "argument-swap rule: %d name-valued arguments at resolved call sites, none named like a different parameter of the callee" % n)
    return n


def run_pairings(ctx, chk, fine=False, rule="C08.1"):
    out = {}
    for gname in "ABC":
        try:
            G = game(ctx, gname)
        except Undecided as e:
            chk.undecided(rule, GAMES[gname], str(e))
            continue
        p = Pairing(G, gname, fine).run()
        out[gname] = p
        seen = set()
        for where, text, expected, found, construct in p.problems:
            if construct in seen:
                continue
            seen.add(construct)
            chk.violation(rule, where, "game %s: %s" % (gname, text), expected=expected, found=found, construct=construct)
        useen = set()
        for where, text in p.undecided:
            if (where, text) in useen:
                continue
            useen.add((where, text))
            chk.undecided(rule, where, text)
        if not p.problems and not p.undecided:
            chk.ok(rule, GAMES[gname].split("::")[1], "game %s: %d (block, case, arrows, loose) combinations agree with the rule model; roles -> blocks %s, tails %s" % (
                gname, p.checked, dict(sorted(p.role_block.items(), key=lambda kv: kv[1])), p.tail))
        chk.extra.setdefault("pairings", {})[gname] = {"roles": p.role_block, "tails": p.tail, "combinations": p.checked}
        chk.extra.setdefault("bisimulation_samples", []).extend(p.samples[:2])
    return out


def manual_counter_rule(ctx, chk, rule="C08.6", modules=("roberta_generator.py", "stochastic_game_from_roborta_board.py")):
    """A hand-kept element number (`tile = 0; for ..: ...; tile += 1`) that is USED on a path which leaves the iteration through
    `continue` before the increment: the element after it gets the same number (every later tile is shifted by one)."""
    n = hits = 0
    for f in ctx.prog.all_funcs(modules):
        for lp in walk_no_nested_defs(f.node):
            if not isinstance(lp, (ast.For, ast.While)):
                continue
            incs = [(i, st) for i, st in enumerate(lp.body) if isinstance(st, ast.AugAssign) and isinstance(st.op, ast.Add) and isinstance(st.target, ast.Name)
                    and isinstance(st.value, ast.Constant) and st.value.value == 1]
            for idx, inc in incs:
                c = inc.target.id
                n += 1
                for st in lp.body[:idx]:
                    for br in ast.walk(st):
                        if not isinstance(br, ast.If):
                            continue
                        for block in (br.body, br.orelse):
                            if block and isinstance(block[-1], ast.Continue):
                                used = any(isinstance(x, ast.Name) and x.id == c and isinstance(x.ctx, ast.Load) for b_ in block for x in ast.walk(b_))
                                bumped = any(isinstance(x, ast.AugAssign) and isinstance(x.target, ast.Name) and x.target.id == c for b_ in block for x in ast.walk(b_))
                                if used and not bumped:
                                    hits += 1
                                    chk.violation(rule, f.where(br), "the element number `%s` is used under `if %s` and the iteration is then left with `continue`, before `%s += 1`: "
                                                  "the next element gets the same number and every later one is off by one" % (c, src(br.test)[:40], c),
                                                  expected="%s += 1 on every path through the loop body" % c, found=norm_stmt(br)[:100],
                                                  construct="%s counter %s skipped by continue" % (f.short, c))
    if not hits:
        chk.ok(rule, ", ".join(modules), "hand-kept element counters: %d found, none used on a path that skips its increment" % n)


def run(ctx, chk):
    shared.rule_no_complement_keys(ctx, chk, "C08.0:keys", shared.GENERATOR_MODULES)
    shared.rule_no_module_level_iterators(ctx, chk, "C08.0:iter", shared.GENERATOR_MODULES)      # a one-shot iterator at module level is used up by the first file
    shared.rule_single_use_iterators(ctx, chk, "C08.0:iter", shared.GENERATOR_MODULES)
    shared.rule_no_module_state(ctx, chk, "C08.0:state", [ctx.func("roberta_generator.py::write_robots")] + [f_ for f_ in ctx.prog.all_funcs(("stochastic_game_from_roborta_board.py",)) if f_.name == "create_sg_from_board"], "a game file is written")
    shared.rule_mutable_defaults(ctx, chk, "C08.0:defaults", shared.GENERATOR_MODULES)      # a call must not depend on the calls made before it
    manual_counter_rule(ctx, chk)
    ps = run_pairings(ctx, chk)
    for gname, p in ps.items():
        structure_rules(ctx, chk, p.G, gname, p)
    argument_swap_rule(ctx, chk)
    if not shared.identity_on_values(ctx, chk, "C08.5", ("roberta_generator.py", "stochastic_game_from_roborta_board.py")):
        chk.ok("C08.5", "roberta_generator.py", "no identity comparison (`is`) between computed values in the generator")
    from . import C11
    C11.r1b_writes_unconditional(ctx, chk, "C08.pre:C11.1")      # what the model describes is what ends up in the file only if the file is written
    C11.r5_manual_entry(ctx, chk, "C08.4")      # the manual entry point hands the board and the probabilities on unchanged
    C11.r7_board_untouched(ctx, chk, "C08.pre:C11.5b")      # ... and nothing on the way modifies the board: the three games are written from the board that was given
    _canary(ctx, chk)
    chk.require_instances("C08.1", 3)
    chk.require_instances("C08.2", 20)


def thorough(ctx, chk):
    """Redundant finer partition: must agree with the coarse one (self-consistency of the case-decision procedure)."""
    ps = run_pairings(ctx, chk, fine=True, rule="C08.1f")


def _canary(ctx, chk):
    """The argument-swap rule must flag the exchanged call in the canary module."""
    import os
    from ..context import Ctx
    from ..report import Check
    here = os.path.join(os.path.dirname(os.path.dirname(os.path.dirname(os.path.abspath(__file__)))), "canaries")
    c2 = Ctx(here, modules=["arg_swap.py"])
    tmp = Check("canary", quiet=True)
    argument_swap_rule(c2, tmp, "canary", modules=("arg_swap.py",))
    fired = sum(1 for o in tmp.obls if o.status == "violation")
    chk.canary("arg_swap.py (two parameters exchanged at a call site)", fired == 1, "%d flagged" % fired)
