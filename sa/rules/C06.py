"""C06 - every well-formed stopping game is solved or declared unsolvable (exception discipline)."""
import ast

from ..loader import AnalysisError, attr_path, src, walk_no_nested_defs, norm_stmt, call_name, resolve_test_name
from ..symx import SymX, classify, show, C, TRUE, FALSE, simp, is_const, UNBOUND
from ..nf import SELF_NEXT, SF
from . import kernels as K
from . import C01, C02, C03, C07, shared

EXPLANATION = (
    "Decides exception discipline and the known crash / hang shapes, NOT termination of the two convergence loops "
    "(a numerical fact; only its structural necessary conditions are checked: change measure recomputed and reset "
    "every sweep, C01.4/C02.3). (1) every `raise` reachable from solve() constructs ValueError; (2) the 'no "
    "solution' error is raised iff R[0] == 0 and the prune flag, after the reachability sweep; (3) implicit "
    "exception sources, each with zero expected hits: in-loop list mutation (C03.1), fold-dependent unbound locals "
    "(arg-max/min successors are definitely assigned because the comparison is non-strict against a seed that "
    "cannot beat the first element), constant subscripts [0] dominated by a non-emptiness argument, recursion "
    "(call graph acyclic), division only by a surviving mass inside a comprehension over the survivors."
    ' Also: nothing computed by one solve is handed to the next (pre:C10.2).')
ASSUMPTIONS = ["expected rewards >= 0 and reach probabilities in [0,1] (element domains of the definite-assignment argument)",
               "probabilities of transitions are > 0 (generated games: C11; otherwise an input assumption)"]
TECHNIQUE = "raise census + guard normal form + fold-aware definite assignment + CFG dominance (ast)"

VIR = "tad.py::Solver.value_iteration_reachability"


def _abstract_stub(ctx, f):
    """f is a base-class method whose body is only `raise NotImplementedError(...)` and every class the solver instantiates
    (the node classes built by init_states) resolves the method to an override."""
    body = [st for st in f.node.body if not (isinstance(st, ast.Expr) and isinstance(st.value, ast.Constant))]
    if len(body) != 1 or not isinstance(body[0], ast.Raise):
        return False
    built = set(K.role_classes(ctx).values())
    if f.cls.name in built:
        return False
    for c in built:
        m = ctx.prog.resolve_method(c, f.name)
        if m is None or m is f or m.qual == f.qual:
            return False
    return True


def _option_guard(f, r):
    """The raise sits under `if` tests that look at nothing but optional parameters of its own function (and constants / builtins /
    types): a check of how an option is used (`solve(prune_states="yes")`), which the documented call - no option - cannot trip."""
    import builtins
    tests = []
    n = r
    while getattr(n, "parent", None) is not None and n.parent is not f.node:
        par = n.parent
        if isinstance(par, ast.If):
            tests.append(par.test)
        elif isinstance(par, (ast.For, ast.While, ast.Try, ast.With)):
            return False
        n = par
    if not tests:
        return False
    seen = set()
    for t in tests:
        for x in ast.walk(t):
            if isinstance(x, ast.Name):
                if x.id in f.defaults and not any(isinstance(y, ast.Name) and y.id == x.id and isinstance(y.ctx, ast.Store) for y in walk_no_nested_defs(f.node)):
                    seen.add(x.id)
                elif hasattr(builtins, x.id):
                    continue
                else:
                    return False
            elif isinstance(x, (ast.Attribute, ast.Subscript, ast.Call)) and not (isinstance(x, ast.Call) and isinstance(x.func, ast.Name) and x.func.id in ("isinstance", "type", "callable", "len")):
                return False
    return bool(seen)


def r1_raise_census(ctx, chk, rule="C06.1"):
    scope = shared.solver_scope(ctx)
    n = 0
    for f in scope:
        for r in walk_no_nested_defs(f.node):
            if not isinstance(r, ast.Raise):
                continue
            home = ctx.prog.funcs.get(f.qual)
            if home is not None and home.node is not f.node and not (home.node.lineno <= r.lineno <= (home.node.end_lineno or 10**9)):
                continue                # a helper's raise written into a pipeline view: judged where it is defined
            n += 1
            exc = r.exc
            name = None
            if isinstance(exc, ast.Name) and exc.id not in ctx.prog.classes and not hasattr(__import__("builtins"), exc.id):
                # `error = ValueError(...); error.detail = ...; raise error`: the object that the local was bound to
                try:
                    defs_ = ctx.cfg(f).defs_reaching(r, exc.id)
                except AnalysisError:
                    defs_ = set()
                if defs_ and all(isinstance(d_, ast.Assign) and isinstance(d_.value, ast.Call) for d_ in defs_) and len({call_name(d_.value) for d_ in defs_}) == 1:
                    exc = next(iter(defs_)).value
            if isinstance(exc, ast.Call):
                name = call_name(exc)
            elif isinstance(exc, ast.Name):
                name = exc.id
            if isinstance(exc, ast.Call) and name not in ctx.prog.classes and not hasattr(__import__("builtins"), name or "?"):
                # `raise self._error(...)`: a helper that builds the exception - its class is what the helper returns
                built_ = set()
                for g in ctx.cg.resolve(exc, f):
                    rets = [x for x in walk_no_nested_defs(g.node) if isinstance(x, ast.Return)]
                    for x in rets:
                        built_.add(call_name(x.value) if isinstance(x.value, ast.Call) else None)
                if built_ and None not in built_ and all(ctx.prog.exc_is_a(b_, "ValueError") for b_ in built_):
                    chk.ok(rule, f.where(r), "raise %s(...): builds %s" % (name, ", ".join(sorted(built_))))
                    continue
                if not built_ or None in built_ or not all(b_ in ctx.prog.classes or hasattr(__import__("builtins"), b_) for b_ in built_):
                    chk.undecided(rule, f.where(r), "`%s`: the class of the raised object is not resolved" % norm_stmt(r))
                    continue
                name = sorted(b_ for b_ in built_ if not ctx.prog.exc_is_a(b_, "ValueError"))[0]
            if name == "ValueError" or (name and ctx.prog.exc_is_a(name, "ValueError")):
                chk.ok(rule, f.where(r), "raise %s(...)%s" % (name, "" if name == "ValueError" else " - a ValueError"))
            elif exc is None:
                chk.undecided(rule, f.where(r), "bare re-raise")
            elif _option_guard(f, r):
                chk.ok(rule, f.where(r), "`%s` guards the value of an option of %s (a parameter with a default): the documented call does not pass it" % (norm_stmt(r)[:60], f.short))
            elif name == "NotImplementedError" and f.cls is not None and _abstract_stub(ctx, f):
                chk.ok(rule, f.where(r), "abstract stub: every node class that the game builds overrides %s, the base version cannot run" % f.name)
            elif name in ("KeyError", "IndexError") and _explicit_lookup_failure(ctx, f, r):
                chk.undecided(rule, f.where(r), "`%s` under a failed membership test of its own argument: the explicit form of the look-up that would fail anyway; "
                              "whether a well-formed game can get there is not decided here" % norm_stmt(r)[:80])
            else:
                chk.violation(rule, f.where(r), "solve() can fail with %s: `%s`; the documented failure mode is ValueError" % (name, norm_stmt(r)),
                              expected="ValueError", found=name, construct="%s raises %s" % (f.short, name))
    chk.extra["raise_sites"] = n


def _sweep_counters(f):
    """Names that count the sweeps of a convergence loop of f: incremented (`i += 1`, `i = i + 1`) inside a `while` loop, or the
    target of a `for .. in range(..)` loop that contains a kernel call."""
    out = set()
    for w in walk_no_nested_defs(f.node):
        if isinstance(w, ast.While):
            for n in ast.walk(w):
                if isinstance(n, ast.AugAssign) and isinstance(n.op, ast.Add) and isinstance(n.target, ast.Name):
                    out.add(n.target.id)
                if isinstance(n, ast.Assign) and len(n.targets) == 1 and isinstance(n.targets[0], ast.Name) and isinstance(n.value, ast.BinOp) \
                        and isinstance(n.value.op, ast.Add) and isinstance(n.value.left, ast.Name) and n.value.left.id == n.targets[0].id:
                    out.add(n.targets[0].id)
    return out


def r1c_budget_raises(ctx, chk, rule="C06.1c"):
    """'It never fails with any other error': a raise whose condition is the number of sweeps done so far (an iteration budget)
    fails the well-formed stopping games that need more sweeps than the budget - however large it is, slower games exist."""
    scope = shared.solver_scope(ctx)
    n = hits = 0
    for f in scope:
        home = ctx.prog.funcs.get(f.qual)
        if home is not None and home.node is not f.node:
            continue
        counters = _sweep_counters(f)
        # parameters that receive a sweep counter at some call site
        for g in scope:
            hg = ctx.prog.funcs.get(g.qual)
            if hg is not None and hg.node is not g.node:
                continue
            cg_ = _sweep_counters(g)
            if not cg_:
                continue
            for call, callees in ctx.cg.call_sites(g):
                if f not in callees:
                    continue
                params = [p_ for p_ in f.params if p_ != "self"]
                for pos, a in enumerate(call.args):
                    if isinstance(a, ast.Name) and a.id in cg_ and pos < len(params):
                        counters.add(params[pos])
                for k in call.keywords:
                    if k.arg and isinstance(k.value, ast.Name) and k.value.id in cg_:
                        counters.add(k.arg)
        for r in walk_no_nested_defs(f.node):
            if not isinstance(r, ast.Raise):
                continue
            n += 1
            tests = []
            p_ = r
            while p_ is not None and p_ is not f.node:
                par = getattr(p_, "parent", None)
                if isinstance(par, (ast.If, ast.While)) and p_ is not par.test:
                    tests.append(par.test)
                if isinstance(par, (ast.For, ast.While)) and p_ in par.orelse:
                    tests.append(None)
                p_ = par
            used = {x.id for t in tests if t is not None for x in ast.walk(t) if isinstance(x, ast.Name)}
            if _option_guard(f, r):
                continue
            if used & counters:
                # an option of the solver that is off in the documented configuration (`max_iterations=None`): the raise is dead there
                try:
                    sx_ = SymX(ctx, f, f.cls.name if f.cls is not None else None, inline_depth=0).run()
                    live = [e for e in sx_.final.effects if e[1] == "raise" and e[0] != FALSE] + \
                        [e for L_ in sx_.loops.values() for e in L_.effects if e[1] == "raise" and e[0] != FALSE]
                    if not live:
                        continue
                except AnalysisError:
                    pass
                hits += 1
                c = sorted(used & counters)[0]
                chk.violation(rule, f.where(r), "`%s` is raised when the sweep counter `%s` reaches a budget: a well-formed stopping game that needs more sweeps fails with an error "
                              "that is not the 'no solution' verdict" % (norm_stmt(r)[:70], c), expected="the sweeps run until the change is within the threshold",
                              found=norm_stmt(r)[:100], construct="%s iteration budget raise" % f.short)
    if not hits:
        chk.ok(rule, "tad.py, reverse_dfs.py", "%d raise statements in the solver's scope, none conditioned on the number of sweeps done" % n)


def r1b_try_census(ctx, chk, rule="C06.1b"):
    """No handler in the solver modules swallows or converts a validation / solver error: a handler that catches
    ValueError, Exception, BaseException (or everything) must re-raise a ValueError."""
    scope = shared.solver_scope(ctx)
    n = 0
    for f in scope:
        for t in walk_no_nested_defs(f.node):
            if not isinstance(t, ast.Try):
                continue
            for h in t.handlers:
                n += 1
                names = []
                ty = h.type
                if ty is None:
                    names = ["<bare>"]
                elif isinstance(ty, ast.Name):
                    names = [ty.id]
                elif isinstance(ty, ast.Tuple):
                    names = [e.id for e in ty.elts if isinstance(e, ast.Name)]
                broad = [x for x in names if x in ("<bare>", "Exception", "BaseException", "ValueError")]
                reraises = [r for s in h.body for r in ast.walk(s) if isinstance(r, ast.Raise)]
                ok_raise = reraises and all(r.exc is None or (isinstance(r.exc, ast.Call) and ctx.prog.exc_is_a(call_name(r.exc), "ValueError")) or
                                            (isinstance(r.exc, ast.Name) and r.exc.id == h.name) for r in reraises) \
                    and isinstance(h.body[-1], ast.Raise)
                if broad and not ok_raise:
                    chk.violation(rule, f.where(h), "`except %s` in %s does not re-raise: a validation or solver error is swallowed and solve() returns a result for a game it should reject" % (
                        ", ".join(names), f.short), expected="no swallowing handler in the solver", found=norm_stmt(h.body[0]) if h.body else "pass",
                        construct="%s swallows %s" % (f.short, ",".join(names)))
                elif not broad and reraises and not ok_raise:
                    chk.violation(rule, f.where(h), "`except %s` in %s re-raises something other than ValueError" % (", ".join(names), f.short), expected="ValueError", found=norm_stmt(reraises[0]),
                                  construct="%s converts to non-ValueError" % f.short)
                else:
                    chk.ok(rule, f.where(h), "handler `except %s` %s" % (", ".join(names), "re-raises ValueError" if ok_raise else "catches a specific non-validation exception"))
    if n == 0:
        chk.ok(rule, "tad.py, reverse_dfs.py", "no try/except in any function reachable from solve(): no error can be swallowed or converted")


def r2_no_solution(ctx, chk, rule="C06.2"):
    f = ctx.func(VIR)
    sx = SymX(ctx, f, "Solver", inline_depth=2).run()          # a helper used in the test is judged by its content
    raises = [(i, e) for i, e in enumerate(sx.final.effects) if e[1] == "raise"]
    loops_at = [i for i, e in enumerate(sx.final.effects) if e[1] == "loop" and sx.loops[e[2]].kind == "while"]
    slist = shared.SLIST(ctx)
    flag = [p for p in f.params if "prune" in p]
    if not flag:
        chk.undecided(rule, f.where(), "value_iteration_reachability has no prune flag parameter")
        return
    r0 = ("attr", simp(("idx", slist, C(0))), "reach_probability")
    want = simp(("and", (simp(("cmp", "==", r0, C(0))), ("truthy", ("v", flag[0])))))
    if len(raises) != 1:
        in_loops = sum(1 for l in sx.loops.values() for e in l.effects if e[1] == "raise")
        if not raises and not in_loops:
            chk.violation(rule, f.where(), "the 'no solution' error is never raised: with pruning on, a game whose initial state cannot reach a final state is 'solved' on an empty game",
                          expected="raise ValueError iff R[0] == 0 and prune", found="no raise", construct="no-solution raise missing")
        else:
            chk.undecided(rule, f.where(), "%d raise sites (+%d inside loops) in value_iteration_reachability" % (len(raises), in_loops))
        return
    i, e = raises[0]
    cond = e[0]
    if loops_at and i < loops_at[0]:
        chk.violation(rule, f.where(), "the 'no solution' test runs before the reachability sweep, when R[0] is still its initial value",
                      expected="after the sweep", found="before", construct="no-solution raise order")
        return
    fl = ("v", flag[0])
    conj = set(cond[1]) if cond[0] == "and" else {cond}
    zero_tests = {simp(("cmp", "==", r0, C(0))), simp(("not", ("truthy", r0))), simp(("cmp", "==", r0, C(0.0)))}
    flag_tests = {("truthy", fl), simp(("cmp", "==", fl, C(True))), simp(("cmp", "is", fl, C(True)))}
    others = conj - zero_tests - flag_tests
    r0_ok, flag_ok = bool(conj & zero_tests), bool(conj & flag_tests)
    about = [c for c in others if any(t in (r0, fl) for t in C02._sub(c))]
    if cond == want or (r0_ok and flag_ok and not others):
        chk.ok(rule, f.where(), "raise ValueError iff state_list[0].reach_probability == 0 and %s, after the sweep" % flag[0])
    elif about or not r0_ok or not flag_ok:
        # another test on the initial value (a tolerance, a rounding), the flag not consulted, or a further condition on either
        chk.violation(rule, f.where(), "the 'no solution' error is raised iff `%s`; specification: `%s`" % (show(cond), show(want)),
                      expected=show(want), found=show(cond), construct="no-solution guard")
    else:
        chk.undecided(rule, f.where(), "the 'no solution' error has a further condition that is not recognised: `%s`" % show(cond))


def r2b_flag_raises(ctx, chk, rule="C06.2b"):
    """Any other raise in the reachability phase whose condition involves the prune flag changes when 'no solution' is
    reported (and makes the outcome depend on the flag for games whose initial state has a positive value)."""
    for q in ("tad.py::Solver.solve_reachability", "tad.py::StochasticGame.solve"):
        f = ctx.func(q)
        cls = f.cls.name
        sx = SymX(ctx, f, cls, inline_depth=0).run()
        flags = [("v", p) for p in f.params if "prune" in p] + [("attr", ("v", "self"), shared.solver_names(ctx)["flag_field"])]
        effs = list(sx.final.effects)
        for L in sx.loops.values():
            effs += L.effects
        n = 0
        for e in effs:
            if e[1] == "raise" and any(t in flags for t in C02._sub(e[0])):
                n += 1
                cj = set(e[0][1]) if e[0][0] == "and" else {e[0]}
                zero = [c_ for c_ in cj if c_[0] == "cmp" and c_[1] == "==" and C(0) in (c_[2], c_[3]) and (c_[3] if c_[2] == C(0) else c_[2])[0] == "attr"
                        and (c_[3] if c_[2] == C(0) else c_[2])[2] == "reach_probability" and (c_[3] if c_[2] == C(0) else c_[2])[1][0] == "idx"
                        and (c_[3] if c_[2] == C(0) else c_[2])[1][2] == C(0)]
                flagt = [c_ for c_ in cj if c_ == ("truthy", flags[-1])]
                if q.endswith("StochasticGame.solve") and len(cj) == 2 and len(zero) == 1 and len(flagt) == 1 and e[2][0] == "call" and ctx.prog.exc_is_a(e[2][1], "ValueError"):
                    chk.ok(rule, f.where(), "%s raises ValueError iff <state list>[0].reach_probability == 0 and self.%s: the documented 'no solution' test, made in solve()" % (f.short, flags[-1][2]))
                    continue
                outside = [c_ for c_ in cj if c_[0] == "cmp" and c_[1] == "notin" and c_[2] == C(0) and any(t[0] == "call" and t[1] == "reverse_dfs" for t in C02._sub(c_[3]))]
                if q.endswith("solve_reachability") and zero and outside and any(c_ == ("truthy", fl_) for c_ in cj for fl_ in flags) \
                        and e[2][0] == "call" and ctx.prog.exc_is_a(e[2][1], "ValueError"):
                    # before the sweep `reach_probability == 0` says "state 0 is not final"; not being in the backward search's result it is
                    # never swept, so its value is still 0 at the documented test: the same verdict, given earlier
                    chk.ok(rule, f.where(), "%s raises early when pruning, state 0 is outside the backward search's result and its (initial) value is 0: that state is not swept, so the "
                           "documented 'no solution' test after the sweep would raise as well" % f.short)
                    continue
                if any(C02._unresolved_obj(ctx)(t) for t in C02._sub(e[0])):
                    chk.undecided(rule, f.where(), "%s raises under `%s`: the condition reads an object that is not resolved (the documented 'no solution' test may have moved here)" % (
                        f.short, show(e[0])[:100]))
                    continue
                chk.violation(rule, f.where(), "%s raises under `%s`: an extra pruning-dependent failure besides the documented 'no solution' test "
                              "(state_list[0].reach_probability == 0 and prune, after the sweep) - e.g. a final initial state or a state the search result does not list is declared unsolvable" % (f.short, show(e[0])[:160]),
                              expected="the only pruning-dependent raise is the no-solution guard in value_iteration_reachability", found=show(e[0])[:200],
                              construct="%s extra flag-dependent raise" % f.short)
        if not n:
            chk.ok(rule, f.where(), "%s has no raise whose condition involves the prune flag" % f.short)


def r3a_definite_assignment(ctx, chk, rule="C06.3a"):
    """Variables assigned only inside the `if` of a MAX/MIN fold and used after the loop."""
    roles = K.role_classes(ctx)
    n = 0
    for role, cls in roles.items():
        names = set()
        for c_ in ctx.prog.mro(cls):
            names |= set(ctx.prog.classes[c_].methods.keys())       # inherited template methods are run on this class too
        for meth in sorted(names):
            f = ctx.prog.resolve_method(cls, meth)
            if f is None or f.name.startswith("__") or f.name in ("check_next_states", "remove_path"):
                continue
            # a private helper that is only ever called as self.<helper>(...) from methods of the node classes is judged inside
            # those callers (it is inlined there, with the callers' guards on the path)
            callers = ctx.cg.callers_of(f)
            if f.name.startswith("_") and callers and all(g.cls is not None and g.cls.name in ctx.prog.mro(cls) + list(ctx.prog.subclasses(g.cls.name)) and isinstance(c.func, ast.Attribute)
                                                         and isinstance(c.func.value, ast.Name) and c.func.value.id == "self" and not getattr(c, "synthetic", False) for g, c in callers):
                continue
            try:
                k = K.kernel(ctx, cls, meth)
            except AnalysisError as e:
                chk.undecided(rule, f.where(), "symbolic execution failed: %s" % e)
                continue
            for lid, L in k.sx.loops.items():
                if L.kind != "for":
                    continue
                folds = classify(L)
                for v, fo in folds.items():
                    # unbound before the loop, or None before the loop (then an AttributeError / TypeError instead of an
                    # UnboundLocalError when no iteration assigns)
                    if fo is None or L.init.get(v, UNBOUND) not in (UNBOUND, C(None)) or (L.init.get(v, UNBOUND) == C(None) and fo.kind not in ("ARG", "LAST")):
                        continue
                    used_after = _used(k, ("res", lid, v))
                    if not used_after:
                        continue
                    n += 1
                    where = f.where(L.node)
                    if fo.kind == "LAST":
                        # assigned unconditionally in every iteration: bound iff the loop is non-empty
                        ne = _nonempty_guard(k, L)
                        if ne:
                            chk.ok(rule, where, "`%s` is assigned in every iteration and the loop source is non-empty on this path (%s)" % (v, ne))
                        else:
                            chk.undecided(rule, where, "`%s` is assigned only inside the loop and used after it; non-emptiness of `%s` not established" % (v, show(L.source)))
                        continue
                    if fo.kind == "ARG":
                        ext = folds[fo.of]
                        kf = k.kfold(("res", lid, fo.of))
                        ne = _nonempty_guard(k, L)
                        seed_ok = None
                        if ext.strict:
                            seed_ok = False
                            why = "the comparison is strict: when no successor beats the seed (`%s`) the variable is never assigned" % show(ext.init)
                        elif kf is not None and kf.init == ("first",) and kf.filter == TRUE:
                            seed_ok, why = True, "non-strict comparison against the value at the first element: the first iteration assigns"
                        elif is_const(ext.init) and ext.sense == "max" and ext.init[1] <= 0:
                            seed_ok, why = True, "non-strict comparison against %s and all values are >= 0: the first iteration assigns" % show(ext.init)
                        elif is_const(ext.init) and ext.sense == "min" and ext.init[1] >= 1 and _is_probability(ext.term):
                            seed_ok, why = True, "non-strict comparison against %s and all values are <= 1: the first iteration assigns" % show(ext.init)
                        else:
                            why = "seed `%s` may beat every successor" % show(ext.init)
                        if seed_ok and ne and L.filter == TRUE:
                            chk.ok(rule, where, "`%s` (arg-%s successor) is definitely assigned: %s; loop source non-empty (%s)" % (v, ext.sense, why, ne))
                        elif seed_ok is False or (seed_ok is None and is_const(ext.init)):
                            chk.violation(rule, where, "`%s` may be unbound after the loop (UnboundLocalError out of solve()): %s" % (v, why),
                                          expected="non-strict comparison against a seed that cannot beat the first element", found=kf.text() if kf else str(ext),
                                          construct="%s.%s unbound %s" % (cls, meth, v))
                        else:
                            chk.undecided(rule, where, "definite assignment of `%s` not established (%s; non-empty: %s; filter %s)" % (v, why, ne, show(L.filter)))
                        continue
                    chk.undecided(rule, where, "`%s` is first bound inside the loop (%s) and used after it" % (v, fo))
    chk.extra["fold_bound_variables"] = n


def _is_probability(term):
    return any(t[0] == "attr" and t[2] == "reach_probability" for t in C02._sub(term))


def _used(k, res_term):
    if any(t == res_term for t in C02._sub(k.ret)):
        return True
    for e in k.sx.final.effects:
        if any(t == res_term for t in C02._sub(e)):
            return True
    return False


def _explicit_lookup_failure(ctx, f, r):
    """`if x not in D: raise KeyError(x)` (the test possibly through a one-line predicate helper `return x in D`)."""
    p = getattr(r, "parent", None)
    if not (isinstance(p, ast.If) and r in p.body and len(p.body) == 1 and isinstance(r.exc, ast.Call) and len(r.exc.args) == 1 and isinstance(r.exc.args[0], ast.Name)):
        return False
    x = r.exc.args[0].id
    t = p.test
    neg = False
    while isinstance(t, ast.UnaryOp) and isinstance(t.op, ast.Not):
        neg, t = not neg, t.operand
    if isinstance(t, ast.Call) and t.args and isinstance(t.args[0], ast.Name) and t.args[0].id == x:
        gs = ctx.cg.resolve(t, f)
        if len(gs) != 1:
            return False
        body = [b for b in gs[0].node.body if not (isinstance(b, ast.Expr) and isinstance(b.value, ast.Constant))]
        if len(body) != 1 or not isinstance(body[0], ast.Return) or not isinstance(body[0].value, ast.Compare):
            return False
        c = body[0].value
        par = [a.arg for a in gs[0].node.args.args]
        if not (len(c.ops) == 1 and isinstance(c.left, ast.Name) and par and c.left.id == par[0]):
            return False
        op = c.ops[0]
    elif isinstance(t, ast.Compare) and len(t.ops) == 1 and isinstance(t.left, ast.Name) and t.left.id == x:
        op = t.ops[0]
    else:
        return False
    return (isinstance(op, ast.In) and neg) or (isinstance(op, ast.NotIn) and not neg)


def _nonempty_guard(k, L):
    """Text if the loop runs only on paths where its source is non-empty."""
    cond = None
    for e in k.sx.final.effects:
        if e[1] == "loop" and e[2] == L.id:
            cond = e[0]
    if cond is None:
        return None
    srcs = (("truthy", L.source), simp(("cmp", "!=", C(0), ("call", "len", (L.source,), ()))), simp(("cmp", "<", C(0), ("call", "len", (L.source,), ()))))
    le = k.listexpr(L.source)
    if le is not None and le[1] == TRUE and le[3] and isinstance(le[0], tuple):
        # one entry per element of the base list (a generator / comprehension without a filter): empty together
        b = le[0]
        srcs += (("truthy", b), simp(("cmp", "!=", C(0), ("call", "len", (b,), ()))), simp(("cmp", "<", C(0), ("call", "len", (b,), ()))))
    conj = cond[1] if cond[0] == "and" else (cond,)
    for c in conj:
        if c in srcs:
            return "path condition `%s`" % show(c)
    return None


def r3b_constant_subscripts(ctx, chk, rule="C06.3b"):
    """`X[0]` on a list: dominated by a non-emptiness test of X, or discharged by a recorded argument."""
    scope = [f for f in shared.solver_scope(ctx) if f.mod.name == "tad.py"]
    n = 0
    for f in scope:
        cls = f.cls.name if f.cls else None
        for node in walk_no_nested_defs(f.node):
            if not (isinstance(node, ast.Subscript) and isinstance(node.ctx, ast.Load) and isinstance(node.slice, ast.Constant)
                    and isinstance(node.slice.value, int)):
                continue
            base = node.value
            # tuple-slot reads (transition tuples, validated to have length 2) are not list subscripts
            bp = attr_path(base)
            if bp is None and not isinstance(base, (ast.ListComp, ast.Call)):
                continue
            if bp is not None and not bp.startswith("self."):
                # local names bound to transition tuples / dispatch results
                if not _is_list_name(f, bp):
                    continue
            n += 1
            where = f.where(node)
            text = src(base)
            if bp == "self.next_states":
                if _dominated_by_nonempty_test(ctx, f, node, "self.next_states"):
                    chk.ok(rule, where, "`%s[%d]` is dominated by a non-emptiness test of self.next_states" % (text, node.slice.value))
                elif _guarded_at_call_sites(ctx, f, 0):
                    chk.ok(rule, where, "`%s[%d]` in the helper %s: every call `self.%s(...)` is dominated by a non-emptiness test of self.next_states" % (
                        text, node.slice.value, f.short, f.name))
                else:
                    chk.violation(rule, where, "`%s[%d]` is evaluated without a dominating non-emptiness test: a state whose transitions were all pruned raises IndexError out of solve()" % (text, node.slice.value),
                                  expected="if not self.next_states: return ... before the subscript", found=norm_stmt(ctx.cfg(f).stmt_of(node)),
                                  construct="%s unguarded next_states[0]" % f.short)
            elif bp == "self." + shared.solver_names(ctx)["field"]:
                # the initial-state convention; a game without states is rejected by check_game (min()/max() of empty lists raise ValueError,
                # and init_states compares the number of nodes built with num_states)
                chk.ok(rule, where, "`%s[%d]`: initial-state convention; an empty state list cannot reach the solver (check_game/init_states dominate, C09.4)" % (text, node.slice.value))
            elif isinstance(base, ast.ListComp) or (isinstance(base, ast.Name) and _single_def_listcomp(ctx, f, node, base.id) is not None):
                comp0 = base if isinstance(base, ast.ListComp) else _single_def_listcomp(ctx, f, node, base.id)
                if len(comp0.generators) == 1 and not comp0.generators[0].ifs and attr_path(comp0.generators[0].iter) == "self.next_states" \
                        and _dominated_by_nonempty_test(ctx, f, node, "self.next_states"):
                    # one entry per transition, nothing filtered: empty exactly when the successor list is
                    chk.ok(rule, where, "`%s[%d]`: one entry per element of self.next_states (no filter), and the subscript is dominated by a non-emptiness test of self.next_states" % (text, node.slice.value))
                    continue
                ok = _filter_nonempty_argument(ctx, f, node)
                if ok:
                    chk.ok(rule, where, "`%s[0]`: %s" % (text, ok))
                else:
                    chk.undecided(rule, where, "`%s[0]`: non-emptiness of the filtered list not established" % text)
            else:
                chk.undecided(rule, where, "constant subscript on `%s`: non-emptiness not established" % text)
    chk.extra["constant_list_subscripts"] = n


def _is_list_name(f, name):
    for n in walk_no_nested_defs(f.node):
        if isinstance(n, ast.Assign) and any(isinstance(t, ast.Name) and t.id == name for t in n.targets) \
                and isinstance(n.value, (ast.List, ast.ListComp)):
            return True
    return False


def _emptiness(t, path):
    """'empty' / 'nonempty' if the test t holds exactly when the list at `path` is empty / non-empty; None otherwise."""
    if attr_path(t) == path:
        return "nonempty"
    if isinstance(t, ast.UnaryOp) and isinstance(t.op, ast.Not):
        r = _emptiness(t.operand, path)
        return {"empty": "nonempty", "nonempty": "empty"}.get(r)
    if isinstance(t, ast.Call) and call_name(t) == "len" and len(t.args) == 1 and attr_path(t.args[0]) == path:
        return "nonempty"
    if isinstance(t, ast.Call) and call_name(t) == "bool" and len(t.args) == 1:
        return _emptiness(t.args[0], path)
    if isinstance(t, ast.Compare) and len(t.ops) == 1:
        l, r, op = t.left, t.comparators[0], t.ops[0]

        def is_len(x):
            return isinstance(x, ast.Call) and call_name(x) == "len" and len(x.args) == 1 and attr_path(x.args[0]) == path

        def const(x):
            return x.value if isinstance(x, ast.Constant) and isinstance(x.value, int) and not isinstance(x.value, bool) else None
        if is_len(r) and const(l) is not None:          # c op len(X)  ->  len(X) op' c
            flip = {ast.Lt: ast.Gt, ast.Gt: ast.Lt, ast.LtE: ast.GtE, ast.GtE: ast.LtE, ast.Eq: ast.Eq, ast.NotEq: ast.NotEq}
            if type(op) not in flip:
                return None
            l, r, op = r, l, flip[type(op)]()
        if is_len(l) and const(r) is not None:
            c = const(r)
            if isinstance(op, ast.Eq) and c == 0 or isinstance(op, ast.Lt) and c == 1 or isinstance(op, ast.LtE) and c == 0:
                return "empty"
            if isinstance(op, ast.NotEq) and c == 0 or isinstance(op, ast.Gt) and c == 0 or isinstance(op, ast.GtE) and c == 1:
                return "nonempty"
        if isinstance(op, ast.Eq) and attr_path(l) == path and isinstance(r, ast.List) and not r.elts:
            return "empty"
        if isinstance(op, ast.NotEq) and attr_path(l) == path and isinstance(r, ast.List) and not r.elts:
            return "nonempty"
    return None


def _dominated_by_nonempty_test(ctx, f, node, path):
    cfg = ctx.cfg(f)
    for st in cfg.statements():
        if not isinstance(st, ast.If):
            continue
        kind = _emptiness(resolve_test_name(f.node, st.test), path)
        if kind is None or not cfg.dominates(st, node) or cfg.stmt_of(node) is st:
            continue
        leaves = lambda blk: bool(blk) and isinstance(blk[-1], (ast.Return, ast.Raise, ast.Continue, ast.Break))
        # guard clause: the branch taken for an empty list leaves; the use is not inside that branch
        empty_branch = st.body if kind == "empty" else st.orelse
        other_branch = st.orelse if kind == "empty" else st.body
        inside = lambda blk: any(node is x for b_ in blk for x in ast.walk(b_))
        if leaves(empty_branch) and not inside(empty_branch):
            return True
        # the use sits in the branch taken for a non-empty list
        if inside(other_branch):
            return True
    return False


def _guarded_at_call_sites(ctx, f, depth):
    """f is a private helper method (leading underscore) that is only called as `self.f(...)` from methods of the same object,
    and every such call is dominated by a non-emptiness test of self.next_states (in the caller, or in the caller's callers
    when the caller is itself such a helper); nothing between the test and the call rewrites the list."""
    if depth > 2 or f.cls is None or not f.name.startswith("_") or f.name.startswith("__"):
        return False
    sites = ctx.cg.callers_of(f)
    if not sites:
        return False
    for g, call in sites:
        if not (isinstance(call.func, ast.Attribute) and isinstance(call.func.value, ast.Name) and call.func.value.id == "self") or g.cls is None:
            return False
        if any(isinstance(x, ast.Attribute) and isinstance(x.ctx, (ast.Store, ast.Del)) and x.attr == "next_states" for x in walk_no_nested_defs(g.node)):
            return False
        if not (_dominated_by_nonempty_test(ctx, g, call, "self.next_states") or _guarded_at_call_sites(ctx, g, depth + 1)):
            return False
    # the method value must not escape (passed around and called elsewhere)
    for h in ctx.prog.all_funcs(("tad.py",)):
        for x in walk_no_nested_defs(h.node):
            if isinstance(x, ast.Attribute) and x.attr == f.name and isinstance(x.ctx, ast.Load) and not (isinstance(getattr(x, "parent", None), ast.Call) and x.parent.func is x):
                return False
    return True


def _single_def_listcomp(ctx, f, node, name):
    cfg = ctx.cfg(f)
    defs = cfg.defs_reaching(node, name)
    if len(defs) == 1:
        d = next(iter(defs))
        if isinstance(d, ast.Assign) and isinstance(d.value, ast.ListComp):
            return d.value
    return None


def _filter_nonempty_argument(ctx, f, node):
    """[s for s in S if s[0] in strategies][0] with `strategies` non-empty by a dominating test and computed as an
    arg-set over the same S by the only caller."""
    comp = node.value
    if isinstance(comp, ast.Name):
        comp = _single_def_listcomp(ctx, f, node, comp.id)
        if comp is None:
            return None
    if len(comp.generators) != 1 or len(comp.generators[0].ifs) != 1:
        return None
    test = comp.generators[0].ifs[0]
    if not (isinstance(test, ast.Compare) and isinstance(test.ops[0], ast.In) and isinstance(test.comparators[0], ast.Name)):
        return None
    strat = test.comparators[0].id
    cfg = ctx.cfg(f)
    guarded = False
    for st in cfg.statements():
        if isinstance(st, ast.If) and st.body and isinstance(st.body[-1], (ast.Return, ast.Raise)) and not st.orelse and cfg.dominates(st, node) \
                and _emptiness(resolve_test_name(f.node, st.test), strat) == "empty":
            guarded = True
    if not guarded or strat not in f.params:
        return None
    callers = ctx.cg.callers_of(f)
    if len(callers) != 1:
        return None
    g, call = callers[0]
    cls = g.cls.name
    k = K.kernel(ctx, cls, g.name)
    # the argument passed for `strat` is an ARGSET over self.next_states with label slot 0
    pos = [p for p in f.params if p != "self"].index(strat)
    arg = call.args[pos] if len(call.args) > pos else None
    if not isinstance(arg, ast.Name):
        return None
    cands = list(C02._sub(k.ret))
    for L in k.sx.loops.values():
        for u in list(L.filters or []) + list(L.init.values()) + [L.source]:
            cands += C02._sub(u)
    for t in cands:
        if t[0] in ("res", "compr"):
            kf = k.kfold(t)
            if kf is not None and kf.kind == "ARGSET" and kf.source == SELF_NEXT and kf.label == ("p",):
                return "`%s` is non-empty (dominating test) and the only caller (%s) passes an arg-set of labels drawn from the same successor list, so the filter keeps at least one element" % (strat, g.short)
    return None


def r3e_builtin_on_empty(ctx, chk, rule="C06.3e"):
    """max()/min() without default over a successor list that may be empty (all transitions pruned) raises a stray
    ValueError out of solve().  Lists are non-empty up to the reachability phase (validated); afterwards only under a
    dominating non-emptiness test."""
    str_f = ctx.func("tad.py::Solver.solve_total_rewards")
    post = set(ctx.cg.reachable([str_f]))
    roles = K.role_classes(ctx)
    n = 0
    for role, cls in roles.items():
        for meth in sorted(ctx.prog.classes[cls].methods):
            f = ctx.prog.resolve_method(cls, meth)
            if f not in post:
                continue
            k = K.kernel(ctx, cls, meth)
            for t in set(C02._sub(k.ret) + [x for e in k.sx.final.effects for x in C02._sub(e)] +
                         [x for L in k.sx.loops.values() for u in list(L.update.values()) + list(L.filters or []) + ([L.elt] if L.elt else []) for x in C02._sub(u)]):
                if t[0] == "call" and t[1] in ("max", "min") and len(t[2]) == 1 and t[2][0][0] == "compr" and "default" not in dict(t[3]):
                    L = k.sx.loops[t[2][0][1]]
                    root = L.source
                    while root[0] == "compr":
                        root = k.sx.loops[root[1]].source
                    if root != SELF_NEXT:
                        continue
                    n += 1
                    guarded = _ret_guarded_nonempty(k, t)
                    if guarded:
                        chk.ok(rule, f.where(), "%s.%s: %s() over the successors is evaluated only when the list is non-empty (%s)" % (cls, meth, t[1], guarded))
                    else:
                        chk.violation(rule, f.where(), "%s.%s evaluates %s() without default over the successor list after pruning: a state whose transitions were all pruned makes solve() fail with a stray "
                                      "'ValueError: %s() iterable argument is empty' (reported as an unsolvable game)" % (cls, meth, t[1], t[1]),
                                      expected="a non-emptiness test or default=", found=show(t)[:120], construct="%s.%s %s() on possibly empty successors" % (cls, meth, t[1]))
    chk.extra["builtin_extrema_post_pruning"] = n
    # the reachability sweep over the states that can reach a final state: that list is EMPTY when no non-final state reaches one
    # (a game whose initial state is cut off), so an extremum over it needs a default
    vir = ctx.prog.funcs.get("tad.py::Solver.value_iteration_reachability")
    if vir is not None and len(vir.params) > 1:
        dom = vir.params[1]

        def _under_nonempty_test(c):
            p_ = c
            while p_ is not None and p_ is not vir.node:
                par = getattr(p_, "parent", None)
                if isinstance(par, (ast.If, ast.IfExp)) and p_ is not par.test and any(isinstance(x, ast.Name) and x.id == dom for x in ast.walk(par.test)):
                    return True
                p_ = par
            return False
        for c in walk_no_nested_defs(vir.node):
            if isinstance(c, ast.Call) and call_name(c) in ("max", "min") and len(c.args) == 1 and isinstance(c.args[0], ast.Name) and c.args[0].id == dom \
                    and not any(k.arg == "default" for k in c.keywords) and not _under_nonempty_test(c):
                chk.violation(rule, vir.where(c), "`%s` has no default: when no state outside the final ones can reach a final state the swept list `%s` is empty and solve() fails with a stray "
                              "'ValueError: %s() iterable argument is empty' instead of the result / the 'no solution' error" % (src(c)[:70], dom, call_name(c)),
                              expected="default= (or a non-emptiness test)", found=src(c)[:100], construct="value_iteration_reachability %s() over an empty sweep" % call_name(c))
            # ... or over a list that the sweep fills with one entry per swept state (`diffs = []; for s in dom: diffs.append(..)`),
            # or an index-picker built from the swept states (`itemgetter(*dom)`: no argument at all for an empty list, the bare
            # item instead of a tuple for one)
            if isinstance(c, ast.Call) and call_name(c) in ("max", "min") and len(c.args) == 1 and isinstance(c.args[0], ast.Name) and c.args[0].id != dom \
                    and not any(k.arg == "default" for k in c.keywords) and not _under_nonempty_test(c):
                lst = c.args[0].id
                fills = [n_ for n_ in walk_no_nested_defs(vir.node) if isinstance(n_, ast.Call) and isinstance(n_.func, ast.Attribute) and n_.func.attr == "append"
                         and isinstance(n_.func.value, ast.Name) and n_.func.value.id == lst]
                inits = [n_ for n_ in walk_no_nested_defs(vir.node) if isinstance(n_, ast.Assign) and any(isinstance(t_, ast.Name) and t_.id == lst for t_ in n_.targets)]

                def _in_loop_over_dom(n_):
                    p_ = n_
                    while p_ is not None and p_ is not vir.node:
                        if isinstance(p_, ast.For) and isinstance(p_.iter, ast.Name) and p_.iter.id == dom:
                            return True
                        p_ = getattr(p_, "parent", None)
                    return False
                if fills and inits and all(isinstance(i_.value, ast.List) and not i_.value.elts for i_ in inits) and all(_in_loop_over_dom(n_) for n_ in fills):
                    chk.violation(rule, vir.where(c), "`%s` has no default and `%s` gets one entry per swept state: when no state outside the final ones can reach a final state the sweep "
                                  "is empty, so is the list, and solve() fails with a stray 'ValueError: %s() iterable argument is empty' instead of the result / the 'no solution' error"
                                  % (src(c)[:60], lst, call_name(c)), expected="default=0 (or a running maximum that starts from 0)", found=src(c)[:100],
                                  construct="value_iteration_reachability %s() over an empty sweep" % call_name(c))
            if isinstance(c, ast.Call) and call_name(c) in ("itemgetter", "operator.itemgetter") and any(isinstance(a_, ast.Starred) and isinstance(a_.value, ast.Name) and a_.value.id == dom for a_ in c.args):
                chk.violation(rule, vir.where(c), "`%s`: itemgetter needs at least one index (TypeError for an empty swept list) and returns the bare item, not a tuple, for exactly one - "
                              "a game with no or one non-final state that reaches a final state makes solve() fail with a stray TypeError" % src(c)[:60],
                              expected="a comprehension over the swept list", found=src(c)[:80], construct="value_iteration_reachability itemgetter over the sweep domain")
            if isinstance(c, ast.Subscript) and isinstance(c.value, ast.Name) and c.value.id == dom and isinstance(c.ctx, ast.Load) \
                    and isinstance(c.slice, (ast.Constant, ast.UnaryOp)) and not isinstance(getattr(c.slice, "value", 0), (str, type(None))) and not _under_nonempty_test(c):
                chk.violation(rule, vir.where(c), "`%s` reads an element of the swept list at a fixed position: when no state outside the final ones can reach a final state the list is empty and "
                              "solve() fails with a stray IndexError" % src(c)[:60], expected="a non-emptiness test", found=src(c)[:80],
                              construct="value_iteration_reachability fixed subscript of the sweep domain")
            if isinstance(c, ast.Call) and call_name(c) in ("max", "min") and len(c.args) == 1 and isinstance(c.args[0], (ast.GeneratorExp, ast.ListComp)) \
                    and not any(k.arg == "default" for k in c.keywords):
                it = c.args[0].generators[0].iter
                if isinstance(it, ast.Name) and it.id == dom:
                    chk.violation(rule, vir.where(c), "`%s` has no default: when no state outside the final ones can reach a final state the swept list `%s` is empty and solve() fails with a stray "
                                  "'ValueError: %s() iterable argument is empty' instead of the result / the 'no solution' error" % (src(c)[:70], dom, call_name(c)),
                                  expected="default=0 (or a loop that starts from 0)", found=src(c)[:100], construct="value_iteration_reachability %s() over an empty sweep" % call_name(c))


def _ret_guarded_nonempty(k, call_t):
    """Every evaluation of the call term (in the return value, inside comprehensions / loops it refers to) happens
    under a non-emptiness condition of self.next_states."""
    nonempty = (("truthy", SELF_NEXT), simp(("cmp", "!=", C(0), ("call", "len", (SELF_NEXT,), ()))), simp(("cmp", "<", C(0), ("call", "len", (SELF_NEXT,), ()))))
    empty = tuple(simp(("not", c)) for c in nonempty)
    seen_loops = set()
    found = []

    def walk(t, guarded):
        if not isinstance(t, tuple) or not t:
            return
        if not isinstance(t[0], str):
            for x in t:
                walk(x, guarded)
            return
        if t == call_t:
            found.append(guarded)
            return
        if t[0] == "ite":
            c = t[1]
            walk(c, guarded)
            walk(t[2], guarded or c in nonempty)
            walk(t[3], guarded or c in empty)
            return
        if t[0] in ("compr", "res") and t[1] in k.sx.loops and (t[1], guarded) not in seen_loops:
            seen_loops.add((t[1], guarded))
            L = k.sx.loops[t[1]]
            for y in ([L.elt] if L.elt is not None else []) + list(L.filters or []) + [L.source] + list(L.update.values()) + list(L.init.values()):
                walk(y, guarded)
        for x in t[1:]:
            if isinstance(x, tuple):
                walk(x, guarded)
    walk(k.ret, False)
    if not found:
        return None
    return "dominating non-emptiness test of self.next_states" if all(found) else None


def r4_fixpoint_loops(ctx, chk, rule="C06.4"):
    """`while` loops reachable from solve() other than the two convergence sweeps must be recognised terminating idioms:
    a worklist loop (judged by C07.3/5: every pushed state is marked first, so at most n pushes) or a fixed-point loop
    `while not done: ...; done = (this round == previous round); previous = this round` over a quantity that can only
    grow (here: the set of states nobody points to, since transition lists only shrink - C03.6)."""
    sweeps = {"tad.py::Solver.value_iteration_reachability", "tad.py::Solver.value_iteration_total_rewards"}
    scope = shared.solver_scope(ctx)
    n = 0
    for f in scope:
        if not any(isinstance(x, ast.While) for x in walk_no_nested_defs(f.node)):
            continue
        if f.qual in sweeps:
            continue
        # a helper that only the two sweeps call (directly or through other such helpers) carries *their* convergence loop:
        # it is judged, inlined, by C01.4 / C02.3
        def only_from_sweeps(g, seen=()):
            cs = [c for c, _ in ctx.cg.callers_of(g)]
            return bool(cs) and all(c.qual in sweeps or (c.qual not in seen and only_from_sweeps(c, seen + (g.qual,))) for c in cs)
        if only_from_sweeps(f):
            continue
        cls = f.cls.name if f.cls else None
        sx = SymX(ctx, f, cls, inline_depth=0).run()
        for L in sx.loops.values():
            if L.kind != "while":
                continue
            n += 1
            where = f.where(L.node)
            c = L.cond
            # worklist: `while pending:` with a pop in the body
            if c[0] == "truthy" and c[1][0] in ("acc", "res", "v"):
                pend = c[1][2] if c[1][0] != "v" else c[1][1]
                pops = [x for x in walk_no_nested_defs(L.node) if isinstance(x, ast.Call) and isinstance(x.func, ast.Attribute) and x.func.attr in ("pop", "popleft")
                        and isinstance(x.func.value, ast.Name) and x.func.value.id == pend]
                if pops:
                    chk.ok(rule, where, "worklist loop `while %s` pops one state per iteration; pushes are bounded by the visited marks (C07.3/C07.5)" % pend)
                    continue
            # fixed point
            if c[0] == "not" and c[1][0] == "truthy" and c[1][1][0] == "acc":
                done = c[1][1][2]
                u = L.update.get(done)
                ok = False
                if u is not None and u[0] == "cmp" and u[1] == "==":
                    sides = (u[2], u[3])
                    prev = [x for x in C02._sub(u) if x[0] == "acc" and x[1] == L.id]
                    cur = [x for x in C02._sub(u) if x[0] == "res"]
                    if prev and cur:
                        pv = prev[0][2]
                        # previous := this round's value
                        if L.update.get(pv) is not None and any(x == cur[0] for x in C02._sub(L.update[pv])) or L.update.get(pv) == cur[0]:
                            ok = True
                recognised = u is None or bool(ok)
                if not ok and u is not None and u[0] == "cmp" and u[1] == "==":
                    # `finished = current == previous; previous = current` with the current round's value any expression (a set built by a
                    # comprehension, a frozenset, ...), possibly compared through set() / frozenset() on both sides
                    def unwrap(x):
                        while x[0] == "call" and x[1] in ("set", "frozenset", "sorted", "tuple", "list") and len(x[2]) == 1 and not x[3]:
                            x = x[2][0]
                        return x
                    for a_, b_ in ((u[2], u[3]), (u[3], u[2])):
                        pa = unwrap(a_)
                        if pa[0] == "acc" and pa[1] == L.id:
                            recognised = True
                            upd = L.update.get(pa[2])
                            if upd is not None and (upd == b_ or unwrap(upd) == unwrap(b_)) and not any(x[0] == "acc" and x[1] == L.id and x[2] == pa[2] for x in C02._sub(b_)):
                                ok = True
                    if not any(x[0] == "acc" and x[1] == L.id for x in C02._sub(u)):
                        recognised = True       # two values of the SAME round are compared: nothing carried over from the previous one
                if ok and not L.has_break:
                    chk.ok(rule, where, "fixed-point loop: `%s` becomes true when two consecutive rounds agree, and the previous round is replaced by the current one" % done)
                    continue
                if not recognised:
                    chk.undecided(rule, where, "the exit flag of `while not %s` is updated by `%s`: not recognised as 'this round == previous round'" % (done, show(u)[:120]))
                    continue
                chk.violation(rule, where, "the loop `while not %s` does not have the fixed-point exit 'this round == previous round' (update `%s`): it may never terminate, or stop before the pruning is stable" % (
                    done, show(u)[:120] if u is not None else None), expected="%s = (current == previous); previous = current" % done, found=show(u)[:160] if u is not None else "none",
                    construct="%s fixed-point exit" % f.short)
                continue
            # `while True: ...; if current == previous: break`
            if c == TRUE and (L.has_break != L.has_return):
                bc = getattr(L, "break_cond", FALSE) if L.has_break else getattr(L, "return_cond", FALSE)
                ok = False
                parts = bc[1] if bc[0] == "and" else (bc,)
                eqs = [x for x in parts if x[0] == "cmp" and x[1] == "=="]
                if L.has_return and not eqs:
                    # `$returned` becomes true under exactly one test inside the body
                    flat = [y for y in (bc[1] if bc[0] == "and" else (bc,))]
                    eqs = [x for x in flat if x[0] == "cmp" and x[1] == "=="]
                if eqs:
                    e_ = eqs[-1]
                    prev = [x for x in C02._sub(e_) if x[0] == "acc" and x[1] == L.id]
                    cur = [x for x in C02._sub(e_) if x[0] == "res"]
                    if prev and cur and (L.update.get(prev[0][2]) == cur[0] or any(x == cur[0] for x in C02._sub(L.update.get(prev[0][2], TRUE)))):
                        ok = True
                if ok:
                    chk.ok(rule, where, "fixed-point loop: `while True` left by `%s` exactly when this round's result equals the previous round's" % ("break" if L.has_break else "return"))
                    continue
                chk.undecided(rule, where, "`while True` loop: break condition `%s` not recognised as 'this round == previous round'" % show(bc)[:120])
                continue
            chk.undecided(rule, where, "termination idiom of `while %s` not recognised" % src(L.node.test))
    chk.extra["auxiliary_while_loops"] = n


def r3c_division(ctx, chk, rule="C06.3c"):
    scope = shared.solver_scope(ctx)
    n = 0
    for f in scope:
        for node in walk_no_nested_defs(f.node):
            if isinstance(node, ast.BinOp) and isinstance(node.op, (ast.Div, ast.FloorDiv, ast.Mod)):
                ok, val = ctx.prog.try_const(node.right, f.mod)
                if ok and val != 0:
                    continue
                n += 1
                where = f.where(node)
                comp = node
                while comp is not None and not isinstance(comp, (ast.ListComp, ast.GeneratorExp, ast.stmt)):
                    comp = comp.parent
                if isinstance(comp, (ast.ListComp, ast.GeneratorExp)) and isinstance(node.right, ast.Name) and isinstance(comp.generators[0].iter, ast.Name):
                    cfg = ctx.cfg(f)
                    defs = cfg.defs_reaching(node, node.right.id)
                    if len(defs) == 1:
                        d = next(iter(defs))
                        v = d.value if isinstance(d, ast.Assign) else None
                        if isinstance(v, ast.Call) and call_name(v) == "sum" and v.args and isinstance(v.args[0], ast.GeneratorExp) \
                                and isinstance(v.args[0].generators[0].iter, ast.Name) \
                                and v.args[0].generators[0].iter.id == comp.generators[0].iter.id:
                            chk.ok(rule, where, "`%s`: the divisor is the sum of the probabilities of the very list the division is mapped over - evaluated only when that list is non-empty, and then > 0 for positive probabilities" % src(node))
                            continue
                # the divisor is a parameter: judge it at every call site inside the solver's scope
                if isinstance(comp, (ast.ListComp, ast.GeneratorExp)) and isinstance(node.right, ast.Name) and node.right.id in f.params \
                        and isinstance(comp.generators[0].iter, ast.Name) and comp.generators[0].iter.id in f.params:
                    sites = [(g, c) for g, c in ctx.cg.callers_of(f) if g in scope and not getattr(c, "synthetic", False)]
                    static = any(isinstance(d_, ast.Name) and d_.id == "staticmethod" for d_ in f.node.decorator_list)
                    ps = [p_ for p_ in f.params if not (p_ == "self" and not static)]
                    good = bool(sites)
                    for g, c in sites:
                        amap = dict(zip(ps, c.args))
                        amap.update({k_.arg: k_.value for k_ in c.keywords if k_.arg})
                        den, lst = amap.get(node.right.id), amap.get(comp.generators[0].iter.id)
                        okc = False
                        if isinstance(den, ast.Name) and isinstance(lst, ast.Name):
                            defs = ctx.cfg(g).defs_reaching(c, den.id)
                            if len(defs) == 1:
                                v = next(iter(defs))
                                v = v.value if isinstance(v, ast.Assign) else None
                                if isinstance(v, ast.Call) and call_name(v) == "sum" and v.args and isinstance(v.args[0], ast.GeneratorExp) \
                                        and isinstance(v.args[0].generators[0].iter, ast.Name) and v.args[0].generators[0].iter.id == lst.id:
                                    okc = True
                        good = good and okc
                    if good:
                        chk.ok(rule, where, "`%s`: at every call site in the solver (%d) the divisor is the sum of the probabilities of the very list that is mapped - > 0 whenever "
                               "the list is non-empty, and not evaluated otherwise" % (src(node), len(sites)))
                        continue
                # the divisor is a plain parameter holding a length: judge the length at every call site
                if isinstance(node.right, ast.Name) and node.right.id in f.params:
                    sites = [(g, c) for g, c in ctx.cg.callers_of(f) if g in scope and not getattr(c, "synthetic", False)]
                    ps = [p_ for p_ in f.params if p_ != "self"]
                    verdicts = []
                    for g, c in sites:
                        amap = dict(zip(ps, c.args))
                        amap.update({k_.arg: k_.value for k_ in c.keywords if k_.arg})
                        a = amap.get(node.right.id)
                        if isinstance(a, ast.Call) and call_name(a) == "len" and a.args:
                            what = attr_path(a.args[0])
                            if what == "self." + shared.solver_names(ctx)["field"]:
                                verdicts.append(("ok", g, c, "the number of states (a validated game has at least one)"))
                            elif what is not None and what in g.params and g.qual == VIR:
                                verdicts.append(("bad", g, c, "len(%s): the backward search returns an empty list when no non-final state can reach a final state" % what))
                            else:
                                verdicts.append(("?", g, c, src(a)))
                        else:
                            verdicts.append(("?", g, c, src(a) if a is not None else "?"))
                    bad_v = [v for v in verdicts if v[0] == "bad"]
                    if bad_v:
                        _, g, c, why = bad_v[0]
                        chk.violation(rule, g.where(c), "`%s` in %s divides by `%s`, which this call sets to %s: ZeroDivisionError out of solve() for a well-formed game" % (
                            src(node), f.short, node.right.id, why), expected="no division by a length that can be 0", found=src(c)[:100], construct="%s division by %s" % (f.short, node.right.id))
                        continue
                    if verdicts and all(v[0] == "ok" for v in verdicts):
                        chk.ok(rule, where, "`%s`: the divisor is %s at every call site" % (src(node), verdicts[0][3]))
                        continue
                chk.undecided(rule, where, "division `%s`: divisor not shown to be non-zero" % src(node))
    chk.extra["divisions"] = n


def run(ctx, chk):
    # observed through the batch driver: run_games()[name]['msg'] must be this game's, this mode's value
    from . import C12 as _C12
    _C12.observe(ctx, chk, "C06.obs", ['msg'], with_msg=True)
    # the property speaks of every solve: nothing computed by one solve (a memo on the game object, on a class, in a module)
    # may be handed to the next one - a second solve of the same object, or of another game, would report stale values
    from . import C10 as _C10
    _C10.r2_no_carried_state(ctx, chk, "C06.pre:C10.2")
    r1_raise_census(ctx, chk)
    r1b_try_census(ctx, chk)
    r1c_budget_raises(ctx, chk)
    r2_no_solution(ctx, chk)
    r2b_flag_raises(ctx, chk)
    r3a_definite_assignment(ctx, chk)
    r3b_constant_subscripts(ctx, chk)
    r3c_division(ctx, chk)
    r3e_builtin_on_empty(ctx, chk)
    r4_fixpoint_loops(ctx, chk)
    shared.rule_no_recursion(ctx, chk, "C06.3d", [ctx.func("tad.py::StochasticGame.solve")], "solve()")
    C03.r1(ctx, chk, "C06.pre:C03.1")
    # (the property's own mechanism: "dead branches must be gone so that no rewarded cycle survives" - and a removal that works
    # from a stale snapshot of the list raises `x not in list` out of solve())
    C03.r23(ctx, chk, "C06.pre:C03.2", "C06.pre:C03.3")
    C07.r1_no_recursion(ctx, chk, "C06.pre:C07.1")
    # 'no solution' is raised exactly when R[0] == 0 only if the reachability domain is complete (C01 prerequisites)
    C07.r2_roots(ctx, chk, "C06.pre:C07.2")
    C07.r4_result(ctx, chk, "C06.pre:C07.4", order_matters=False)
    C07.r35_worklist(ctx, chk, "C06.pre:C07.3", "C06.pre:C07.5")
    C07.r6_reversed_table(ctx, chk, "C06.pre:C07.6")        # a missing table entry is a stray KeyError out of solve()
    # structural necessary conditions for termination of the sweeps
    C01.r4_sweep(ctx, chk, "C06.term:C01.4")
    C02.r3_sweep(ctx, chk, "C06.term:C02.3")
    # "every well-formed game is solved": the validation must not refuse (or crash on) a well-formed description
    from . import C09
    C09.r123_check_game(ctx, chk, "C06.pre:C09.1")
    C09.r4_check_next_states(ctx, chk, "C06.pre:C09.1")
    if not shared.identity_on_values(ctx, chk, "C06.5", shared.SOLVER_MODULES):
        chk.ok("C06.5", "tad.py, reverse_dfs.py", "no identity comparison (`is`) between strings / numbers in the solver: player kinds and indices are compared by value")
    chk.require_instances("C06.1", 6)
    chk.require_instances("C06.3a", 1)
    chk.require_instances("C06.3b", 3)
